#include <resolvo_vector.h>
#include <string>
#include <cstdio>
int main() {
    resolvo::Vector<std::string> v;
    v.push_back(std::string(64, 'a'));
    v.push_back(v[0]);
    resolvo::Vector<std::string> w;
    w.push_back(std::string(64, 'b'));
    w.push_back(std::move(w[0]));
    resolvo::Vector<std::string> shared = v;   // shared buffer: push_back must detach
    shared.push_back(shared[1]);
    fprintf(stderr, "%zu %zu %zu %s %s\n", v.size(), w.size(), shared.size(), v[1].substr(0,2).c_str(), w[1].substr(0,2).c_str());
    return (v.size()==2 && w.size()==2 && shared.size()==3 && v[1][0]=='a' && w[1][0]=='b') ? 0 : 1;
}
