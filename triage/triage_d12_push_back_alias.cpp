#include <resolvo_vector.h>
#include <resolvo_string.h>
#include <string>
#include <cstdio>
int main() {
    // (1) push_back of an element of the same vector when size == capacity
    resolvo::Vector<std::string> v;
    v.push_back(std::string(64, 'a'));      // size 1, capacity 1
    fprintf(stderr, "size=%zu cap=%zu\n", v.size(), v.capacity());
    v.push_back(v[0]);                      // detach(size+1) reallocates, then copies from the freed buffer?
    fprintf(stderr, "after: %s\n", v[1].substr(0, 4).c_str());
    // (2) String self-assignment
    resolvo::String s("hello world, this is a long string");
    resolvo::String &r = s;
    s = r;
    fprintf(stderr, "string after self assignment: %s\n", std::string(std::string_view(s)).c_str());
    return 0;
}
