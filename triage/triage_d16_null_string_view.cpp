// D16: resolvo::String built from a default-constructed std::string_view (data() == nullptr, size() == 0)
#include <resolvo_string.h>
#include <string_view>
#include <cstdio>
int main() {
    std::string_view empty;               // data() == nullptr
    resolvo::String s(empty);             // -> resolvo_string_from_bytes(this, nullptr, 0)
    fprintf(stderr, "created, size %zu\n", std::string_view(s).size());
    resolvo::String t("abc");
    t = std::string_view();               // same through the assignment operator
    fprintf(stderr, "assigned, size %zu\n", std::string_view(t).size());
    return 0;
}
