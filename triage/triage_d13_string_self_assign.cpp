#include <resolvo_vector.h>
#include <resolvo_string.h>
#include <string>
#include <cstdio>
int main() {
    resolvo::String s("hello world, this is a long string");
    resolvo::String &r = s;
    s = r;
    fprintf(stderr, "string after self assignment: %s\n", std::string(std::string_view(s)).c_str());
    resolvo::Vector<std::string> v;
    v.push_back(std::string(64, 'a'));
    resolvo::Vector<std::string> &vr = v;
    v = vr;
    fprintf(stderr, "vector after self assignment: %zu %s\n", v.size(), v[0].substr(0,3).c_str());
    return 0;
}
