#include <resolvo_string.h>
#include <string>
#include <cstdio>
int main() {
    resolvo::String s("hello world, this is a long string");
    resolvo::String &r = s;
    s = r;
    std::string a = std::string(std::string_view(s));
    s = std::string_view(s).substr(6);
    std::string b = std::string(std::string_view(s));
    resolvo::String t("x"); t = s; t = "literal";
    fprintf(stderr, "%s | %s | %s\n", a.c_str(), b.c_str(), std::string(std::string_view(t)).c_str());
    return (a == "hello world, this is a long string" && b == "world, this is a long string") ? 0 : 1;
}
