// factdb: a rustc driver that serialises type-checked facts (MIR bodies before the
// coroutine transform, ADT/impl tables, layouts) of every workspace crate to JSON.
// It is injected with RUSTC_WORKSPACE_WRAPPER; argv[1] is the real rustc path and
// is dropped.  Output: $FACTDB_OUT/<crate>.<kind>.<hash>.json, one write per process.
#![feature(rustc_private)]
#![allow(rustc::internal)]

extern crate rustc_abi;
extern crate rustc_data_structures;
extern crate rustc_driver;
extern crate rustc_hir;
extern crate rustc_interface;
extern crate rustc_middle;
extern crate rustc_session;
extern crate rustc_span;

mod json;
use json::J;

use rustc_driver::Compilation;
use rustc_hir::def::DefKind;
use rustc_hir::def_id::{DefId, LocalDefId};
use rustc_middle::mir::{self, *};
use rustc_middle::ty::print::{with_crate_prefix, with_no_trimmed_paths};
use rustc_middle::ty::{self, Instance, Ty, TyCtxt, TypingEnv};
use rustc_span::{ExpnKind, Span};
use std::collections::{BTreeMap, BTreeSet};

struct Cb;

impl rustc_driver::Callbacks for Cb {
    fn after_expansion<'tcx>(
        &mut self,
        _c: &rustc_interface::interface::Compiler,
        tcx: TyCtxt<'tcx>,
    ) -> Compilation {
        if let Ok(out) = std::env::var("FACTDB_OUT") {
            dump(tcx, &out);
        }
        Compilation::Continue
    }
}

fn main() {
    let mut args: Vec<String> = std::env::args().collect();
    // RUSTC_WORKSPACE_WRAPPER: argv = [driver, rustc, args...]
    if args.len() > 1 && (args[1].ends_with("rustc") || args[1].contains("/rustc")) {
        args.remove(1);
    }
    rustc_driver::run_compiler(&args, &mut Cb);
}

struct Cx<'tcx> {
    tcx: TyCtxt<'tcx>,
    mono_tys: BTreeMap<String, Ty<'tcx>>,
}

fn tys<'tcx>(t: Ty<'tcx>) -> String {
    with_crate_prefix!(with_no_trimmed_paths!(format!("{}", t)))
}

fn dump<'tcx>(tcx: TyCtxt<'tcx>, out: &str) {
    let krate = tcx.crate_name(rustc_hir::def_id::LOCAL_CRATE).to_string();
    let mut cx = Cx { tcx, mono_tys: BTreeMap::new() };

    // pass 1: clone every body before any query can steal it
    let mut bodies: Vec<(LocalDefId, Body<'tcx>)> = Vec::new();
    let mut promoteds: Vec<(LocalDefId, usize, Body<'tcx>)> = Vec::new();
    for def in tcx.hir_body_owners() {
        let kind = tcx.def_kind(def);
        match kind {
            DefKind::Fn
            | DefKind::AssocFn
            | DefKind::Closure
            | DefKind::Const { .. }
            | DefKind::AssocConst { .. }
            | DefKind::Static { .. }
            | DefKind::AnonConst
            | DefKind::InlineConst
            | DefKind::SyntheticCoroutineBody => {}
            _ => continue,
        }
        if kind == DefKind::SyntheticCoroutineBody {
            continue;
        }
        let (steal, _) = tcx.mir_promoted(def);
        if steal.is_stolen() {
            eprintln!("factdb: STOLEN {}", tcx.def_path_str(def));
            continue;
        }
        let b = steal.borrow().clone();
        bodies.push((def, b));
        let (_, prom) = tcx.mir_promoted(def);
        if !prom.is_stolen() {
            for (pi, pb) in prom.borrow().iter_enumerated() {
                promoteds.push((def, pi.as_usize(), pb.clone()));
            }
        }
    }

    let mut jb = Vec::new();
    for (def, body) in &bodies {
        jb.push(cx.body(*def, body));
    }
    for (def, pi, body) in &promoteds {
        // promoted constants (e.g. `&Some(true)`): same serialisation, path suffixed with promoted[i]
        let mut j = cx.body(*def, body);
        if let J::Obj(ref mut kv) = j {
            for (k, v) in kv.iter_mut() {
                if *k == "path" {
                    if let J::Str(s) = v {
                        *v = J::Str(format!("{}::promoted[{}]", s, pi));
                    }
                }
                if *k == "kind" {
                    *v = J::s("Promoted");
                }
            }
        }
        jb.push(j);
    }

    // ADTs, impls, traits, foreign items
    let mut adts = Vec::new();
    let mut impls = Vec::new();
    let mut traits = Vec::new();
    let mut decls = Vec::new();
    for id in tcx.hir_crate_items(()).definitions() {
        let did = id.to_def_id();
        match tcx.def_kind(did) {
            DefKind::Struct | DefKind::Enum | DefKind::Union => adts.push(cx.adt(did)),
            DefKind::Impl { .. } => impls.push(cx.impl_(did)),
            DefKind::Trait => traits.push(cx.trait_(did)),
            DefKind::Fn | DefKind::AssocFn => decls.push(cx.fn_decl(did)),
            _ => {}
        }
    }

    // layouts of monomorphic types seen
    let mut layouts = Vec::new();
    let mut seen: BTreeSet<String> = BTreeSet::new();
    let mut work: Vec<Ty<'tcx>> = cx.mono_tys.values().copied().collect();
    while let Some(t) = work.pop() {
        let s = tys(t);
        if !seen.insert(s.clone()) {
            continue;
        }
        if let Some(j) = cx.layout(t, &mut work) {
            layouts.push(j);
        }
    }

    let sess = tcx.sess;
    let mut cfgs: Vec<String> = Vec::new();
    for (name, val) in sess.config.iter() {
        match val {
            Some(v) => cfgs.push(format!("{}={}", name, v)),
            None => cfgs.push(name.to_string()),
        }
    }
    cfgs.sort();
    let crate_types: Vec<J> =
        tcx.crate_types().iter().map(|c| J::s(format!("{:?}", c))).collect();
    let is_test = sess.opts.test;
    let root = J::obj(vec![
        ("crate", J::s(&krate)),
        ("crate_types", J::Arr(crate_types)),
        ("is_test", J::Bool(is_test)),
        ("cfg", J::Arr(cfgs.iter().filter(|c| !c.starts_with("target_")).map(J::s).collect())),
        ("bodies", J::Arr(jb)),
        ("adts", J::Arr(adts)),
        ("impls", J::Arr(impls)),
        ("traits", J::Arr(traits)),
        ("decls", J::Arr(decls)),
        ("layouts", J::Arr(layouts)),
    ]);
    let h = tcx.stable_crate_id(rustc_hir::def_id::LOCAL_CRATE).as_u64();
    let kind = if is_test { "test" } else { "lib" };
    let path = format!("{}/{}.{}.{:016x}.json", out, krate, kind, h);
    let mut s = String::new();
    root.write(&mut s);
    std::fs::create_dir_all(out).ok();
    let tmp = format!("{}.tmp", path);
    std::fs::write(&tmp, s).expect("factdb: write");
    std::fs::rename(&tmp, &path).expect("factdb: rename");
}

impl<'tcx> Cx<'tcx> {
    fn path(&self, d: DefId) -> String {
        with_crate_prefix!(with_no_trimmed_paths!(self.tcx.def_path_str(d)))
    }

    fn note_ty(&mut self, t: Ty<'tcx>) {
        use rustc_middle::ty::TypeVisitableExt;
        if t.has_param() || t.has_infer() || t.has_aliases() || t.has_escaping_bound_vars() {
            // still record monomorphic sub-components
            if let ty::Adt(_, args) = t.kind() {
                for a in args.types() {
                    self.note_ty(a);
                }
            }
            match t.kind() {
                ty::Ref(_, inner, _) => self.note_ty(*inner),
                ty::RawPtr(inner, _) => self.note_ty(*inner),
                ty::Slice(inner) => self.note_ty(*inner),
                _ => {}
            }
            return;
        }
        let t = self.tcx.erase_and_anonymize_regions(t);
        self.mono_tys.entry(tys(t)).or_insert(t);
    }

    fn loc(&self, sp: Span) -> (String, usize, Vec<J>) {
        let tcx = self.tcx;
        let sm = tcx.sess.source_map();
        let cs = sp.source_callsite();
        let lo = sm.lookup_char_pos(cs.lo());
        let file = format!("{}", lo.file.name.prefer_remapped_unconditionally());
        let mut exp = Vec::new();
        if sp.from_expansion() {
            let mut cur = sp;
            let mut guard = 0;
            while cur.from_expansion() && guard < 32 {
                let d = cur.ctxt().outer_expn_data();
                match d.kind {
                    ExpnKind::Macro(_, name) => exp.push(J::s(format!("macro:{}", name))),
                    ExpnKind::Desugaring(k) => exp.push(J::s(format!("desugar:{:?}", k))),
                    ExpnKind::AstPass(p) => exp.push(J::s(format!("astpass:{:?}", p))),
                    ExpnKind::Root => break,
                }
                cur = d.call_site;
                guard += 1;
            }
        }
        (file, lo.line, exp)
    }

    fn place_ty(&self, body: &Body<'tcx>, p: &Place<'tcx>) -> Ty<'tcx> {
        p.ty(&body.local_decls, self.tcx).ty
    }

    fn place(&mut self, body: &Body<'tcx>, p: &Place<'tcx>) -> J {
        let tcx = self.tcx;
        let mut elems = Vec::new();
        let mut pty = mir::PlaceTy::from_ty(body.local_decls[p.local].ty);
        for e in p.projection.iter() {
            let j = match e {
                ProjectionElem::Deref => J::s("*"),
                ProjectionElem::Field(f, fty) => {
                    let mut kv = vec![("f", J::Int(f.as_usize() as i128))];
                    match pty.ty.kind() {
                        ty::Adt(adt, _) => {
                            let vidx = pty.variant_index.unwrap_or(rustc_abi::FIRST_VARIANT);
                            let v = adt.variant(vidx);
                            kv.push(("of", J::s(self.path(adt.did()))));
                            if adt.is_enum() {
                                kv.push(("v", J::s(v.name.to_string())));
                            }
                            if let Some(fd) = v.fields.get(f) {
                                kv.push(("n", J::s(fd.name.to_string())));
                            }
                        }
                        ty::Tuple(_) => kv.push(("of", J::s("tuple"))),
                        ty::Closure(d, _) | ty::Coroutine(d, _) | ty::CoroutineClosure(d, _) => {
                            kv.push(("of", J::s(format!("closure:{}", self.path(*d)))));
                        }
                        _ => {}
                    }
                    kv.push(("ty", J::s(tys(fty))));
                    J::obj(kv)
                }
                ProjectionElem::Index(l) => J::obj(vec![("idx", J::Int(l.as_usize() as i128))]),
                ProjectionElem::ConstantIndex { offset, min_length, from_end } => J::obj(vec![
                    ("cidx", J::Int(offset as i128)),
                    ("min", J::Int(min_length as i128)),
                    ("from_end", J::Bool(from_end)),
                ]),
                ProjectionElem::Subslice { from, to, from_end } => J::obj(vec![
                    ("sub", J::Int(from as i128)),
                    ("to", J::Int(to as i128)),
                    ("from_end", J::Bool(from_end)),
                ]),
                ProjectionElem::Downcast(name, vidx) => {
                    let n = match name {
                        Some(s) => s.to_string(),
                        None => match pty.ty.kind() {
                            ty::Adt(adt, _) => adt.variant(vidx).name.to_string(),
                            _ => format!("{}", vidx.as_usize()),
                        },
                    };
                    J::obj(vec![("as", J::s(n))])
                }
                ProjectionElem::OpaqueCast(_) => J::s("opaquecast"),
                ProjectionElem::UnwrapUnsafeBinder(_) => J::s("unwrapbinder"),
            };
            elems.push(j);
            pty = pty.projection_ty(tcx, e);
        }
        let mut kv = vec![("l", J::Int(p.local.as_usize() as i128))];
        if !elems.is_empty() {
            kv.push(("p", J::Arr(elems)));
            kv.push(("ty", J::s(tys(pty.ty))));
        }
        J::obj(kv)
    }

    fn fn_ref(&mut self, owner: LocalDefId, def_id: DefId, args: ty::GenericArgsRef<'tcx>) -> J {
        let tcx = self.tcx;
        let mut kv = vec![
            ("path", J::s(self.path(def_id))),
            ("full", J::s(with_crate_prefix!(with_no_trimmed_paths!(tcx.def_path_str_with_args(def_id, args))))),
            ("krate", J::s(tcx.crate_name(def_id.krate).to_string())),
            ("name", J::s(tcx.item_name(def_id).to_string())),
        ];
        let targs: Vec<J> = args.types().map(|t| J::s(tys(t))).collect();
        kv.push(("targs", J::Arr(targs)));
        let dk = tcx.def_kind(def_id);
        if dk == DefKind::AssocFn {
            if let Some(tr) = tcx.trait_of_assoc(def_id) {
                kv.push(("trait", J::s(self.path(tr))));
                if args.len() > 0 {
                    if let Some(t0) = args.get(0).and_then(|a| a.as_type()) {
                        kv.push(("self_ty", J::s(tys(t0))));
                    }
                }
            } else if let Some(im) = tcx.inherent_impl_of_assoc(def_id) {
                let st = tcx.type_of(im).instantiate_identity().skip_norm_wip();
                kv.push(("impl_self", J::s(tys(st))));
                if let ty::Adt(a, _) = st.kind() {
                    kv.push(("impl_adt", J::s(self.path(a.did()))));
                }
            }
        }
        if matches!(dk, DefKind::Fn | DefKind::AssocFn) {
            let env = TypingEnv::post_analysis(tcx, owner);
            // guard: try_resolve may ICE on args with escaping/infer; args from MIR are fine
            if let Ok(Some(inst)) = Instance::try_resolve(tcx, env, def_id, args) {
                let rd = inst.def_id();
                if rd != def_id {
                    kv.push(("resolved", J::s(self.path(rd))));
                    kv.push(("resolved_krate", J::s(tcx.crate_name(rd.krate).to_string())));
                    if let Some(im) = tcx.impl_of_assoc(rd) {
                        let st = tcx.type_of(im).instantiate_identity().skip_norm_wip();
                        kv.push(("resolved_impl_self", J::s(tys(st))));
                    }
                }
                kv.push(("inst_kind", J::s(inst_kind(&inst))));
            }
        }
        J::obj(kv)
    }

    fn operand(&mut self, owner: LocalDefId, body: &Body<'tcx>, o: &Operand<'tcx>) -> J {
        match o {
            Operand::Copy(p) => J::obj(vec![("k", J::s("copy")), ("p", self.place(body, p))]),
            Operand::Move(p) => J::obj(vec![("k", J::s("move")), ("p", self.place(body, p))]),
            Operand::Constant(c) => {
                let t = c.const_.ty();
                let mut kv = vec![("k", J::s("const")), ("ty", J::s(tys(t)))];
                match t.kind() {
                    ty::FnDef(d, a) => kv.push(("fn", self.fn_ref(owner, *d, a))),
                    ty::Bool | ty::Int(_) | ty::Uint(_) | ty::Char => {
                        let env = TypingEnv::post_analysis(self.tcx, owner);
                        if let Some(si) = c.const_.try_eval_scalar_int(self.tcx, env) {
                            let size = si.size();
                            let v: i128 = match t.kind() {
                                ty::Int(_) => si.to_int(size),
                                _ => si.to_uint(size) as i128,
                            };
                            if matches!(t.kind(), ty::Bool) {
                                kv.push(("v", J::Bool(v != 0)));
                            } else {
                                kv.push(("v", J::Int(v)));
                            }
                        }
                    }
                    _ => {
                        let s = with_crate_prefix!(with_no_trimmed_paths!(format!("{}", c.const_)));
                        if s.len() < 200 {
                            kv.push(("s", J::s(s)));
                        }
                    }
                }
                J::obj(kv)
            }
            Operand::RuntimeChecks(rc) => {
                J::obj(vec![("k", J::s("rtcheck")), ("s", J::s(format!("{:?}", rc)))])
            }
        }
    }

    fn rvalue(&mut self, owner: LocalDefId, body: &Body<'tcx>, r: &Rvalue<'tcx>) -> J {
        let tcx = self.tcx;
        match r {
            Rvalue::Use(o, _) => J::obj(vec![("k", J::s("use")), ("o", self.operand(owner, body, o))]),
            Rvalue::Repeat(o, n) => J::obj(vec![
                ("k", J::s("repeat")),
                ("o", self.operand(owner, body, o)),
                ("n", J::s(format!("{}", n))),
            ]),
            Rvalue::Ref(_, bk, p) => {
                let b = match bk {
                    BorrowKind::Shared => "shared",
                    BorrowKind::Fake(_) => "fake",
                    BorrowKind::Mut { .. } => "mut",
                };
                J::obj(vec![("k", J::s("ref")), ("bk", J::s(b)), ("p", self.place(body, p))])
            }
            Rvalue::ThreadLocalRef(d) => {
                J::obj(vec![("k", J::s("tlsref")), ("def", J::s(self.path(*d)))])
            }
            Rvalue::RawPtr(k, p) => J::obj(vec![
                ("k", J::s("rawptr")),
                ("m", J::s(format!("{:?}", k))),
                ("p", self.place(body, p)),
            ]),
            Rvalue::Cast(ck, o, t) => {
                let from = o.ty(&body.local_decls, tcx);
                let mut kv = vec![
                    ("k", J::s("cast")),
                    ("ck", J::s(format!("{:?}", ck))),
                    ("o", self.operand(owner, body, o)),
                    ("from", J::s(tys(from))),
                    ("ty", J::s(tys(*t))),
                ];
                if matches!(ck, CastKind::Transmute) {
                    self.note_ty(from);
                    self.note_ty(*t);
                    self.note_pointee(from);
                    self.note_pointee(*t);
                }
                if let CastKind::PointerCoercion(pc, _) = ck {
                    kv.push(("coercion", J::s(format!("{:?}", pc))));
                }
                J::obj(kv)
            }
            Rvalue::BinaryOp(op, ab) => J::obj(vec![
                ("k", J::s("bin")),
                ("op", J::s(format!("{:?}", op))),
                ("a", self.operand(owner, body, &ab.0)),
                ("b", self.operand(owner, body, &ab.1)),
            ]),
            Rvalue::UnaryOp(op, a) => J::obj(vec![
                ("k", J::s("un")),
                ("op", J::s(format!("{:?}", op))),
                ("a", self.operand(owner, body, a)),
            ]),
            Rvalue::Discriminant(p) => {
                let pt = self.place_ty(body, p);
                let mut kv = vec![("k", J::s("discr")), ("p", self.place(body, p))];
                if let ty::Adt(a, _) = pt.kind() {
                    kv.push(("adt", J::s(self.path(a.did()))));
                }
                J::obj(kv)
            }
            Rvalue::Aggregate(ak, ops) => {
                let mut kv = vec![("k", J::s("agg"))];
                match &**ak {
                    AggregateKind::Array(_) => kv.push(("ak", J::s("array"))),
                    AggregateKind::Tuple => kv.push(("ak", J::s("tuple"))),
                    AggregateKind::Adt(d, v, _, _, active) => {
                        kv.push(("ak", J::s("adt")));
                        kv.push(("adt", J::s(self.path(*d))));
                        let adt = tcx.adt_def(*d);
                        let var = adt.variant(*v);
                        kv.push(("variant", J::s(var.name.to_string())));
                        let names: Vec<J> = match active {
                            Some(f) => vec![J::s(var.fields[*f].name.to_string())],
                            None => var.fields.iter().map(|f| J::s(f.name.to_string())).collect(),
                        };
                        kv.push(("fields", J::Arr(names)));
                    }
                    AggregateKind::Closure(d, _) => {
                        kv.push(("ak", J::s("closure")));
                        kv.push(("def", J::s(self.path(*d))));
                    }
                    AggregateKind::Coroutine(d, _) => {
                        kv.push(("ak", J::s("coroutine")));
                        kv.push(("def", J::s(self.path(*d))));
                    }
                    AggregateKind::CoroutineClosure(d, _) => {
                        kv.push(("ak", J::s("coroutine_closure")));
                        kv.push(("def", J::s(self.path(*d))));
                    }
                    AggregateKind::RawPtr(..) => kv.push(("ak", J::s("rawptr"))),
                }
                let o: Vec<J> = ops.iter().map(|o| self.operand(owner, body, o)).collect();
                kv.push(("ops", J::Arr(o)));
                J::obj(kv)
            }
            Rvalue::CopyForDeref(p) => {
                J::obj(vec![("k", J::s("copyderef")), ("p", self.place(body, p))])
            }
            Rvalue::WrapUnsafeBinder(o, _) => {
                J::obj(vec![("k", J::s("use")), ("o", self.operand(owner, body, o))])
            }
        }
    }

    fn note_pointee(&mut self, t: Ty<'tcx>) {
        match t.kind() {
            ty::Ref(_, inner, _) | ty::RawPtr(inner, _) => {
                self.note_ty(*inner);
                if let ty::Slice(e) = inner.kind() {
                    self.note_ty(*e);
                }
            }
            _ => {}
        }
    }

    fn body(&mut self, def: LocalDefId, body: &Body<'tcx>) -> J {
        let tcx = self.tcx;
        let did = def.to_def_id();
        let kind = tcx.def_kind(did);
        let (file, line, _) = self.loc(body.span);
        let sm = tcx.sess.source_map();
        let end_line = sm.lookup_char_pos(body.span.hi()).line;
        let mut kv = vec![
            ("path", J::s(self.path(did))),
            ("kind", J::s(format!("{:?}", kind))),
            ("file", J::s(file)),
            ("line", J::Int(line as i128)),
            ("end_line", J::Int(end_line as i128)),
            ("arg_count", J::Int(body.arg_count as i128)),
        ];
        if let Some(ck) = tcx.coroutine_kind(did) {
            kv.push(("coroutine", J::s(format!("{:?}", ck))));
        }
        if kind == DefKind::Closure {
            let p = tcx.local_parent(def);
            kv.push(("parent", J::s(self.path(p.to_def_id()))));
            let root = tcx.typeck_root_def_id(did);
            kv.push(("root", J::s(self.path(root))));
            // upvars
            let mut ups = Vec::new();
            let cty = body.local_decls[Local::from_usize(1)].ty;
            let cty = match cty.kind() {
                ty::Ref(_, t, _) => *t,
                _ => cty,
            };
            let _ = cty;
            for cap in tcx.closure_captures(def) {
                let by = match cap.info.capture_kind {
                    ty::UpvarCapture::ByValue => "value".to_string(),
                    ty::UpvarCapture::ByUse => "use".to_string(),
                    ty::UpvarCapture::ByRef(bk) => format!("ref:{:?}", bk),
                };
                ups.push(J::obj(vec![
                    ("name", J::s(cap.to_string(tcx))),
                    ("ty", J::s(tys(cap.place.ty()))),
                    ("by", J::s(by)),
                ]));
            }
            kv.push(("upvars", J::Arr(ups)));
        }
        if matches!(kind, DefKind::Fn | DefKind::AssocFn) {
            kv.push(("sig", self.sig(did)));
            let vis = tcx.visibility(did);
            kv.push(("vis", J::s(if vis.is_public() { "pub".to_string() } else { format!("{:?}", vis) })));
            if kind == DefKind::AssocFn {
                if let Some(im) = tcx.impl_of_assoc(did) {
                    let st = tcx.type_of(im).instantiate_identity().skip_norm_wip();
                    kv.push(("impl_self", J::s(tys(st))));
                    if let ty::Adt(a, _) = st.kind() {
                        kv.push(("impl_adt", J::s(self.path(a.did()))));
                    }
                    if let Some(tr) = tcx.impl_opt_trait_ref(im) {
                        let tr = tr.instantiate_identity().skip_norm_wip();
                        kv.push(("impl_trait", J::s(self.path(tr.def_id))));
                        kv.push(("impl_trait_full", J::s(with_crate_prefix!(with_no_trimmed_paths!(format!("{}", tr))))));
                    }
                } else if let Some(tr) = tcx.trait_of_assoc(did) {
                    kv.push(("trait_default", J::s(self.path(tr))));
                }
            }
        }
        // locals
        let mut names: BTreeMap<usize, String> = BTreeMap::new();
        let mut upvar_names: Vec<J> = Vec::new();
        for vdi in &body.var_debug_info {
            if let VarDebugInfoContents::Place(p) = &vdi.value {
                if p.projection.is_empty() {
                    names.entry(p.local.as_usize()).or_insert(vdi.name.to_string());
                } else {
                    upvar_names.push(J::obj(vec![
                        ("name", J::s(vdi.name.to_string())),
                        ("p", self.place(body, p)),
                    ]));
                }
            }
        }
        if !upvar_names.is_empty() {
            kv.push(("debug_places", J::Arr(upvar_names)));
        }
        let mut locals = Vec::new();
        for (l, d) in body.local_decls.iter_enumerated() {
            self.note_ty(d.ty);
            let mut lk = vec![("ty", J::s(tys(d.ty)))];
            if let Some(n) = names.get(&l.as_usize()) {
                lk.push(("name", J::s(n)));
            }
            if d.mutability.is_mut() {
                lk.push(("mut", J::Bool(true)));
            }
            if d.is_user_variable() {
                lk.push(("user", J::Bool(true)));
            }
            locals.push(J::obj(lk));
        }
        kv.push(("locals", J::Arr(locals)));

        let mut blocks = Vec::new();
        for (_bb, data) in body.basic_blocks.iter_enumerated() {
            let mut stmts = Vec::new();
            for st in &data.statements {
                let (_f, line, exp) = self.loc(st.source_info.span);
                let mut sk: Vec<(&str, J)> = Vec::new();
                match &st.kind {
                    StatementKind::Assign(b) => {
                        let (p, r) = &**b;
                        sk.push(("k", J::s("assign")));
                        sk.push(("p", self.place(body, p)));
                        sk.push(("r", self.rvalue(def, body, r)));
                    }
                    StatementKind::SetDiscriminant { place, variant_index } => {
                        sk.push(("k", J::s("setdiscr")));
                        sk.push(("p", self.place(body, place)));
                        sk.push(("variant", J::Int(variant_index.as_usize() as i128)));
                    }
                    StatementKind::StorageDead(l) => {
                        sk.push(("k", J::s("dead")));
                        sk.push(("l", J::Int(l.as_usize() as i128)));
                    }
                    StatementKind::StorageLive(l) => {
                        sk.push(("k", J::s("live")));
                        sk.push(("l", J::Int(l.as_usize() as i128)));
                    }
                    _ => continue,
                }
                sk.push(("line", J::Int(line as i128)));
                if !exp.is_empty() {
                    sk.push(("exp", J::Arr(exp)));
                }
                stmts.push(J::obj(sk));
            }
            let term = data.terminator();
            let (_f, line, exp) = self.loc(term.source_info.span);
            let mut tk: Vec<(&str, J)> = Vec::new();
            let bbj = |b: BasicBlock| J::Int(b.as_usize() as i128);
            let unw = |u: &UnwindAction| match u {
                UnwindAction::Cleanup(b) => J::Int(b.as_usize() as i128),
                _ => J::Null,
            };
            match &term.kind {
                TerminatorKind::Goto { target } => {
                    tk.push(("k", J::s("goto")));
                    tk.push(("t", bbj(*target)));
                }
                TerminatorKind::SwitchInt { discr, targets } => {
                    tk.push(("k", J::s("switch")));
                    tk.push(("d", self.operand(def, body, discr)));
                    tk.push(("dty", J::s(tys(discr.ty(&body.local_decls, tcx)))));
                    let ts: Vec<J> = targets
                        .iter()
                        .map(|(v, b)| J::Arr(vec![J::Int(v as i128), bbj(b)]))
                        .collect();
                    tk.push(("targets", J::Arr(ts)));
                    tk.push(("otherwise", bbj(targets.otherwise())));
                }
                TerminatorKind::UnwindResume => tk.push(("k", J::s("resume"))),
                TerminatorKind::UnwindTerminate(_) => tk.push(("k", J::s("terminate"))),
                TerminatorKind::Return => tk.push(("k", J::s("return"))),
                TerminatorKind::Unreachable => tk.push(("k", J::s("unreachable"))),
                TerminatorKind::Drop { place, target, unwind, drop, .. } => {
                    tk.push(("k", J::s("drop")));
                    tk.push(("p", self.place(body, place)));
                    tk.push(("pty", J::s(tys(self.place_ty(body, place)))));
                    tk.push(("t", bbj(*target)));
                    tk.push(("u", unw(unwind)));
                    if let Some(d) = drop {
                        tk.push(("cordrop", bbj(*d)));
                    }
                }
                TerminatorKind::Call { func, args, destination, target, unwind, call_source, fn_span } => {
                    tk.push(("k", J::s("call")));
                    match func {
                        Operand::Constant(c) => match c.const_.ty().kind() {
                            ty::FnDef(d, a) => tk.push(("f", self.fn_ref(def, *d, a))),
                            _ => tk.push(("fo", self.operand(def, body, func))),
                        },
                        _ => tk.push(("fo", self.operand(def, body, func))),
                    }
                    let a: Vec<J> = args.iter().map(|a| self.operand(def, body, &a.node)).collect();
                    tk.push(("args", J::Arr(a)));
                    let at: Vec<J> =
                        args.iter().map(|a| J::s(tys(a.node.ty(&body.local_decls, tcx)))).collect();
                    tk.push(("arg_tys", J::Arr(at)));
                    tk.push(("dest", self.place(body, destination)));
                    tk.push(("t", target.map(bbj).unwrap_or(J::Null)));
                    tk.push(("u", unw(unwind)));
                    tk.push(("src", J::s(format!("{:?}", call_source))));
                    let (_f2, l2, e2) = self.loc(*fn_span);
                    tk.push(("fn_line", J::Int(l2 as i128)));
                    if !e2.is_empty() {
                        tk.push(("fn_exp", J::Arr(e2)));
                    }
                }
                TerminatorKind::TailCall { .. } => tk.push(("k", J::s("tailcall"))),
                TerminatorKind::Assert { cond, expected, msg, target, unwind } => {
                    tk.push(("k", J::s("assert")));
                    tk.push(("c", self.operand(def, body, cond)));
                    tk.push(("expected", J::Bool(*expected)));
                    let m = match &**msg {
                        AssertKind::BoundsCheck { .. } => "BoundsCheck".to_string(),
                        AssertKind::Overflow(op, ..) => format!("Overflow({:?})", op),
                        AssertKind::OverflowNeg(_) => "OverflowNeg".to_string(),
                        AssertKind::DivisionByZero(_) => "DivisionByZero".to_string(),
                        AssertKind::RemainderByZero(_) => "RemainderByZero".to_string(),
                        other => {
                            let s = format!("{:?}", other);
                            s.split('(').next().unwrap_or("other").to_string()
                        }
                    };
                    tk.push(("msg", J::s(m)));
                    if let AssertKind::BoundsCheck { len, index } = &**msg {
                        tk.push(("len", self.operand(def, body, len)));
                        tk.push(("index", self.operand(def, body, index)));
                    }
                    tk.push(("t", bbj(*target)));
                    tk.push(("u", unw(unwind)));
                }
                TerminatorKind::Yield { value, resume, drop, .. } => {
                    tk.push(("k", J::s("yield")));
                    tk.push(("v", self.operand(def, body, value)));
                    tk.push(("resume", bbj(*resume)));
                    tk.push(("drop", drop.map(bbj).unwrap_or(J::Null)));
                }
                TerminatorKind::CoroutineDrop => tk.push(("k", J::s("cordrop"))),
                TerminatorKind::FalseEdge { real_target, imaginary_target } => {
                    tk.push(("k", J::s("falseedge")));
                    tk.push(("real", bbj(*real_target)));
                    tk.push(("imag", bbj(*imaginary_target)));
                }
                TerminatorKind::FalseUnwind { real_target, unwind } => {
                    tk.push(("k", J::s("falseunwind")));
                    tk.push(("real", bbj(*real_target)));
                    tk.push(("u", unw(unwind)));
                }
                TerminatorKind::InlineAsm { .. } => tk.push(("k", J::s("asm"))),
            }
            tk.push(("line", J::Int(line as i128)));
            if !exp.is_empty() {
                tk.push(("exp", J::Arr(exp)));
            }
            let mut bk = vec![("stmts", J::Arr(stmts)), ("term", J::obj(tk))];
            if data.is_cleanup {
                bk.push(("cleanup", J::Bool(true)));
            }
            blocks.push(J::obj(bk));
        }
        kv.push(("blocks", J::Arr(blocks)));
        J::obj(kv)
    }

    fn sig(&mut self, did: DefId) -> J {
        let tcx = self.tcx;
        let sig = tcx.fn_sig(did).instantiate_identity().skip_norm_wip();
        let sig = sig.skip_binder();
        let ins: Vec<J> = sig.inputs().iter().map(|t| J::s(tys(*t))).collect();
        let abi = format!("{:?}", sig.abi());
        let mut kv = vec![
            ("inputs", J::Arr(ins)),
            ("output", J::s(tys(sig.output()))),
            ("abi", J::s(abi)),
            ("safety", J::s(format!("{:?}", sig.safety()))),
        ];
        let attrs = tcx.codegen_fn_attrs(did);
        if attrs.flags.contains(rustc_middle::middle::codegen_fn_attrs::CodegenFnAttrFlags::NO_MANGLE) {
            kv.push(("no_mangle", J::Bool(true)));
        }
        if let Some(n) = attrs.symbol_name {
            kv.push(("export_name", J::s(n.to_string())));
        }
        J::obj(kv)
    }

    fn fn_decl(&mut self, did: DefId) -> J {
        let tcx = self.tcx;
        let mut kv = vec![
            ("path", J::s(self.path(did))),
            ("name", J::s(tcx.item_name(did).to_string())),
            ("kind", J::s(format!("{:?}", tcx.def_kind(did)))),
            ("sig", self.sig(did)),
        ];
        let vis = tcx.visibility(did);
        kv.push(("vis", J::s(if vis.is_public() { "pub".to_string() } else { format!("{:?}", vis) })));
        if tcx.def_kind(did) == DefKind::AssocFn {
            let ai = tcx.associated_item(did);
            kv.push(("has_self", J::Bool(ai.is_method())));
            if let Some(im) = tcx.impl_of_assoc(did) {
                let st = tcx.type_of(im).instantiate_identity().skip_norm_wip();
                kv.push(("impl_self", J::s(tys(st))));
                if let ty::Adt(a, _) = st.kind() {
                    kv.push(("impl_adt", J::s(self.path(a.did()))));
                }
                if let Some(tr) = tcx.impl_opt_trait_ref(im) {
                    let tr = tr.instantiate_identity().skip_norm_wip();
                    kv.push(("impl_trait", J::s(self.path(tr.def_id))));
                }
            } else if let Some(tr) = tcx.trait_of_assoc(did) {
                kv.push(("trait", J::s(self.path(tr))));
                kv.push(("has_default", J::Bool(ai.defaultness(tcx).has_value())));
            }
        }
        let (file, line, _) = self.loc(tcx.def_span(did));
        kv.push(("file", J::s(file)));
        kv.push(("line", J::Int(line as i128)));
        J::obj(kv)
    }

    fn adt(&mut self, did: DefId) -> J {
        let tcx = self.tcx;
        let adt = tcx.adt_def(did);
        let repr = adt.repr();
        let mut r = Vec::new();
        if repr.c() {
            r.push(J::s("C"));
        }
        if repr.transparent() {
            r.push(J::s("transparent"));
        }
        if repr.packed() {
            r.push(J::s("packed"));
        }
        if let Some(i) = repr.int {
            r.push(J::s(format!("{:?}", i)));
        }
        if let Some(a) = repr.align {
            r.push(J::s(format!("align({})", a.bytes())));
        }
        let mut vars = Vec::new();
        let discrs: Vec<u128> = if adt.is_enum() {
            adt.discriminants(tcx).map(|(_, d)| d.val).collect()
        } else {
            Vec::new()
        };
        for (vi, v) in adt.variants().iter().enumerate() {
            let mut fs = Vec::new();
            for f in &v.fields {
                let ft = tcx.type_of(f.did).instantiate_identity().skip_norm_wip();
                self.note_ty(ft);
                fs.push(J::obj(vec![
                    ("name", J::s(f.name.to_string())),
                    ("ty", J::s(tys(ft))),
                    ("vis", J::s(if f.vis.is_public() { "pub".to_string() } else { "priv".to_string() })),
                ]));
            }
            let mut vk = vec![("name", J::s(v.name.to_string())), ("fields", J::Arr(fs))];
            if let Some(d) = discrs.get(vi) {
                vk.push(("discr", J::Int(*d as i128)));
            }
            vars.push(J::obj(vk));
        }
        let generics = tcx.generics_of(did);
        let (file, line, _) = self.loc(tcx.def_span(did));
        if generics.count() == 0 {
            let t = tcx.type_of(did).instantiate_identity().skip_norm_wip();
            self.note_ty(t);
        }
        J::obj(vec![
            ("path", J::s(self.path(did))),
            ("kind", J::s(format!("{:?}", adt.adt_kind()))),
            ("repr", J::Arr(r)),
            ("n_generics", J::Int(generics.count() as i128)),
            ("variants", J::Arr(vars)),
            ("vis", J::s(if tcx.visibility(did).is_public() { "pub" } else { "priv" })),
            ("file", J::s(file)),
            ("line", J::Int(line as i128)),
        ])
    }

    fn impl_(&mut self, did: DefId) -> J {
        let tcx = self.tcx;
        let st = tcx.type_of(did).instantiate_identity().skip_norm_wip();
        let mut kv = vec![("self_ty", J::s(tys(st)))];
        if let ty::Adt(a, _) = st.kind() {
            kv.push(("self_adt", J::s(self.path(a.did()))));
        }
        if let Some(tr) = tcx.impl_opt_trait_ref(did) {
            let tr = tr.instantiate_identity().skip_norm_wip();
            kv.push(("trait", J::s(self.path(tr.def_id))));
            kv.push(("trait_full", J::s(with_crate_prefix!(with_no_trimmed_paths!(format!("{}", tr))))));
        }
        let mut items = Vec::new();
        for ai in tcx.associated_items(did).in_definition_order() {
            if ai.opt_name().is_none() {
                continue;
            }
            let mut ik = vec![
                ("name", J::s(ai.name().to_string())),
                ("kind", J::s(format!("{:?}", ai.kind).split(['{', '(', ' ']).next().unwrap_or("").to_string())),
                ("path", J::s(self.path(ai.def_id))),
            ];
            if ai.is_fn() {
                ik.push(("has_self", J::Bool(ai.is_method())));
                let sig = tcx.fn_sig(ai.def_id).instantiate_identity().skip_norm_wip().skip_binder();
                if ai.is_method() {
                    if let Some(t0) = sig.inputs().first() {
                        let recv = match t0.kind() {
                            ty::Ref(_, _, m) => {
                                if m.is_mut() {
                                    "&mut self"
                                } else {
                                    "&self"
                                }
                            }
                            _ => "self",
                        };
                        ik.push(("recv", J::s(recv)));
                    }
                }
                ik.push(("output", J::s(tys(sig.output()))));
                let vis = tcx.visibility(ai.def_id);
                ik.push(("vis", J::s(if vis.is_public() { "pub".to_string() } else { format!("{:?}", vis) })));
            }
            items.push(J::obj(ik));
        }
        kv.push(("items", J::Arr(items)));
        let (file, line, exp) = self.loc(tcx.def_span(did));
        kv.push(("file", J::s(file)));
        kv.push(("line", J::Int(line as i128)));
        if !exp.is_empty() {
            kv.push(("exp", J::Arr(exp)));
        }
        J::obj(kv)
    }

    fn trait_(&mut self, did: DefId) -> J {
        let tcx = self.tcx;
        let mut items = Vec::new();
        for ai in tcx.associated_items(did).in_definition_order() {
            if ai.opt_name().is_none() {
                continue;
            }
            let mut ik = vec![
                ("name", J::s(ai.name().to_string())),
                ("path", J::s(self.path(ai.def_id))),
                ("is_fn", J::Bool(ai.is_fn())),
            ];
            if ai.is_fn() {
                ik.push(("has_default", J::Bool(ai.defaultness(tcx).has_value())));
                ik.push(("sig", self.sig(ai.def_id)));
            }
            items.push(J::obj(ik));
        }
        J::obj(vec![("path", J::s(self.path(did))), ("items", J::Arr(items))])
    }

    fn layout(&mut self, t: Ty<'tcx>, work: &mut Vec<Ty<'tcx>>) -> Option<J> {
        let tcx = self.tcx;
        let env = TypingEnv::fully_monomorphized();
        let interesting = match t.kind() {
            ty::Adt(a, _) => {
                let k = tcx.crate_name(a.did().krate).to_string();
                k.starts_with("resolvo") || a.did().is_local()
            }
            ty::Tuple(l) => !l.is_empty(),
            ty::Bool | ty::Int(_) | ty::Uint(_) | ty::Float(_) | ty::RawPtr(..) | ty::Ref(..) => true,
            _ => false,
        };
        // enqueue components
        match t.kind() {
            ty::Adt(a, args) => {
                let k = tcx.crate_name(a.did().krate).to_string();
                if k.starts_with("resolvo") || a.did().is_local() || a.is_box() {
                    for v in a.variants() {
                        for f in &v.fields {
                            let ft = tcx.type_of(f.did).instantiate(tcx, args).skip_norm_wip();
                            if let Ok(ft) = tcx.try_normalize_erasing_regions(env, rustc_middle::ty::Unnormalized::new_wip(ft)) {
                                work.push(ft);
                            }
                        }
                    }
                }
                for a in args.types() {
                    work.push(a);
                }
            }
            ty::Ref(_, i, _) | ty::RawPtr(i, _) | ty::Slice(i) | ty::Array(i, _) => work.push(*i),
            ty::Tuple(l) => {
                for e in l.iter() {
                    work.push(e);
                }
            }
            _ => {}
        }
        if !interesting {
            return None;
        }
        let lay = tcx.layout_of(env.as_query_input(t)).ok()?;
        let mut kv = vec![
            ("ty", J::s(tys(t))),
            ("size", J::Int(lay.size.bytes() as i128)),
            ("align", J::Int(lay.align.abi.bytes() as i128)),
        ];
        if let ty::Adt(a, args) = t.kind() {
            kv.push(("adt", J::s(self.path(a.did()))));
            if a.is_struct() {
                let v = a.non_enum_variant();
                let mut fs = Vec::new();
                for (i, f) in v.fields.iter().enumerate() {
                    let off = lay.fields.offset(i).bytes();
                    let ft = tcx.type_of(f.did).instantiate(tcx, args).skip_norm_wip();
                    let fl = tcx
                        .try_normalize_erasing_regions(env, rustc_middle::ty::Unnormalized::new_wip(ft))
                        .ok()
                        .and_then(|ft| tcx.layout_of(env.as_query_input(ft)).ok());
                    let mut fk = vec![
                        ("name", J::s(f.name.to_string())),
                        ("offset", J::Int(off as i128)),
                        ("ty", J::s(tys(ft))),
                    ];
                    if let Some(fl) = fl {
                        fk.push(("size", J::Int(fl.size.bytes() as i128)));
                        fk.push(("align", J::Int(fl.align.abi.bytes() as i128)));
                    }
                    fs.push(J::obj(fk));
                }
                kv.push(("fields", J::Arr(fs)));
            }
        }
        Some(J::obj(kv))
    }
}

fn inst_kind(i: &Instance<'_>) -> String {
    let s = format!("{:?}", i.def);
    s.split('(').next().unwrap_or("").to_string()
}
