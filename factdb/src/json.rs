// Minimal JSON value + writer (the driver has zero dependencies).
pub enum J {
    Null,
    Bool(bool),
    Int(i128),
    Str(String),
    Arr(Vec<J>),
    Obj(Vec<(&'static str, J)>),
}

impl J {
    pub fn s<S: AsRef<str>>(s: S) -> J {
        J::Str(s.as_ref().to_string())
    }
    pub fn obj(v: Vec<(&'static str, J)>) -> J {
        J::Obj(v)
    }
    pub fn write(&self, out: &mut String) {
        match self {
            J::Null => out.push_str("null"),
            J::Bool(b) => out.push_str(if *b { "true" } else { "false" }),
            J::Int(i) => out.push_str(&i.to_string()),
            J::Str(s) => {
                out.push('"');
                for c in s.chars() {
                    match c {
                        '"' => out.push_str("\\\""),
                        '\\' => out.push_str("\\\\"),
                        '\n' => out.push_str("\\n"),
                        '\r' => out.push_str("\\r"),
                        '\t' => out.push_str("\\t"),
                        c if (c as u32) < 0x20 => out.push_str(&format!("\\u{:04x}", c as u32)),
                        c => out.push(c),
                    }
                }
                out.push('"');
            }
            J::Arr(a) => {
                out.push('[');
                for (i, x) in a.iter().enumerate() {
                    if i > 0 {
                        out.push(',');
                    }
                    x.write(out);
                }
                out.push(']');
            }
            J::Obj(o) => {
                out.push('{');
                for (i, (k, v)) in o.iter().enumerate() {
                    if i > 0 {
                        out.push(',');
                    }
                    out.push('"');
                    out.push_str(k);
                    out.push_str("\":");
                    v.write(out);
                }
                out.push('}');
            }
        }
    }
}
