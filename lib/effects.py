"""Effect signatures: which solver state may influence the control flow of a function (cond-reads) and which state a function
may modify (writes).  Both are computed from MIR data slices and compared with a frozen, reviewed table (rules/effects.json).

A function acquiring a *new* dependency - a branch on a state field it never looked at before, a write to a field it never
touched - is how most of the independently seeded property-breaking edits look: a cached flag that skips work, an early return on
somebody else's state, a second place that shrinks the trail.  The table is a census like the who-may-call tables: it says nothing
about what the function computes, only what it may look at and touch.  Functions outside the reviewed census are virtually inlined
(lib/inline.py), so extracting a helper does not change any signature.
"""
import json, os
import q
from facts import strip_generics, callee_keys, operand_place

HERE = os.path.dirname(os.path.dirname(os.path.abspath(__file__)))
TABLE = os.path.join(HERE, "rules", "effects.json")

STATE_TYPES = (
    "resolvo::solver::Solver", "resolvo::solver::SolverState", "resolvo::solver::cache::SolverCache",
    "resolvo::solver::encoding::Encoder", "resolvo::solver::decision_tracker::DecisionTracker",
    "resolvo::solver::decision_map::DecisionMap", "resolvo::solver::watch_map::WatchMap", "resolvo::solver::watch_map::WatchMapCursor",
    "resolvo::solver::Clauses", "resolvo::solver::clause::WatchedLiterals", "resolvo::internal::mapping::Mapping",
    "resolvo::internal::mapping::MappingIter", "resolvo::internal::arena::Arena", "resolvo::utils::pool::Pool",
    "resolvo::solver::binary_encoding::AtMostOnceTracker", "resolvo::solver::variable_map::VariableMap",
    "resolvo::snapshot::DependencySnapshot", "resolvo::snapshot::SnapshotProvider", "resolvo::conflict::Conflict",
    "resolvo::internal::frozen_copy_map::FrozenCopyMap", "resolvo::conflict::DisplayUnsat", "resolvo::conflict::ConflictGraph",
)
COARSE = {"state", "cache", "self", "provider", "pool", "solver"}
# operations that modify through a shared reference (RefCell / Cell / frozen maps / arenas)
INTERIOR_MUT = {"borrow_mut", "insert", "insert_copy", "alloc", "set", "replace", "take", "push", "get_or_insert_with", "swap"}
CAPACITY_ONLY = {"reserve", "reserve_exact", "shrink_to_fit", "shrink_to", "try_reserve", "try_reserve_exact"}
SIGNAL_CALLS = {"should_cancel_with_value", "are_dependencies_available_for"}
_MACRO_NOISE = ("assert", "tracing", "valueset", "event", "debug_assert", "unreachable", "panic", "format_args", "log")


def state_fields(crate):
    """{(type short name, field name)} of the state-carrying types, plus the bare names for captured paths (`?upvar`)."""
    out = set()
    for t in STATE_TYPES:
        a = crate.adts.get(t)
        if a:
            for v in a["variants"]:
                for f in v["fields"]:
                    if f["name"] not in COARSE:
                        out.add((t.split("::")[-1], f["name"]))
    return out


def _noise(x):
    exp = x.get("exp") or []
    return any(any(m in e for m in _MACRO_NOISE) for e in exp)


def _is_state(seg, sf):
    ty, _, name = seg.partition("#")
    if (ty, name) in sf:
        return name
    if ty == "?upvar" and any(n == name for t, n in sf):
        return name
    return None


def _fields_in(lv, sf):
    out = set()
    for x in lv:
        kind, _, rest = x.partition(":")
        if kind in ("field", "lfield"):
            for seg in rest.split("."):
                n = _is_state(seg, sf)
                if n:
                    out.add(n)
        elif kind == "call" and rest in SIGNAL_CALLS:
            out.add("call:" + rest)
    return out


def _is_loop_next(b, t):
    """The switch tests the Option returned by Iterator::next (the header of a `for` loop)."""
    p = operand_place(t["d"])
    cur = p
    for _ in range(4):
        if cur is None:
            return False
        ds = b.defs_of(cur["l"])
        if len(ds) != 1:
            return False
        bb, idx, r = ds[0]
        if idx == "term":
            return bool(r.get("f")) and r["f"]["name"] == "next"
        if r["k"] == "discr":
            cur = r["p"]
            continue
        if r["k"] == "use":
            cur = operand_place(r["o"])
            continue
        return False
    return False


def cond_reads(b, sf, skip_loop_headers=False):
    out = set()
    for i, t in b.terms("switch"):
        if _noise(t):
            continue
        if skip_loop_headers and _is_loop_next(b, t):
            continue
        out |= _fields_in(q.leaves(b, t["d"], adt=True), sf)
    return out


def _owned_argument(b, d):
    """The place is (a field path inside) a by-value parameter, reached without any dereference."""
    if d.get("k") != "arg" or b.kind not in ("Fn", "AssocFn"):
        return False
    ins = (b.d.get("sig") or {}).get("inputs") or []
    l = d.get("l", 0)
    if not (1 <= l <= len(ins)) or ins[l - 1].lstrip().startswith(("&", "*")):
        return False
    return not any(e == "*" or (isinstance(e, dict) and e.get("deref")) for e in d.get("proj", []))


def writes(b, sf):
    out = set()
    # direct assignments into a state field (through self, a local reference or a captured place)
    for i, j, s in b.assigns():
        if _noise(s):
            continue
        pl = s["p"]
        if not pl.get("p"):
            continue
        d = b.origin({"k": "copy", "p": pl})
        if _owned_argument(b, d):
            continue        # `fn with_x(mut self, ..) -> Self { self.x = ..; self }`: editing an owned value builds a new one
        for e in d.get("proj", []):
            if isinstance(e, dict) and "f" in e and e.get("n") and not e.get("var"):
                n = _is_state("%s#%s" % (str(e.get("of", "?")).split("::")[-1], e["n"]), sf)
                if n:
                    out.add(n)
    # calls that receive a mutable borrow of a state field
    for i, t in b.calls():
        if _noise(t) or not t["args"]:
            continue
        if t.get("f") and t["f"]["name"] in CAPACITY_ONLY:
            continue        # capacity hints do not change the contents
        for a in t["args"][:1]:
            p = operand_place(a)
            if p is None or "p" in p:
                continue
            for bb, idx, r in b.defs_of(p["l"]):
                interior = idx != "term" and r["k"] == "ref" and r.get("bk") == "shared" and t.get("f") and \
                    t["f"]["name"] in INTERIOR_MUT
                if interior or (idx != "term" and r["k"] == "ref" and r.get("bk") == "mut"):
                    d = b.origin({"k": "copy", "p": r["p"]})
                    names = [_is_state("%s#%s" % (str(e.get("of", "?")).split("::")[-1], e["n"]), sf) for e in d.get("proj", [])
                             if isinstance(e, dict) and "f" in e and e.get("n") and not e.get("var")]
                    f = t.get("f")
                    local = bool(f) and any(k.startswith(("resolvo::", "resolvo_cpp::", "<resolvo")) for k in callee_keys(f))
                    for n in names:
                        if n:
                            # crate-local callee: which operation is applied matters (undo_until vs try_add_decision);
                            # std / foreign callee: only the fact that the field is modified
                            out.add("%s<-%s" % (n, f["name"]) if (local or interior) else n)
    return out


def signature(crate, root_key, sf=None):
    """(cond_reads, writes) of a function together with its closures."""
    sf = sf if sf is not None else state_fields(crate)
    cr, wr = set(), set()
    for b in crate.bodies:
        if b.key == root_key or (b.root and strip_generics(b.root) == root_key and b.kind == "Closure"):
            if b.kind not in ("Fn", "AssocFn", "Closure"):
                continue
            cr |= cond_reads(b, sf)
            wr |= writes(b, sf)
    return cr, wr


def all_signatures(crate):
    sf = state_fields(crate)
    roots = sorted({b.key for b in crate.bodies if b.kind in ("Fn", "AssocFn") and not b.crate.is_test})
    out = {}
    for k in roots:
        if "::tests::" in k or "::test::" in k:
            continue
        cr, wr = signature(crate, k, sf)
        out[k] = {"cond_reads": sorted(cr), "writes": sorted(wr)}
    return out


def _guards_only_own_write(crate, key, field, sf):
    """Every switch of function `key` whose condition reads `field` controls nothing but assignments to `field` itself."""
    found = False
    for b in crate.bodies:
        if b.key != key or b.kind not in ("Fn", "AssocFn"):
            continue
        for i, t in b.terms("switch"):
            if _noise(t) or field not in _fields_in(q.leaves(b, t["d"], adt=True), sf):
                continue
            found = True
            for tgt in {x[1] for x in t.get("targets", [])} | {t.get("otherwise")}:
                if tgt is None:
                    continue
                for x in range(b.n):
                    if x == i or not q.edge_dominates(b, i, tgt, x):
                        continue
                    blk = b.blocks[x]
                    if blk["term"]["k"] == "call" and not _noise(blk["term"]):
                        return False
                    for s_ in blk["stmts"]:
                        if s_["k"] != "assign" or not s_["p"].get("p"):
                            continue
                        names = [e.get("n") for e in s_["p"].get("p", []) if isinstance(e, dict) and "f" in e and e.get("n")]
                        if names and names[-1] != field:
                            return False
    return found


def _returned_fields(crate, key, sf):
    """State fields in the data slice of what a (read-only) function returns or branches on."""
    out = set()
    for b in crate.bodies:
        if b.key == key and b.kind in ("Fn", "AssocFn"):
            out |= _fields_in(q.leaves(b, {"k": "copy", "p": {"l": 0}}, adt=True), sf)
            out |= cond_reads(b, sf)
    return out


def _own_fields(crate, key, sf):
    """Field names of the receiver type of a `&self` method (empty for `&mut self` / free functions)."""
    for b in crate.bodies:
        if b.key == key and b.kind in ("Fn", "AssocFn"):
            ins = (b.d.get("sig") or {}).get("inputs") or []
            if not ins or not ins[0].startswith("&") or ins[0].startswith("&mut "):
                return set()
            adt = b.d.get("impl_adt")
            a = crate.adts.get(adt) if adt else None
            if not a:
                return set()
            return {f["name"] for v in a["variants"] for f in v["fields"]}
    return set()


_TABLE = None


def table():
    global _TABLE
    if _TABLE is None:
        try:
            _TABLE = json.load(open(TABLE))
        except FileNotFoundError:
            _TABLE = {}
    return _TABLE


def _uncalled_inherent(ctx, crate, key, tag):
    import q
    bs = [b for b in crate.bodies if b.key == key and b.kind in ("Fn", "AssocFn")]
    if not bs or any(b.d.get("impl_trait") for b in bs):
        return False
    cfg = tag[1:] if tag.startswith("@") else "cfgA"
    try:
        crs = list(ctx.facts(cfg).crates.values())
    except Exception:
        crs = [crate]
    for cr in crs:
        for b in cr.bodies:
            if b.crate.is_test:
                continue
            if b.calls_to(key):
                return False
            # taken as a function value (`map(Self::helper)`)
            for i, j, s_ in b.assigns():
                r = s_["r"]
                for o in ([r.get("o")] if r.get("o") else []) + list(r.get("ops") or []):
                    if isinstance(o, dict) and o.get("k") == "const" and isinstance(o.get("fn"), dict) and strip_generics(o["fn"].get("path", "")) == key:
                        return False
            for i, t in b.calls():
                for o in t.get("args", []):
                    if isinstance(o, dict) and o.get("k") == "const" and isinstance(o.get("fn"), dict) and strip_generics(o["fn"].get("path", "")) == key:
                        return False
    return True


def check(ctx, crate, rule, prefixes, tag=""):
    """Every function whose key starts with one of `prefixes`: its effect signature is within the reviewed one.  A reviewed
    single-caller helper that no longer exists donates its signature to that caller (inlined by hand)."""
    from common import _known_callers
    tb = table().get(crate.name) or {}
    R = rule + tag
    if not tb:
        ctx.ob(R, "-", "effects-table", False, "", "rules/effects.json has no entry for crate %s" % crate.name)
        return
    sf = state_fields(crate)
    now = {b.key for b in crate.bodies if b.kind in ("Fn", "AssocFn")}
    callers = _known_callers().get(crate.name, {})
    donated = {}
    for g, cs in callers.items():
        if g not in now and g in tb and len(cs) == 1:
            cur = cs[0]
            for _ in range(3):
                if cur in now or cur not in callers or len(callers[cur]) != 1:
                    break
                cur = callers[cur][0]
            donated.setdefault(cur, []).append(g)
    n = 0
    for k in sorted(now):
        if not any(k.startswith(p) for p in prefixes) or "::tests::" in k or "::test::" in k:
            continue
        ref = tb.get(k)
        cr, wr = signature(crate, k, sf)
        if ref is None:
            # a function that is not in the reviewed table and was not inlined (recursive / async / uncalled): report its effects
            # (only state-modifying ones are reported: a new read-only accessor cannot break an anchored mechanism)
            if wr and _uncalled_inherent(ctx, crate, k, tag):
                # new API that nothing in the workspace calls (an inherent method or free function - not a trait impl, which std or
                # a caller's generic code may dispatch to): no operation the properties quantify over can reach it
                ctx.ob(R, k, "new-function-is-not-called-anywhere", True, "",
                       "not in the reviewed table, modifies %s, but is neither a trait method nor called from any crate of the workspace" % ", ".join(sorted(wr)))
                continue
            if wr:
                ctx.ob(R, k, "unreviewed-function-modifies:%s" % ",".join(sorted(wr)), False, "",
                       "a function that is not in the reviewed effect table (and is not a helper that could be inlined) modifies %s" % ", ".join(sorted(wr)))
            continue
        n += 1
        ok_c, ok_w = set(ref["cond_reads"]), set(ref["writes"])
        for g in donated.get(k, []):
            ok_c |= set(tb[g]["cond_reads"])
            ok_w |= set(tb[g]["writes"])
        new_c, new_w = sorted(cr - ok_c), sorted(wr - ok_w)
        if new_c:
            # a branch that used to ask a reviewed observer of this crate (`self.level(v) <= level`) may ask what the observer
            # reads directly (`self.map.level(v) > level`): inlining an accessor by hand adds no dependency that was not there
            via = set()
            for g, cs_ in callers.items():
                if k in cs_ and g in tb and not tb[g]["writes"]:
                    via |= _returned_fields(crate, g, sf)
            new_c = [x for x in new_c if x not in via]
        if new_c:
            # walking (`for slot in self.x.iter_mut()`) over a field the function is reviewed to write is not a new dependency of its
            # decisions: only the loop header looks at it
            wbase = {w.split("<-")[0] for w in ok_w}
            strict = set()
            for b2 in crate.bodies:
                if b2.key == k or (b2.root and strip_generics(b2.root) == k and b2.kind == "Closure"):
                    if b2.kind in ("Fn", "AssocFn", "Closure"):
                        strict |= cond_reads(b2, sf, skip_loop_headers=True)
            new_c = [x for x in new_c if not (x in wbase and x not in strict)]
        if new_c:
            # `if idx > self.max { self.max = idx }`: a test on a field the function is reviewed to write, whose branches do nothing
            # but write that same field, is that write spelled out as a guarded assignment (instead of `max = max.max(idx)`)
            wbase = {w.split("<-")[0] for w in ok_w}
            keep = []
            for x in new_c:
                if x in wbase and _guards_only_own_write(crate, k, x, sf):
                    continue
                keep.append(x)
            new_c = keep
        if new_c and not wr:
            # a read-only observer (`&self`, modifies nothing) may consult another field of its *own* structure: that cannot
            # skip or redirect any work of the solver, it only changes how the observer computes its answer
            own = _own_fields(crate, k, sf)
            new_c = [x for x in new_c if x not in own]
        if new_c:
            ctx.ob(R, k, "control-flow-depends-on:%s" % ",".join(new_c), False, "",
                   "a branch in this function now depends on state it did not depend on when the rules were reviewed: %s" % ", ".join(new_c))
        if new_w:
            ctx.ob(R, k, "modifies:%s" % ",".join(new_w), False, "",
                   "this function now modifies state it did not modify when the rules were reviewed: %s" % ", ".join(new_w))
        if not new_c and not new_w:
            ctx.ob(R, k, "effect-signature", True, "", "cond-reads %d, writes %d within the reviewed signature" % (len(cr), len(wr)))
    ctx.floor(R, "functions with a reviewed effect signature", n, 1)
