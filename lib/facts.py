"""Loading of factdb output and the CFG / def-use analyses the rules are built from."""
import json, os, re, glob
from collections import defaultdict
from gen import CheckerError

_CRATE_RE = re.compile(r'(?<![A-Za-z0-9_])crate::')


_CENSUS = None


def _census():
    """Reviewed function census (rules/known_functions.json); functions outside it are transparent helpers (lib/inline.py)."""
    global _CENSUS
    if _CENSUS is None:
        p = os.path.join(os.path.dirname(os.path.dirname(os.path.abspath(__file__))), "rules", "known_functions.json")
        try:
            _CENSUS = {k: set(v) for k, v in json.load(open(p)).items()}
        except FileNotFoundError:
            _CENSUS = {}
    return _CENSUS


_ITEMS = None


def _moved_items(d):
    """[(new_path, reviewed_path)] for ADTs / free functions of this crate whose last path segment matches exactly one reviewed
    item that no longer exists under its reviewed path (rules/known_items.json)."""
    global _ITEMS
    if _ITEMS is None:
        p = os.path.join(os.path.dirname(os.path.dirname(os.path.abspath(__file__))), "rules", "known_items.json")
        try:
            _ITEMS = json.load(open(p))
        except FileNotFoundError:
            _ITEMS = {}
    name = d["crate"]
    out = []
    for kind, now in (("adts", {a["path"] for a in d["adts"] if a["path"].startswith(name + "::")}),
                      ("free_fns", {strip_generics(b["path"]) for b in d["bodies"] if b["kind"] == "Fn"})):
        old = set((_ITEMS.get(kind) or {}).get(name) or [])
        if not old:
            continue
        gone = old - now
        new = now - old
        by_last = {}
        for g in gone:
            by_last.setdefault(g.split("::")[-1], []).append(g)
        for n in new:
            c = by_last.get(n.split("::")[-1], [])
            same_last_new = [x for x in new if x.split("::")[-1] == n.split("::")[-1]]
            if len(c) == 1 and len(same_last_new) == 1 and "{" not in n and "<" not in n:
                out.append((n, c[0]))
    return out


def _renamed_fns(d):
    _moved_items({"crate": d["crate"], "adts": [], "bodies": []})      # make sure _ITEMS is loaded
    name = d["crate"]
    sigs = (_ITEMS.get("sigs") or {}).get(name) or {}
    if not sigs:
        return []
    now = {}
    for b in d["bodies"]:
        if b["kind"] in ("Fn", "AssocFn") and b.get("sig"):
            now[strip_generics(b["path"])] = "(%s) -> %s" % (", ".join(b["sig"]["inputs"]), b["sig"]["output"])
    gone = [k for k in sigs if k not in now and "{" not in k and "<" not in k]
    new = [k for k in now if k not in sigs and "{" not in k and "<" not in k]
    out = []
    for g in gone:
        parent = g.rsplit("::", 1)[0]
        last = g.rsplit("::", 1)[1]
        cands = [n for n in new if now[n] == sigs[g] and (n.rsplit("::", 1)[0] == parent or n.rsplit("::", 1)[1] == last)]
        if len(cands) != 1:
            continue
        n = cands[0]
        rivals = [g2 for g2 in gone if sigs[g2] == now[n] and
                  (g2.rsplit("::", 1)[0] == n.rsplit("::", 1)[0] or g2.rsplit("::", 1)[1] == n.rsplit("::", 1)[1])]
        if len(rivals) == 1:
            out.append((n, g))
    # same name, different signature (e.g. a method turned into a free function taking a slice): accepted when the name is unique
    # among the functions that disappeared and among those that appeared
    taken_new = {n for n, g in out}
    taken_old = {g for n, g in out}
    for g in gone:
        if g in taken_old:
            continue
        last = g.rsplit("::", 1)[1]
        cands = [n for n in new if n not in taken_new and n.rsplit("::", 1)[1] == last]
        rivals = [g2 for g2 in gone if g2 not in taken_old and g2.rsplit("::", 1)[1] == last]
        if len(cands) == 1 and len(rivals) == 1:
            out.append((cands[0], g))
    return out


class Crate:
    def __init__(self, path):
        raw = open(path).read()
        name = os.path.basename(path).split(".")[0]
        raw = _CRATE_RE.sub(name + "::", raw)
        d = json.loads(raw)
        # items (types, free functions) that were moved to another module keep their reviewed path: the new path is rewritten
        # textually to the reviewed one, so rules anchored on def-paths are indifferent to module re-organisation
        self.moved = _moved_items(d)
        if self.moved and not os.environ.get("VERIF_NO_INLINE"):
            for new, old in sorted(self.moved, key=lambda x: -len(x[0])):
                raw = re.sub(re.escape(new) + r"(?![A-Za-z0-9_])", old, raw)
            d = json.loads(raw)
        # a reviewed function that disappeared while exactly one new function with the same parent path and the same signature
        # appeared was renamed: it keeps its reviewed name
        self.renamed = _renamed_fns(d)
        if self.renamed and not os.environ.get("VERIF_NO_INLINE"):
            gen = r"(?:::<(?:[^<>]|<(?:[^<>]|<(?:[^<>]|<[^<>]*>)*>)*>)*>)?"
            for new, old in sorted(self.renamed, key=lambda x: -len(x[0])):
                segs = new.split("::")
                pat = "(?<![A-Za-z0-9_:])" + (gen + "::").join(re.escape(x) for x in segs) + r"(?![A-Za-z0-9_])"
                raw = re.sub(pat, lambda m, o=old: o, raw)
            d = json.loads(raw)
            olds = {o for n, o in self.renamed}
            for b in d["bodies"]:
                for blk in b["blocks"]:
                    t = blk["term"]
                    f = t.get("f") if t.get("k") == "call" else None
                    if f and (strip_generics(f["path"]) in olds or (f.get("resolved") and strip_generics(f["resolved"]) in olds)):
                        f["name"] = strip_generics(f["path"]).rsplit("::", 1)[-1]
        self.name = d["crate"]
        self.is_test = d["is_test"]
        self.cfg = d["cfg"]
        self.adts = {a["path"]: a for a in d["adts"]}
        self.impls = d["impls"]
        self.traits = {t["path"]: t for t in d["traits"]}
        self.decls = {x["path"]: x for x in d["decls"]}
        self.layouts = {l["ty"]: l for l in d["layouts"]}
        self.inlined = []
        known = _census().get(self.name)
        if known is not None and not os.environ.get("VERIF_NO_INLINE"):
            import inline
            d["bodies"] = inline.inline_unknown(d["bodies"], known, self.inlined)
        self.threaded = 0
        if not os.environ.get("VERIF_NO_THREAD"):
            import thread
            for b in d["bodies"]:
                self.threaded += thread.thread_jumps(b)
        self.bodies = [Body(b, self) for b in d["bodies"]]
        self.by_path = {}
        for b in self.bodies:
            self.by_path[b.path] = b

    def body(self, path):
        b = self.by_path.get(path)
        if b is None:
            raise CheckerError("anchor missing: no body %r in crate %s" % (path, self.name))
        return b

    def find_bodies(self, pred):
        return [b for b in self.bodies if pred(b)]


def strip_generics(p):
    """`a::B::<T, U>::f` -> `a::B::f` ; `<a::B<T> as X>::f` stays (only ::<..> turbofish removed)."""
    out = []
    i = 0
    n = len(p)
    while i < n:
        if p.startswith("::<", i):
            depth = 0
            j = i + 2
            while j < n:
                if p[j] == "<":
                    depth += 1
                elif p[j] == ">":
                    depth -= 1
                    if depth == 0:
                        break
                j += 1
            i = j + 1
            continue
        out.append(p[i])
        i += 1
    return "".join(out)


class Body:
    def __init__(self, d, crate):
        self.d = d
        self.crate = crate
        self.path = d["path"]
        self.key = strip_generics(self.path)
        self.kind = d["kind"]
        self.file = d["file"]
        self.line = d["line"]
        self.blocks = d["blocks"]
        self.locals = d["locals"]
        self.coroutine = d.get("coroutine")
        self.parent = d.get("parent")
        self.root = d.get("root")
        self.n = len(self.blocks)
        self._succ = {}
        self._dom = {}
        self._pdom = None

    def __repr__(self):
        return "<Body %s>" % self.path

    def loc(self, bb=None, line=None):
        f = self.file
        if line is None and bb is not None:
            line = self.blocks[bb]["term"].get("line")
            f = self.blocks[bb].get("file") or f
        return "%s:%s" % (f, line if line is not None else self.line)

    # ---- CFG ------------------------------------------------------------
    def succ(self, bb, unwind=False, cancel=False):
        """Normal-path successors.  `unwind` adds cleanup edges, `cancel` adds the
        drop edge of a Yield (the path taken when the future is dropped while suspended)."""
        t = self.blocks[bb]["term"]
        k = t["k"]
        out = []
        if k == "goto":
            out = [t["t"]]
        elif k == "switch":
            out = [x[1] for x in t["targets"]] + [t["otherwise"]]
        elif k in ("drop", "call", "assert"):
            if t.get("t") is not None:
                out = [t["t"]]
            if unwind and t.get("u") is not None:
                out.append(t["u"])
        elif k == "yield":
            out = [t["resume"]]
            if cancel and t.get("drop") is not None:
                out.append(t["drop"])
        elif k == "falseedge":
            out = [t["real"]]
        elif k == "falseunwind":
            out = [t["real"]]
            if unwind and t.get("u") is not None:
                out.append(t["u"])
        res = []
        for x in out:
            if x not in res:
                res.append(x)
        return res

    def succs(self, unwind=False, cancel=False):
        key = (unwind, cancel)
        if key not in self._succ:
            self._succ[key] = [self.succ(i, unwind, cancel) for i in range(self.n)]
        return self._succ[key]

    def preds(self, unwind=False, cancel=False):
        p = [[] for _ in range(self.n)]
        for i, ss in enumerate(self.succs(unwind, cancel)):
            for s in ss:
                p[s].append(i)
        return p

    def reachable(self, start=0, avoid=(), unwind=False, cancel=False):
        S = self.succs(unwind, cancel)
        avoid = set(avoid)
        seen = set()
        starts = [start] if isinstance(start, int) else list(start)
        st = [s for s in starts if s not in avoid]
        seen.update(st)
        while st:
            x = st.pop()
            for y in S[x]:
                if y not in seen and y not in avoid:
                    seen.add(y)
                    st.append(y)
        return seen

    def reachable_after(self, bb, avoid=(), unwind=False, cancel=False):
        """Blocks reachable from the successors of bb (bb itself only if on a cycle)."""
        return self.reachable(self.succ(bb, unwind, cancel), avoid, unwind, cancel)

    def dominators(self, unwind=False):
        """idom-free dominator sets (bodies are small): dom[b] = set of blocks dominating b."""
        if unwind in self._dom:
            return self._dom[unwind]
        S = self.succs(unwind)
        reach = self.reachable(0, unwind=unwind)
        P = [[] for _ in range(self.n)]
        for i in reach:
            for s in S[i]:
                P[s].append(i)
        # reverse post-order
        order = []
        seen = set()

        def dfs(r):
            stack = [(r, iter(S[r]))]
            seen.add(r)
            while stack:
                node, it = stack[-1]
                adv = False
                for y in it:
                    if y not in seen:
                        seen.add(y)
                        stack.append((y, iter(S[y])))
                        adv = True
                        break
                if not adv:
                    order.append(node)
                    stack.pop()
        dfs(0)
        rpo = order[::-1]
        full = set(rpo)
        dom = {b: set(full) for b in rpo}
        dom[0] = {0}
        changed = True
        while changed:
            changed = False
            for b in rpo:
                if b == 0:
                    continue
                ps = [p for p in P[b] if p in dom]
                if not ps:
                    continue
                new = set.intersection(*[dom[p] for p in ps]) | {b}
                if new != dom[b]:
                    dom[b] = new
                    changed = True
        self._dom[unwind] = dom
        return dom

    def dominates(self, a, b):
        d = self.dominators()
        return b in d and a in d[b]

    def return_blocks(self):
        return [i for i, b in enumerate(self.blocks) if b["term"]["k"] == "return"]

    def postdominators(self):
        """pdom[b] = set of blocks on every normal path from b to a `return` (blocks that
        cannot reach a return are omitted)."""
        if self._pdom is not None:
            return self._pdom
        S = self.succs()
        rets = self.return_blocks()
        P = self.preds()
        # blocks that can reach a return
        can = set(rets)
        st = list(rets)
        while st:
            x = st.pop()
            for p in P[x]:
                if p not in can:
                    can.add(p)
                    st.append(p)
        pd = {b: set(can) for b in can}
        for r in rets:
            pd[r] = {r}
        changed = True
        while changed:
            changed = False
            for b in can:
                if b in rets:
                    continue
                ss = [s for s in S[b] if s in can]
                if not ss:
                    continue
                new = set.intersection(*[pd[s] for s in ss]) | {b}
                if new != pd[b]:
                    pd[b] = new
                    changed = True
        self._pdom = pd
        return pd

    def loops(self):
        """Natural loops: list of (header, body_set, back_edge_sources)."""
        dom = self.dominators()
        S = self.succs()
        P = self.preds()
        by_header = {}
        for t in dom:
            for h in S[t]:
                if h in dom[t]:
                    body = by_header.setdefault(h, ({h}, []))
                    body[1].append(t)
                    st = [t]
                    while st:
                        x = st.pop()
                        if x in body[0]:
                            continue
                        body[0].add(x)
                        st.extend(p for p in P[x] if p in dom)
        return [(h, b[0], b[1]) for h, b in by_header.items()]

    # ---- statements / calls ---------------------------------------------
    def terms(self, kind=None):
        for i, b in enumerate(self.blocks):
            if kind is None or b["term"]["k"] == kind:
                yield i, b["term"]

    def calls(self, include_cleanup=False):
        for i, b in enumerate(self.blocks):
            t = b["term"]
            if t["k"] == "call" and (include_cleanup or not b.get("cleanup")):
                yield i, t

    def calls_to(self, pred, include_cleanup=False):
        """pred: str (exact callee key after generic stripping, matches path or resolved) or callable(f)->bool"""
        out = []
        for i, t in self.calls(include_cleanup):
            f = t.get("f")
            if f is None:
                continue
            if callee_matches(f, pred):
                out.append((i, t))
        return out

    def stmts(self, include_cleanup=False):
        for i, b in enumerate(self.blocks):
            if b.get("cleanup") and not include_cleanup:
                continue
            for j, s in enumerate(b["stmts"]):
                yield i, j, s

    def assigns(self, include_cleanup=False):
        for i, j, s in self.stmts(include_cleanup):
            if s["k"] == "assign":
                yield i, j, s

    def yields(self):
        return [i for i, t in self.terms("yield")]

    def local_ty(self, l):
        return self.locals[l]["ty"]

    def local_name(self, l):
        return self.locals[l].get("name")

    # ---- def-use ----------------------------------------------------------
    def defs_of(self, local):
        """All definitions of a bare local: list of (bb, idx|'term', rvalue-or-term)."""
        if not hasattr(self, "_defs"):
            d = defaultdict(list)
            for i, j, s in self.assigns():
                if "p" not in s["p"]:
                    d[s["p"]["l"]].append((i, j, s["r"]))
            for i, t in self.terms():
                if t["k"] == "call" and "p" not in t["dest"]:
                    d[t["dest"]["l"]].append((i, "term", t))
                if t["k"] == "yield":
                    pass
            self._defs = d
        return self._defs.get(local, [])

    def origin(self, op, depth=12, pending=None):
        """Follow copies/moves/refs/derefs/casts of an operand back to its source.
        Returns a descriptor dict:
          {'k':'call','bb':..,'t':term} | {'k':'place','p':place} | {'k':'const',...} |
          {'k':'arg','l':n} | {'k':'rvalue','r':..,'bb':..} | {'k':'multi'}
        Field projections on the way are collected in 'proj' (outermost last)."""
        proj = list(pending) if pending else []
        cur = op
        if self.d.get("inl_rets"):
            depth += 8
        for _ in range(depth):
            if cur is None:
                break
            if cur.get("k") == "const":
                return {"k": "const", "c": cur, "proj": proj}
            p = cur["p"] if cur.get("k") in ("copy", "move") else cur
            l = p["l"]
            pr = [e for e in p.get("p", []) if e != "*"]
            if l == 1 and self.d.get("upvars") is not None and pr and isinstance(pr[0], dict) \
                    and str(pr[0].get("of", "")).startswith("closure:") and pr[0]["f"] < len(self.d["upvars"]):
                # captured place: expand the upvar's path (`*self.state.x`) into pseudo field projections
                name = self.d["upvars"][pr[0]["f"]]["name"].lstrip("*&")
                segs = [x for x in name.split(".")[1:] if x] if "." in name else [name]
                # a captured plain variable (`solvables`) is not a field path of some state struct: marked as such
                pr = [pr[0]] + [{"f": -1, "of": "?upvar", "n": sg, **({"var": True} if "." not in name else {})} for sg in segs] + pr[1:]
            if pr:
                proj = pr + proj
            if 1 <= l <= self.d["arg_count"]:
                return {"k": "arg", "l": l, "proj": proj}
            ds = self.defs_of(l)
            tuple_scrutinee = bool(proj) and len(ds) == 1 and ds[0][1] != "term" and ds[0][2]["k"] == "agg" and \
                ds[0][2].get("ak") == "tuple" and isinstance(proj[0], dict) and "f" in proj[0] and "as" not in proj[0] and \
                not self.blocks[ds[0][0]]["stmts"][ds[0][1]].get("exp")       # (not the operand tuples of assert_eq! & co.)
            if proj and ds and (l in self.d.get("inl_rets", ()) or tuple_scrutinee):
                # (for the return slots of virtually inlined helpers, lib/inline.py, and for a tuple that is built only to be taken
                # apart again - `match (a, b) { .. }`)
                # (only for the return slots of virtually inlined helpers, lib/inline.py)
                # constructor / projection cancellation: `(x as V).f` or `x.f` where x was built by an aggregate.  A downcast
                # to V selects, among several definitions, the aggregates of that variant (a value built as another variant, or
                # the error value of a `?`, cannot be seen through that downcast).
                nxt = _cancel(ds, proj)
                if nxt is not None:
                    cur, proj = nxt
                    continue
            if len(ds) != 1:
                return {"k": "multi" if ds else "undef", "l": l, "proj": proj, "defs": ds}
            bb, idx, r = ds[0]
            if idx == "term":
                return {"k": "call", "bb": bb, "t": r, "proj": proj, "l": l}
            rk = r["k"]
            if rk == "use":
                cur = r["o"]
                continue
            if rk in ("ref", "copyderef", "rawptr"):
                cur = r["p"]
                continue
            if rk == "cast":
                cur = r["o"]
                continue
            return {"k": "rvalue", "r": r, "bb": bb, "proj": proj, "l": l}
        return {"k": "deep", "proj": proj}


_SUCCESS = {"Continue", "Ok", "Some"}


def _same_variant(a, b):
    return a == b or (a in _SUCCESS and b in _SUCCESS)


def _cancel(ds, proj):
    """See Body.origin: returns (operand, remaining projections) or None."""
    e1 = proj[0]
    if isinstance(e1, dict) and "as" in e1:
        if len(proj) < 2 or not (isinstance(proj[1], dict) and "f" in proj[1]):
            return None
        cands = []
        for bb, idx, r in ds:
            if idx == "term":
                f = r.get("f")
                if f and f.get("name") == "from_residual" and e1["as"] in _SUCCESS:
                    continue        # the error value of a `?`
                return None
            if r["k"] == "agg" and r.get("ak") == "adt" and r.get("variant") is not None:
                if _same_variant(r["variant"], e1["as"]):
                    cands.append(r)
                continue
            return None
        if len(cands) == 1 and proj[1]["f"] < len(cands[0]["ops"]):
            return cands[0]["ops"][proj[1]["f"]], proj[2:]
        return None
    if isinstance(e1, dict) and "f" in e1 and len(ds) == 1 and ds[0][1] != "term":
        r = ds[0][2]
        if r["k"] == "agg" and (r.get("ak") == "tuple" or (r.get("ak") == "adt" and e1.get("v") is None and not _is_enum_agg(r))) \
                and e1["f"] < len(r.get("ops", [])):
            return r["ops"][e1["f"]], proj[1:]
    return None


def _is_enum_agg(r):
    return str(r.get("adt", "")).split("::")[-1] in ("Option", "Result", "ControlFlow") or r.get("is_enum")


def callee_key(f):
    return strip_generics(f["path"])


def callee_keys(f):
    ks = [strip_generics(f["path"])]
    if f.get("resolved"):
        ks.append(strip_generics(f["resolved"]))
    return ks


def callee_matches(f, pred):
    if callable(pred):
        return bool(pred(f))
    if isinstance(pred, (list, tuple, set, frozenset)):
        return any(callee_matches(f, p) for p in pred)
    return pred in callee_keys(f)


def is_macro(node, *names):
    """True if the statement/terminator comes from an expansion of one of the named macros."""
    for e in node.get("exp", []) or []:
        for n in names:
            if e == "macro:" + n:
                return True
    return False


def is_desugar(node, kind):
    return any(e == "desugar:" + kind for e in (node.get("exp") or []))


class Facts:
    def __init__(self, directory):
        self.dir = directory
        self.crates = {}
        for f in sorted(glob.glob(os.path.join(directory, "*.json"))):
            base = os.path.basename(f)
            if base in ("META.json", "cxx.json") or len(base.split(".")) != 4:
                continue
            name, kind = base.split(".")[0], base.split(".")[1]
            if name == "build_script_build":
                continue
            key = name if kind == "lib" else name + ":test"
            # integration tests / several test crates may share a name; keep all
            while key in self.crates:
                key += "'"
            self.crates[key] = Crate(f)

    def crate(self, name):
        c = self.crates.get(name)
        if c is None:
            raise CheckerError("no facts for crate %s in %s" % (name, self.dir))
        return c


# ---- place helpers ---------------------------------------------------------
def place_fields(p):
    """List of (adt, field-name) for the Field projections of a place."""
    return [(e.get("of"), e.get("n")) for e in p.get("p", []) if isinstance(e, dict) and "f" in e]


def place_mentions_field(p, adt, name):
    return any(a == adt and n == name for a, n in place_fields(p))


def operand_place(o):
    if o is None:
        return None
    if o.get("k") in ("copy", "move"):
        return o["p"]
    return None


def iter_places_read(body):
    """Yield (bb, stmt_idx|'term', place, how) for every place mentioned on the rhs."""
    def ops_of_rvalue(r):
        k = r["k"]
        if k in ("use", "cast", "repeat"):
            yield r["o"], "use"
        elif k == "ref":
            yield {"k": "copy", "p": r["p"]}, "ref:" + r["bk"]
        elif k == "rawptr":
            yield {"k": "copy", "p": r["p"]}, "rawptr:" + r["m"]
        elif k == "bin":
            yield r["a"], "use"
            yield r["b"], "use"
        elif k == "un":
            yield r["a"], "use"
        elif k in ("discr", "copyderef"):
            yield {"k": "copy", "p": r["p"]}, k
        elif k == "agg":
            for o in r["ops"]:
                yield o, "use"
    for i, j, s in body.assigns():
        for o, how in ops_of_rvalue(s["r"]):
            p = operand_place(o)
            if p is not None:
                yield i, j, p, how
    for i, t in body.terms():
        if t["k"] == "call":
            for o in t["args"]:
                p = operand_place(o)
                if p is not None:
                    yield i, "term", p, "arg"
        elif t["k"] == "switch":
            p = operand_place(t["d"])
            if p is not None:
                yield i, "term", p, "switch"
