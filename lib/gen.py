"""Fact generation: runs the factdb driver (E1) over /repo's current working tree.

Facts are cached under /verif/.cache/facts/<tree-hash>/<cfg>/ ; the hash covers every
source file cargo reads plus the driver binary, so a changed tree always regenerates.
The cargo target dir is persistent (deps are reused) but the workspace members'
fingerprints are deleted before each run so the wrapper is always invoked, and the run
asserts that fresh fact files exist for every expected crate (fail closed).
"""
import hashlib, json, os, re, shutil, subprocess, sys, time, glob

VERIF = os.path.dirname(os.path.dirname(os.path.abspath(__file__)))
REPO = os.environ.get("VERIF_REPO", "/repo")
CACHE = os.path.join(VERIF, ".cache")
DRIVER_DIR = os.path.join(VERIF, "factdb")
DRIVER = os.path.join(DRIVER_DIR, "target", "debug", "factdb")

# configuration name -> (cargo args, extra rustflags)
CONFIGS = {
    "cfgA": (["--workspace", "--all-features"], ""),
    "cfgB": (["--workspace", "--all-features"], "-C debug-assertions=off"),
    "cfgC": (["-p", "resolvo", "--no-default-features"], ""),
    "cfgE": (["--workspace", "--all-features", "--all-targets"], ""),
}
EXPECT = {
    "cfgA": ["resolvo", "resolvo_cpp", "solve_snapshot"],
    "cfgB": ["resolvo", "resolvo_cpp", "solve_snapshot"],
    "cfgC": ["resolvo"],
    "cfgE": ["resolvo", "resolvo_cpp", "solve_snapshot"],
}


class CheckerError(Exception):
    """The checker itself could not do its job (missing anchor, build failure)."""


def sysroot():
    return subprocess.check_output(["rustc", "+nightly", "--print", "sysroot"], text=True).strip()


def ensure_driver():
    src_m = max(os.path.getmtime(p) for p in glob.glob(os.path.join(DRIVER_DIR, "src", "*.rs")))
    if os.path.exists(DRIVER) and os.path.getmtime(DRIVER) >= src_m:
        return
    env = dict(os.environ, CARGO_NET_OFFLINE="true")
    r = subprocess.run(["cargo", "+nightly", "build", "--offline"], cwd=DRIVER_DIR, env=env,
                       stdout=subprocess.PIPE, stderr=subprocess.STDOUT, text=True)
    if r.returncode != 0 or not os.path.exists(DRIVER):
        raise CheckerError("factdb driver failed to build:\n" + r.stdout[-3000:])


TREE_DIRS = ["src", "cpp/src", "cpp/include", "cpp/build.rs", "cpp/Cargo.toml", "cpp/cbindgen.toml",
             "tools/solve-snapshot/src", "tools/solve-snapshot/Cargo.toml", "tests", "Cargo.toml",
             "Cargo.lock", "rust-toolchain"]


def tree_hash(repo=None):
    repo = repo or REPO
    h = hashlib.sha256()
    files = []
    for d in TREE_DIRS:
        p = os.path.join(repo, d)
        if os.path.isfile(p):
            files.append(p)
        elif os.path.isdir(p):
            for root, dirs, fs in os.walk(p):
                dirs.sort()
                for f in sorted(fs):
                    if f.endswith((".rs", ".h", ".toml", ".lock", ".json", ".snap", ".cpp", ".txt")) or "." not in f:
                        files.append(os.path.join(root, f))
    for f in sorted(files):
        h.update(os.path.relpath(f, repo).encode())
        with open(f, "rb") as fh:
            h.update(hashlib.sha256(fh.read()).digest())
    with open(DRIVER, "rb") as fh:
        h.update(hashlib.sha256(fh.read()).digest())
    return h.hexdigest()[:24]


def facts_dir(cfg, repo=None):
    return os.path.join(CACHE, "facts", tree_hash(repo), cfg)


def generate(cfg, repo=None, log=None):
    """Returns the directory holding the fact files for cfg, generating them if needed."""
    repo = repo or REPO
    ensure_driver()
    out = facts_dir(cfg, repo)
    marker = os.path.join(out, "COMPLETE")
    if os.path.exists(marker):
        try:
            os.utime(out)
            os.utime(os.path.dirname(out))     # prune_cache judges the age of the tree-hash directory
        except OSError:
            pass
        return out
    import fcntl
    os.makedirs(CACHE, exist_ok=True)
    lock = open(os.path.join(CACHE, "gen.%s.lock" % cfg), "w")
    fcntl.flock(lock, fcntl.LOCK_EX)
    try:
        if os.path.exists(marker):
            return out
        return _generate_locked(cfg, repo, out, log)
    finally:
        fcntl.flock(lock, fcntl.LOCK_UN)
        lock.close()


def _generate_locked(cfg, repo, out, log):
    t0 = time.time()
    tmp = out + ".partial.%d" % os.getpid()
    shutil.rmtree(tmp, ignore_errors=True)
    os.makedirs(tmp)
    # persistent target dir per (cfg, repo path) so dependencies are not rebuilt
    tkey = hashlib.sha256((cfg + "|" + os.path.abspath(repo)).encode()).hexdigest()[:12]
    target = os.path.join(CACHE, "target", tkey)
    os.makedirs(target, exist_ok=True)
    for fp in glob.glob(os.path.join(target, "debug", ".fingerprint", "*")):
        base = os.path.basename(fp)
        if base.startswith(("resolvo-", "resolvo_cpp-", "solve-snapshot-", "solve_snapshot-")):
            shutil.rmtree(fp, ignore_errors=True)
    cargo_args, extra = CONFIGS[cfg]
    env = dict(os.environ)
    env.update({
        "LD_LIBRARY_PATH": sysroot() + "/lib",
        "RUSTFLAGS": ("-Zmir-opt-level=0 --cap-lints=allow " + extra).strip(),
        "RUSTC_WORKSPACE_WRAPPER": DRIVER,
        "FACTDB_OUT": tmp,
        "CARGO_TARGET_DIR": target,
        "CARGO_NET_OFFLINE": "true",
        "CARGO_INCREMENTAL": "0",
    })
    env.pop("RUSTC_WRAPPER", None)
    cmd = ["cargo", "+nightly", "check", "--offline"] + cargo_args
    r = subprocess.run(cmd, cwd=repo, env=env, stdout=subprocess.PIPE, stderr=subprocess.STDOUT, text=True)
    if r.returncode != 0:
        shutil.rmtree(tmp, ignore_errors=True)
        raise CheckerError("cargo check under factdb failed for %s (the tree does not compile?):\n%s"
                           % (cfg, r.stdout[-4000:]))
    have = os.listdir(tmp)
    for c in EXPECT[cfg]:
        if not any(f.startswith(c + ".") for f in have):
            shutil.rmtree(tmp, ignore_errors=True)
            raise CheckerError("no fact file for crate %s in %s (driver skipped?)" % (c, cfg))
    # keep the cbindgen-generated headers next to the facts (C17 / clang)
    gen = glob.glob(os.path.join(target, "debug", "build", "resolvo_cpp-*", "out", "generated_include"))
    if gen:
        gen.sort(key=os.path.getmtime)
        shutil.copytree(gen[-1], os.path.join(tmp, "generated_include"))
    with open(os.path.join(tmp, "META.json"), "w") as fh:
        json.dump({"cfg": cfg, "cmd": cmd, "rustflags": env["RUSTFLAGS"], "wall_s": time.time() - t0,
                   "files": sorted(have)}, fh)
    open(os.path.join(tmp, "COMPLETE"), "w").close()
    os.makedirs(os.path.dirname(out), exist_ok=True)
    shutil.rmtree(out, ignore_errors=True)
    os.rename(tmp, out)
    if log:
        log("generated facts %s in %.1fs" % (cfg, time.time() - t0))
    prune_cache()
    return out


def prune_cache(keep=150):
    base = os.path.join(CACHE, "facts")
    if not os.path.isdir(base):
        return
    ds = [os.path.join(base, d) for d in os.listdir(base)]
    ds.sort(key=os.path.getmtime, reverse=True)
    now = time.time()
    for d in ds[keep:]:
        # never remove a fact set that another check process may still be reading (parallel regression runs)
        try:
            if now - os.path.getmtime(d) < 3 * 3600:
                continue
        except OSError:
            continue
        shutil.rmtree(d, ignore_errors=True)
