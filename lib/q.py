"""Query helpers shared by the rules: branch conditions, edge dominance, value origins."""
from facts import callee_keys, callee_matches, strip_generics, operand_place, is_desugar

STD_DISCR = {
    "std::option::Option": {0: "None", 1: "Some"},
    "std::result::Result": {0: "Ok", 1: "Err"},
    "std::ops::ControlFlow": {0: "Continue", 1: "Break"},
    "std::task::Poll": {0: "Ready", 1: "Pending"},
}

# callees through which a value's identity is followed (arg 0 -> result)
TRANSPARENT = {
    "std::ops::Deref::deref", "std::ops::DerefMut::deref_mut",
    "std::cell::RefCell::borrow", "std::cell::RefCell::borrow_mut",
    "std::option::Option::cloned", "std::option::Option::copied",
    "std::option::Option::as_ref", "std::option::Option::as_mut", "std::option::Option::as_deref",
    "std::convert::Into::into", "std::convert::From::from", "std::clone::Clone::clone",
    "std::convert::AsRef::as_ref", "std::borrow::Borrow::borrow",
    "std::iter::IntoIterator::into_iter", "std::future::IntoFuture::into_future",
    "std::pin::Pin::new_unchecked", "std::pin::Pin::new",
    "std::vec::Vec::as_slice", "std::vec::Vec::as_mut_slice",
    "std::ops::Try::branch",
    # copies of a slice / borrowed value (content-preserving)
    "bitvec::macros::internal::core::slice::to_vec", "std::slice::to_vec", "std::borrow::ToOwned::to_owned",
}


def adt_of_type(ty):
    """`std::option::Option<Foo>` -> `std::option::Option` ; strips refs."""
    t = ty.strip()
    while t.startswith("&"):
        t = t[1:].lstrip()
        if t.startswith("mut "):
            t = t[4:]
        if t.startswith("'"):
            t = t.split(" ", 1)[1] if " " in t else t
    i = t.find("<")
    return t if i < 0 else t[:i]


def variant_map(facts_crates, adt):
    if adt in STD_DISCR:
        return STD_DISCR[adt]
    for c in facts_crates:
        a = c.adts.get(adt)
        if a is not None:
            return {v.get("discr", i): v["name"] for i, v in enumerate(a["variants"])}
    return None


class Cond:
    """What a SwitchInt tests.  kind: 'discr' (enum discriminant of `src`), 'bool'
    (`src` is a bool value; negated tracked), 'cmp' (binary comparison), 'int'."""
    def __init__(self):
        self.kind = None
        self.bb = None
        self.adt = None
        self.src = None          # origin descriptor of the tested value
        self.src_place = None    # the place whose discriminant is read (discr)
        self.edges = {}          # label -> target bb ; labels: variant names or True/False or ints
        self.otherwise = None
        self.op = None
        self.a = self.b = None

    def target(self, label):
        return self.edges.get(label, self.otherwise)


def cond_of(body, bb, crates=()):
    t = body.blocks[bb]["term"]
    if t["k"] != "switch":
        return None
    c = Cond()
    c.bb = bb
    c.otherwise = t["otherwise"]
    d = t["d"]
    # find the defining rvalue of the discriminant operand (same or dominating block)
    r = None
    p = operand_place(d)
    neg = False
    cur = p
    for _ in range(6):
        if cur is None or "p" in cur:
            break
        ds = body.defs_of(cur["l"])
        if len(ds) != 1:
            break
        dbb, idx, rv = ds[0]
        if idx == "term":
            r = ("call", dbb, rv)
            break
        if rv["k"] == "use" and operand_place(rv["o"]) is not None:
            cur = operand_place(rv["o"])
            continue
        if rv["k"] == "un" and rv["op"] == "Not":
            neg = not neg
            cur = operand_place(rv["a"])
            continue
        r = ("rv", dbb, rv)
        break
    if t["dty"] == "bool":
        c.kind = "bool"
        f_t = None
        for v, tb in t["targets"]:
            if v == 0:
                f_t = tb
        tr = c.otherwise
        if f_t is None:
            # switch [1: x, otherwise: y]
            for v, tb in t["targets"]:
                if v == 1:
                    tr = tb
                    f_t = c.otherwise
        if neg:
            tr, f_t = f_t, tr
        c.edges = {True: tr, False: f_t}
        if r and r[0] == "rv" and r[2]["k"] == "bin":
            c.kind = "cmp"
            c.op = r[2]["op"]
            c.a, c.b = r[2]["a"], r[2]["b"]
        elif r and r[0] == "call":
            c.src = {"k": "call", "bb": r[1], "t": r[2], "proj": []}
        elif cur is not None:
            c.src = body.origin({"k": "copy", "p": cur})
        return c
    if r and r[0] == "rv" and r[2]["k"] == "discr":
        c.kind = "discr"
        c.adt = r[2].get("adt")
        c.src_place = r[2]["p"]
        c.src = body.origin({"k": "copy", "p": r[2]["p"]})
        if body.d.get("inl_rets") and c.src.get("k") == "call" and c.src["t"].get("f") and c.src["t"]["f"]["name"] == "branch":
            # `?` on the result of a virtually inlined helper: the tested value is what the helper wrapped in Ok(..)
            d2, ch = origin_thru(body, {"k": "copy", "p": r[2]["p"]}, transparent={"std::ops::Try::branch"})
            if ch and not any(isinstance(e, dict) and e.get("as") == "Continue" for e in d2.get("proj", [])):
                c.src = d2
        vm = variant_map(crates, c.adt) if c.adt else None
        if vm:
            listed = {v: tb for v, tb in t["targets"]}
            for val, name in vm.items():
                c.edges[name] = listed.get(val, c.otherwise)
        else:
            c.edges = {v: tb for v, tb in t["targets"]}
        return c
    c.kind = "int"
    c.edges = {v: tb for v, tb in t["targets"]}
    if cur is not None:
        c.src = body.origin({"k": "copy", "p": cur})
    return c


def conds(body, crates=()):
    out = []
    for i, t in body.terms("switch"):
        c = cond_of(body, i, crates)
        if c:
            out.append(c)
    return out


def reach_cut(body, cut_edges, start=0):
    """Blocks reachable from start on normal paths when the given (src,dst) edges are removed."""
    S = body.succs()
    cut = set(cut_edges)
    seen = {start}
    st = [start]
    while st:
        x = st.pop()
        for y in S[x]:
            if (x, y) in cut or y in seen:
                continue
            seen.add(y)
            st.append(y)
    return seen


def edge_dominates(body, src, dst, block):
    """Every normal path from entry to `block` uses the edge src->dst."""
    if block not in body.reachable(0):
        return False
    return block not in reach_cut(body, [(src, dst)])


def only_via_edges(body, edges, block):
    """Every path from entry to block uses one of the edges."""
    if block not in body.reachable(0):
        return False
    return block not in reach_cut(body, edges)


def between(body, a_blocks, b):
    """Blocks lying on some normal path from any block in a_blocks (exclusive start allowed) to b."""
    fwd = body.reachable(a_blocks)
    P = body.preds()
    back = {b}
    st = [b]
    while st:
        x = st.pop()
        for p in P[x]:
            if p not in back:
                back.add(p)
                st.append(p)
    return fwd & back


def can_reach(body, targets, unwind=False, cancel=False):
    P = body.preds(unwind, cancel)
    back = set(targets)
    st = list(targets)
    while st:
        x = st.pop()
        for p in P[x]:
            if p not in back:
                back.add(p)
                st.append(p)
    return back


def origin_thru(body, op, transparent=TRANSPARENT, depth=16):
    """Like Body.origin but continues through arg0 of 'transparent' calls.
    Returns (descriptor, chain) where chain lists the callee keys passed through
    and 'proj' accumulates all field projections seen."""
    chain = []
    proj = []
    cur = op
    d = None
    pending = None
    for _ in range(depth):
        if pending is not None:
            d = body.origin(cur, pending=pending)
            proj = d.get("proj", [])
            pending = None
        else:
            d = body.origin(cur)
            proj = d.get("proj", []) + proj
        if d["k"] == "call":
            f = d["t"].get("f")
            if f is not None and d["t"]["args"]:
                ks = callee_keys(f)
                if any(k in transparent for k in ks):
                    chain.append(ks[0])
                    cur = d["t"]["args"][0]
                    if body.d.get("inl_rets") and "std::ops::Try::branch" in ks and proj and isinstance(proj[0], dict) and proj[0].get("as") == "Continue":
                        # `?` applied to the result of a virtually inlined helper: look for the Ok(..)/Some(..) it returned
                        pending = proj
                    continue
        break
    d = dict(d)
    d["proj"] = proj
    return d, chain


def fields_of(desc):
    return [(e.get("of"), e.get("n")) for e in desc.get("proj", []) if isinstance(e, dict) and "f" in e]


def mentions_field(desc, adt, name):
    return any((a == adt or a == "?upvar") and n == name for a, n in fields_of(desc))


def recv_desc(body, term, transparent=TRANSPARENT):
    """Origin descriptor of the receiver (arg 0) of a call."""
    if not term["args"]:
        return {"k": "none", "proj": []}, []
    return origin_thru(body, term["args"][0], transparent)


def calls_on_field(body, callee, adt, field, arg=0):
    """Call sites of `callee` whose arg (default receiver) originates from field `adt.field`."""
    out = []
    for i, t in body.calls_to(callee):
        if len(t["args"]) <= arg:
            continue
        d, _ = origin_thru(body, t["args"][arg])
        if mentions_field(d, adt, field):
            out.append((i, t))
    return out


def same_origin(d1, d2):
    """Two origin descriptors denote the same source value."""
    if d1["k"] != d2["k"]:
        return False
    if d1["k"] == "arg":
        return d1["l"] == d2["l"] and _pkey(d1) == _pkey(d2)
    if d1["k"] == "call":
        return d1["bb"] == d2["bb"] and _pkey(d1) == _pkey(d2)
    if d1["k"] in ("multi", "undef", "rvalue"):
        return d1.get("l") == d2.get("l") and _pkey(d1) == _pkey(d2)
    if d1["k"] == "const":
        return d1["c"].get("v") == d2["c"].get("v") and d1["c"].get("ty") == d2["c"].get("ty")
    return False


def _pkey(d):
    out = []
    for e in d.get("proj", []):
        if isinstance(e, dict):
            if "f" in e:
                out.append(("f", e["f"], e.get("of")))
            elif "as" in e:
                out.append(("as", e["as"]))
            else:
                out.append(("x",))
        else:
            out.append((e,))
    return tuple(out)


def user_calls(body, include_expansions=False):
    """Call sites that are not compiler/macros plumbing (format_args, tracing, await glue)."""
    out = []
    for i, t in body.calls():
        if not include_expansions and t.get("exp"):
            continue
        out.append((i, t))
    return out


def fn_key(body):
    return body.key


def callers_of(crate, callee_pred, include_cleanup=False):
    """[(body, bb, term)] for all call sites in the crate."""
    out = []
    for b in crate.bodies:
        for i, t in b.calls_to(callee_pred, include_cleanup):
            out.append((b, i, t))
    return out


def enclosing_fn(crate, body):
    """For closures/coroutines: the outermost named fn body key."""
    return strip_generics(body.root) if body.root else body.key


def blocks_with_yield(body):
    return set(body.yields())


def uses_of_local(body, local):
    """All reads of a bare local: list of (bb, where, how) ; how in use/ref:*/arg/switch/drop/discr/..."""
    from facts import iter_places_read
    out = []
    for bb, j, p, how in iter_places_read(body):
        if p["l"] == local:
            out.append((bb, j, how, p))
    for bb, t in body.terms("drop"):
        if t["p"]["l"] == local and "p" not in t["p"]:
            out.append((bb, "term", "drop", t["p"]))
    for bb, t in body.terms("yield"):
        p = operand_place(t["v"])
        if p is not None and p["l"] == local:
            out.append((bb, "term", "yield", p))
    return out


def promoted_rvalue(crate, body, desc):
    """If an origin descriptor is a promoted constant (`const f::promoted[k]`), return the rvalue stored in it."""
    import re
    if desc.get("k") != "const":
        return None
    sv = desc["c"].get("s") or ""
    m = re.search(r"promoted\[(\d+)\]", sv)
    if not m:
        return None
    root = body.path
    pb = crate.by_path.get("%s::promoted[%s]" % (root, m.group(1)))
    if pb is None:
        return None
    d = pb.origin({"k": "copy", "p": {"l": 0}})
    if d["k"] == "rvalue":
        return d["r"]
    return None


GROW = {"push", "push_back", "push_front", "extend", "extend_from_slice", "insert", "append"}


def inflows(body):
    """local -> operands stored into it through a `&mut` borrow handed to a growing call (`v.push(x)`, `v.extend(it)`, ...): the
    values a collection built step by step holds, which its defining `Vec::new()` says nothing about."""
    c = getattr(body, "_inflows", None)
    if c is not None:
        return c
    mutref = {}
    for i, j, s_ in body.assigns():
        r = s_["r"]
        if r["k"] == "ref" and r.get("bk") == "mut" and not s_["p"].get("p") and not r["p"].get("p"):
            mutref[s_["p"]["l"]] = r["p"]["l"]
    c = {}
    for i, t in body.calls():
        f = t.get("f")
        if f is None or f["name"] not in GROW or len(t["args"]) < 2:
            continue
        pl = operand_place(t["args"][0])
        if pl is not None and not pl.get("p") and pl["l"] in mutref and len(body.defs_of(pl["l"])) == 1:
            c.setdefault(mutref[pl["l"]], []).extend(t["args"][1:])
    body._inflows = c
    return c


def leaves(body, op, depth=40, adt=False):
    """Backward data slice of an operand down to its leaf sources.  Returns a set of strings:
         'field:<a.b.c>'   read of a field path rooted at an argument / captured place
         'lfield:<a.b>'    field path read through a local (e.g. `(*guard).x`, a captured `self` in a coroutine)
         'arg:<n>'         an argument without field projection
         'call:<name>'     result of a call (its arguments are sliced too)
         'const'           a constant
         'loop/multi/...'  anything the walk could not resolve is reported as 'unknown:<kind>'
       Only value flow (use / ref / cast / bin / un / agg / call args) is followed, not control dependence."""
    out = set()
    seen = set()

    def nm(e):
        # with adt=True every segment carries the type it is a field of: `SolverState#decision_tracker`
        return ("%s#%s" % (str(e.get("of", "?")).split("::")[-1], e["n"])) if adt else e["n"]

    def place_leaf(p):
        names = [nm(e) for e in p.get("p", []) if isinstance(e, dict) and "f" in e and e.get("n") and not e.get("var")]
        return names

    def walk(o, d):
        if o is None:
            return
        if o.get("k") == "const":
            out.add("const")
            return
        p = o["p"] if o.get("k") in ("copy", "move") else o
        if not isinstance(p, dict) or "l" not in p:
            out.add("unknown:operand")
            return
        l = p["l"]
        for e in p.get("p", []):
            if isinstance(e, dict) and "idx" in e:
                walk({"k": "copy", "p": {"l": e["idx"]}}, d + 1)
        key = (l, tuple(place_leaf(p)))
        if key in seen:
            return
        seen.add(key)
        if d > depth:
            out.add("unknown:deep")
            return
        desc = body.origin({"k": "copy", "p": p}, depth=1) if False else None
        if 1 <= l <= body.d["arg_count"]:
            dd = body.origin({"k": "copy", "p": p})
            names = [nm(e) for e in dd.get("proj", []) if isinstance(e, dict) and "f" in e and e.get("n") and not e.get("var")]
            out.add("field:" + ".".join(names) if names else "arg:%d" % l)
            return
        names = place_leaf(p)
        if names:
            # field read through a local (e.g. `(*guard).x`, a captured `self`): report the field path seen here as well
            out.add("lfield:" + ".".join(names))
        ds = body.defs_of(l)
        if not ds:
            out.add("unknown:undef")
            return
        for a in inflows(body).get(l, ()):
            walk(a, d + 1)
        for bb, idx, r in ds:
            if idx == "term":
                f = r.get("f")
                out.add("call:" + (f["name"] if f else "?indirect"))
                for a in r.get("args", []):
                    walk(a, d + 1)
                continue
            k = r["k"]
            if k in ("use", "cast", "un", "repeat"):
                walk(r.get("o"), d + 1)
            elif k in ("ref", "copyderef", "rawptr", "discr", "len"):
                walk({"k": "copy", "p": r["p"]}, d + 1)
            elif k == "bin":
                walk(r["a"], d + 1)
                walk(r["b"], d + 1)
            elif k == "agg":
                for x in r.get("ops", []):
                    walk(x, d + 1)
            else:
                out.add("unknown:" + str(k))

    walk(op, 0)
    return out


def slice_locals(body, op, depth=40):
    """Locals visited by the backward value slice of an operand (through use / ref / deref / cast / bin / agg / call arguments)."""
    seen = set()

    def walk(o, d):
        if o is None or o.get("k") == "const" or d > depth:
            return
        p = o["p"] if o.get("k") in ("copy", "move") else o
        if not isinstance(p, dict) or "l" not in p:
            return
        for e in p.get("p", []):
            if isinstance(e, dict) and "idx" in e:
                walk({"k": "copy", "p": {"l": e["idx"]}}, d + 1)
        l = p["l"]
        if l in seen:
            return
        seen.add(l)
        for a in inflows(body).get(l, ()):
            walk(a, d + 1)
        for bb, idx, r in body.defs_of(l):
            if idx == "term":
                for a in r.get("args", []):
                    walk(a, d + 1)
                continue
            k = r["k"]
            if k in ("use", "cast", "un", "repeat"):
                walk(r.get("o"), d + 1)
            elif k in ("ref", "copyderef", "rawptr", "discr", "len"):
                walk({"k": "copy", "p": r["p"]}, d + 1)
            elif k == "bin":
                walk(r["a"], d + 1)
                walk(r["b"], d + 1)
            elif k == "agg":
                for x in r.get("ops", []):
                    walk(x, d + 1)
    walk(op, 0)
    return seen
