"""Both-ways self-test (thorough tier): every rule must fire on a scratch copy of /repo in which
exactly one instance was broken by a small patch that still compiles, and must name that instance.

mutants/<name>.patch starts with header lines:
    # property: C12
    # expect: <rule> | <function substring> | <instance substring>
    # note: free text
followed by a unified diff (-p1, relative to /repo).  Scratch copies live under a fixed
directory outside /repo and /verif (so cargo's dependency build is reused) and are removed
right after use.
"""
import os, sys, json, shutil, subprocess, glob, time, importlib, hashlib
from concurrent.futures import ThreadPoolExecutor

VERIF = os.path.dirname(os.path.dirname(os.path.abspath(__file__)))
import gen

SCRATCH_BASE = os.environ.get("VERIF_SCRATCH", "/tmp/resolvo-verif-scratch")


def parse(path):
    meta = {"property": None, "expect": [], "note": "", "path": path, "name": os.path.basename(path)[:-6]}
    for line in open(path):
        if not line.startswith("#"):
            break
        k, _, v = line[1:].partition(":")
        k, v = k.strip(), v.strip()
        if k == "property":
            meta["property"] = v
        elif k == "expect":
            meta["expect"].append([x.strip() for x in v.split("|")])
        elif k == "note":
            meta["note"] = v
    return meta


def mutants_for(prop):
    out = []
    for p in sorted(glob.glob(os.path.join(VERIF, "mutants", "*.patch"))):
        m = parse(p)
        if m["property"] == prop:
            out.append(m)
    # the independently seeded mutants of this property (sub-agents, /verif/seeded/<ID>-<i>/patch.diff): any violation counts
    for d in sorted(glob.glob(os.path.join(VERIF, "seeded", prop + "-*")), key=lambda x: int(x.rsplit("-", 1)[1])):
        pth = os.path.join(d, "patch.diff")
        if os.path.exists(pth):
            out.append({"property": prop, "expect": [], "note": "independently seeded mutant (see %s/meta.json)" % os.path.basename(d),
                        "path": pth, "name": "seed:" + os.path.basename(d)})
    return out


def make_scratch(slot, patch=None):
    d = os.path.join(SCRATCH_BASE, "slot%d" % slot, "repo")
    shutil.rmtree(d, ignore_errors=True)
    os.makedirs(d)
    files = subprocess.check_output(["git", "-C", gen.REPO, "ls-files"], text=True).split("\n")
    for f in files:
        if not f:
            continue
        src = os.path.join(gen.REPO, f)
        if not os.path.isfile(src):
            continue
        dst = os.path.join(d, f)
        os.makedirs(os.path.dirname(dst), exist_ok=True)
        shutil.copy2(src, dst)
    if patch:
        r = subprocess.run(["patch", "-p1", "--no-backup-if-mismatch", "-s", "-i", patch], cwd=d,
                           stdout=subprocess.PIPE, stderr=subprocess.STDOUT, text=True)
        if r.returncode != 0:
            raise gen.CheckerError("mutant %s does not apply to the current tree:\n%s" % (patch, r.stdout))
    return d


def run_mutant(m, slot):
    """Returns (killed, message)."""
    check = os.path.join(VERIF, "check")
    d = make_scratch(slot, m["path"])
    try:
        r = subprocess.run([sys.executable, check, m["property"], "--tier", "quick", "--repo", d, "--no-evidence",
                            "--list"], stdout=subprocess.PIPE, stderr=subprocess.STDOUT, text=True, cwd=VERIF)
        out = r.stdout
        if r.returncode == 2:
            return False, "mutant does not compile or checker error:\n" + out[-1500:]
        fails = [l for l in out.split("\n") if l.startswith("  FAIL")]
        if r.returncode != 1 or "VIOLATION property=%s" % m["property"] not in out:
            return False, "rule stayed silent (exit %d)" % r.returncode
        for rule, fn, inst in m["expect"]:
            if not any((rule in l.split()[1]) and (fn in l) and (inst in l) for l in fails):
                return False, "fired, but not on the expected instance %s | %s | %s; got:\n%s" % (
                    rule, fn, inst, "\n".join(fails[:6]))
        return True, "killed: %d failing obligation(s), e.g. %s" % (len(fails), fails[0].strip()[:200] if fails else "")
    finally:
        shutil.rmtree(d, ignore_errors=True)


def run_for(prop, jobs=6, verbose=True):
    ms = mutants_for(prop)
    if not ms:
        print("selftest %s: no mutants registered" % prop)
        return 0, []
    results = []
    t0 = time.time()
    slots = list(range(jobs))

    def work(args):
        idx, m = args
        return m, run_mutant(m, idx % jobs)
    # each slot is used by one worker at a time: partition mutants by slot
    by_slot = {s: [] for s in slots}
    for i, m in enumerate(ms):
        by_slot[i % jobs].append(m)

    def slot_worker(s):
        out = []
        for m in by_slot[s]:
            try:
                out.append((m, run_mutant(m, s)))
            except gen.CheckerError as e:
                out.append((m, (False, "mutant could not be evaluated: %s" % str(e).split("\n")[0])))
        return out
    with ThreadPoolExecutor(max_workers=jobs) as ex:
        for part in ex.map(slot_worker, slots):
            results.extend(part)
    bad = 0
    for m, (ok, msg) in results:
        if verbose:
            print("selftest %s mutant %-40s %s  %s" % (prop, m["name"], "KILLED" if ok else "SURVIVED", msg.split("\n")[0][:220]))
        if not ok:
            bad += 1
            print(msg)
    print("selftest %s: %d/%d mutants killed in %.0fs" % (prop, len(results) - bad, len(results), time.time() - t0))
    return bad, [{"mutant": m["name"], "killed": ok, "note": m["note"], "expect": m["expect"]} for m, (ok, msg) in results]


if __name__ == "__main__":
    sys.path.insert(0, os.path.join(VERIF, "lib"))
    props = sys.argv[1:] or sorted({parse(p)["property"] for p in glob.glob(os.path.join(VERIF, "mutants", "*.patch"))})
    rc = 0
    for p in props:
        b, _ = run_for(p)
        rc |= 1 if b else 0
    sys.exit(rc)
