"""T-DIM: a tiny abstract interpretation over MIR values that tracks the *dimension* of integers
used with id-indexed slot tables (Mapping, snapshot id allocation).

Kinds:  ITEMS      number of stored items
        IDX        a slot index (an id as usize / a slot cursor)
        LAST       inclusive upper slot index (highest id ever inserted)
        END        exclusive upper slot bound (number of slots to visit / first unused id)
        CHUNKS     number of chunks          CHUNK_IDX  index of a chunk       OFF  offset inside a chunk
        FRESH      END + ITEMS  (a freshly allocated id after the captured ones)
        REL        IDX - END    (offset into the additional list)
        ("const", n), TOP (unknown), BAD:<why> (ill-kinded combination)
"""
from facts import callee_keys, operand_place, strip_generics

ITEMS, IDX, LAST, END, CHUNKS, CHUNK_IDX, OFF, FRESH, REL, TOP = \
    "ITEMS", "IDX", "LAST", "END", "CHUNKS", "CHUNK_IDX", "OFF", "FRESH", "REL", "TOP"


class Env:
    def __init__(self, fields=None, calls=None, tuple_calls=None, chunk_const=128):
        self.fields = fields or {}          # (adt, field) -> kind
        self.calls = calls or {}            # callee key -> kind
        self.tuple_calls = tuple_calls or {}  # callee key -> [kind of .0, kind of .1]
        self.chunk_const = chunk_const
        self.hook = None                    # optional: hook(body, call_term) -> kind | None


def is_bad(k):
    return isinstance(k, str) and k.startswith("BAD")


def kind_of(body, op, env, depth=0, seen=None):
    seen = seen if seen is not None else set()
    if depth > 30 or op is None:
        return TOP
    if op.get("k") == "const":
        v = op.get("v")
        return ("const", v) if isinstance(v, int) and not isinstance(v, bool) else TOP
    p = op["p"] if op.get("k") in ("copy", "move") else op
    proj = [e for e in p.get("p", []) if e != "*"]
    # direct field reads
    for e in reversed(proj):
        if isinstance(e, dict) and "f" in e:
            k = env.fields.get((e.get("of"), e.get("n")))
            if k is not None and e is proj[-1]:
                return k
            break
    l = p["l"]
    key = (l, tuple((e.get("f"), e.get("as")) if isinstance(e, dict) else e for e in proj))
    if key in seen:
        return TOP
    seen.add(key)
    defs = body.defs_of(l)
    if len(defs) != 1:
        if defs:
            ks = {_k(kind_of_def(body, d, proj, env, depth, seen)) for d in defs}
            if len(ks) == 1:
                return ks.pop()
        return TOP
    return kind_of_def(body, defs[0], proj, env, depth, seen)


def _k(k):
    return k


def kind_of_def(body, d, proj, env, depth, seen):
    bb, idx, r = d
    if idx == "term":
        f = r.get("f")
        if f is None:
            return TOP
        if env.hook is not None and not proj:
            hk = env.hook(body, r)
            if hk is not None:
                return hk
        for key in callee_keys(f):
            if key in env.tuple_calls and proj and isinstance(proj[0], dict) and "f" in proj[0]:
                ks = env.tuple_calls[key]
                return ks[proj[0]["f"]] if proj[0]["f"] < len(ks) else TOP
            if key in env.calls and not proj:
                return env.calls[key]
        # std helpers
        name = f["name"]
        ks0 = callee_keys(f)
        if name == "checked_sub" and len(r["args"]) == 2 and proj and any(isinstance(e, dict) and e.get("as") == "Some" for e in proj):
            # `a.checked_sub(b)` is Some(a - b) exactly when a >= b
            a = kind_of(body, r["args"][0], env, depth + 1, seen)
            b = kind_of(body, r["args"][1], env, depth + 1, seen)
            return combine("Sub", a, b, env)
        if name in ("max",) and len(r["args"]) == 2 and any("cmp::Ord::max" in k or k.endswith("::max") for k in ks0):
            a = kind_of(body, r["args"][0], env, depth + 1, seen)
            b = kind_of(body, r["args"][1], env, depth + 1, seen)
            if a == LAST and b == IDX or a == IDX and b == LAST:
                return LAST
            return TOP
        return TOP
    k = r["k"]
    if k in ("use", "cast"):
        o = r["o"]
        if proj and o.get("k") in ("copy", "move"):
            o = {"k": "copy", "p": {"l": o["p"]["l"], "p": o["p"].get("p", []) + proj}}
        return kind_of(body, o, env, depth + 1, seen)
    if k in ("ref", "copyderef"):
        pl = r["p"]
        if proj:
            pl = {"l": pl["l"], "p": pl.get("p", []) + proj}
        return kind_of(body, {"k": "copy", "p": pl}, env, depth + 1, seen)
    if k == "bin":
        op = r["op"].replace("WithOverflow", "").replace("Unchecked", "")
        if r["op"].endswith("WithOverflow") and not (proj and isinstance(proj[0], dict) and proj[0].get("f") == 0):
            return TOP
        a = kind_of(body, r["a"], env, depth + 1, seen)
        b = kind_of(body, r["b"], env, depth + 1, seen)
        return combine(op, a, b, env)
    return TOP


def combine(op, a, b, env):
    def c(x):
        return isinstance(x, tuple) and x[0] == "const"
    if op == "Add":
        for x, y in ((a, b), (b, a)):
            if x == LAST and c(y) and y[1] == 1:
                return END
            if x == END and y == ITEMS:
                return FRESH
            if x == LAST and y == ITEMS:
                return "BAD:LAST+ITEMS used as a fresh id (aliases the highest captured id); END+ITEMS required"
            if x == IDX and c(y):
                return IDX
            if x == CHUNK_IDX and c(y) and y[1] == 1:
                return CHUNKS
        return TOP
    if op == "Sub":
        if a == IDX and b == END:
            return REL
        if a == IDX and b == LAST:
            return "BAD:IDX-LAST used as an offset into the additional list; IDX-END required"
        if a == ITEMS and c(b):
            return ITEMS
        return TOP
    if op == "Mul":
        for x, y in ((a, b), (b, a)):
            if x == CHUNKS and c(y) and y[1] == env.chunk_const:
                return END
        return TOP
    if op in ("Div",):
        if a == IDX and c(b) and b[1] == env.chunk_const:
            return CHUNK_IDX
        return TOP
    if op in ("Rem",):
        if a == IDX and c(b) and b[1] == env.chunk_const:
            return OFF
        return TOP
    return TOP


# legal comparisons of a cursor/index with a bound:  (kind_a, op, kind_b)
def compare_ok(op, a, b):
    """Returns (ok, why).  Only judges comparisons where one side is a slot index / chunk index."""
    pairs = {
        (IDX, END): {"Ge", "Lt"},            # idx >= end  -> out of range ; idx < end -> in range
        (IDX, LAST): {"Gt", "Le"},
        (END, IDX): {"Le", "Gt"},
        (LAST, IDX): {"Lt", "Ge"},
        (CHUNK_IDX, CHUNKS): {"Ge", "Lt"},
        (CHUNKS, CHUNK_IDX): {"Le", "Gt"},
    }
    if (a, b) in pairs:
        if op in pairs[(a, b)]:
            return True, "%s %s %s" % (a, op, b)
        return False, "%s %s %s is off by one (expected one of %s)" % (a, op, b, sorted(pairs[(a, b)]))
    if IDX in (a, b) and ITEMS in (a, b):
        return False, "a slot index is compared with an item count (%s %s %s)" % (a, op, b)
    if CHUNK_IDX in (a, b) and (ITEMS in (a, b) or END in (a, b) or LAST in (a, b)):
        return False, "a chunk index is compared with %s" % (b if a == CHUNK_IDX else a)
    return None, "not a bound comparison (%s %s %s)" % (a, op, b)
