"""Jump threading over boolean flags (a normalisation of the MIR facts, applied after virtual inlining).

`if a && !b { X }`, `let skip = a || b; if !skip { X }`, `let keep = match o { None => false, Some(v) => p(v) }; if keep { X }` and
`if matches!(v, P) { X }` all reach X under the same conditions, but MIR spells the second, third and fourth through a bool local that is
assigned a constant on some paths and tested at a join block.  Dominance and cut-edge questions ("is X reachable only through the
true edge of a?") have different answers on the two spellings although the programs are the same.  This pass removes the difference:

    P:  _k = const C; goto J          J:  [copies / negations of _k]; switchInt(_k') -> [0: F, otherwise: T]

becomes `P: ...; goto J'` with J' a copy of the (trivial) statements of J followed by `goto T` (or F).  The chain between P and the
deciding switch may be several goto-blocks long (nested `||`); every block of the chain is copied for P, so all other predecessors
keep the original blocks.  Tail duplication for one predecessor is semantics preserving whatever the copied statements are; only
blocks made of assignments `_x = const | copy _y | move _y | Not(_y)` are copied, so nothing a census counts is duplicated.
When the flag is read nowhere outside the copied chain, the constant is stored into a fresh local instead, which leaves the
original flag with the definitions that can still reach J (so that a single remaining definition is seen as such).
Blocks that become unreachable are emptied.  VERIF_NO_THREAD=1 disables the pass."""
import copy

MAX_CHAIN = 8


def _succ(t):
    k = t["k"]
    out = []
    if k == "goto":
        out = [t["t"]]
    elif k == "switch":
        out = [x[1] for x in t["targets"]] + [t["otherwise"]]
    elif k in ("drop", "call", "assert"):
        out = [x for x in (t.get("t"), t.get("u")) if x is not None]
    elif k == "yield":
        out = [x for x in (t.get("resume"), t.get("drop")) if x is not None]
    elif k == "falseedge":
        out = [x for x in (t.get("real"), t.get("imag")) if x is not None]
    elif k == "falseunwind":
        out = [x for x in (t.get("real"), t.get("u")) if x is not None]
    else:
        for key in ("t", "u", "real", "resume", "drop"):
            if isinstance(t.get(key), int):
                out.append(t[key])
    return out


def _reach(blocks):
    seen = {0}
    st = [0]
    while st:
        x = st.pop()
        for y in _succ(blocks[x]["term"]):
            if y not in seen and 0 <= y < len(blocks):
                seen.add(y)
                st.append(y)
    return seen


def _mentions(o, l):
    if isinstance(o, dict):
        if o.get("l") == l and ("k" not in o or o.get("k") in ("live", "dead")) or o.get("idx") == l:
            return True
        return any(_mentions(v, l) for v in o.values())
    if isinstance(o, list):
        return any(_mentions(v, l) for v in o)
    return False


def _reads(blk, l):
    """the block reads local l (anything but a whole-local store, a call result stored into it, or a storage marker)"""
    for s in blk["stmts"]:
        if s["k"] in ("live", "dead"):
            continue
        if s["k"] == "assign":
            if _mentions(s["r"], l) or (s["p"].get("p") and _mentions(s["p"], l)):
                return True
            continue
        if _mentions(s, l):
            return True
    t = blk["term"]
    for k, v in t.items():
        if k == "dest" and isinstance(v, dict) and not v.get("p"):
            continue
        if _mentions(v, l):
            return True
    return False


def _headers(blocks):
    """targets of DFS back edges = loop headers (the CFGs rustc builds are reducible)"""
    color = {}
    heads = set()
    st = [(0, iter(_succ(blocks[0]["term"])))]
    color[0] = 1
    while st:
        x, it = st[-1]
        adv = False
        for y in it:
            if not (0 <= y < len(blocks)):
                continue
            c = color.get(y, 0)
            if c == 1:
                heads.add(y)
            elif c == 0:
                color[y] = 1
                st.append((y, iter(_succ(blocks[y]["term"]))))
                adv = True
                break
        if not adv:
            color[x] = 2
            st.pop()
    return heads


def _bare(o):
    """local of an operand / place without projections, else None"""
    if not isinstance(o, dict):
        return None
    p = o.get("p") if o.get("k") in ("copy", "move") else o
    if isinstance(p, dict) and "l" in p and not p.get("p") and "k" not in p:
        return p["l"]
    return None


def _eval(r, env):
    k = r["k"]
    if k == "use":
        o = r["o"]
        if o.get("k") == "const":
            return o["v"] if o.get("ty") == "bool" and isinstance(o.get("v"), bool) else None
        l = _bare(o)
        return env.get(l) if l is not None else None
    if k == "un" and r.get("op") == "Not":
        o = r["a"]
        if o.get("k") == "const":
            return (not o["v"]) if o.get("ty") == "bool" and isinstance(o.get("v"), bool) else None
        l = _bare(o)
        v = env.get(l) if l is not None else None
        return None if v is None else (not v)
    return None


def _trivial(s):
    if s["k"] in ("live", "dead"):
        return True
    if s["k"] != "assign" or s["p"].get("p"):
        return False
    r = s["r"]
    if r["k"] == "use":
        return r["o"].get("k") == "const" or _bare(r["o"]) is not None
    return r["k"] == "un" and r.get("op") == "Not" and (r["a"].get("k") == "const" or _bare(r["a"]) is not None)


def _step(stmts, env):
    for s in stmts:
        if s["k"] == "dead":
            env.pop(s.get("l"), None)
            continue
        if s["k"] != "assign":
            continue
        dst = s["p"]
        if dst.get("p"):
            env.pop(dst["l"], None)
            continue
        v = _eval(s["r"], env)
        if v is None:
            env.pop(dst["l"], None)
        else:
            env[dst["l"]] = v
        if s["r"]["k"] in ("ref", "rawptr"):
            env.pop(s["r"]["p"].get("l"), None)


def _subst(o, a, b):
    if isinstance(o, dict):
        if o.get("l") == a and ("k" not in o or o.get("k") in ("live", "dead")):
            o["l"] = b
        for v in o.values():
            _subst(v, a, b)
    elif isinstance(o, list):
        for v in o:
            _subst(v, a, b)


def thread_jumps(d):
    blocks = d["blocks"]
    before = _reach(blocks)
    heads = _headers(blocks)
    borrowed = set()        # locals whose address is taken anywhere: their value may change through the reference
    for blk in blocks:
        for s in blk["stmts"]:
            if s["k"] == "assign" and s["r"]["k"] in ("ref", "rawptr") and not [e for e in s["r"]["p"].get("p", []) if e == "*"]:
                borrowed.add(s["r"]["p"].get("l"))
    n_threaded = 0
    for _round in range(6):
        progress = False
        for P in range(len(blocks)):
            blk = blocks[P]
            t = blk["term"]
            if t["k"] != "goto" or blk.get("cleanup"):
                continue
            env = {}
            _step(blk["stmts"], env)
            for l in list(env):
                if l in borrowed:
                    del env[l]
            if not env:
                continue
            cur = t["t"]
            e = dict(env)
            chain = []
            target = None
            seen = {P}
            while len(chain) < MAX_CHAIN and cur not in seen:
                seen.add(cur)
                b2 = blocks[cur]
                if b2.get("cleanup") or cur in heads or not all(_trivial(s) for s in b2["stmts"]):
                    break
                _step(b2["stmts"], e)
                t2 = b2["term"]
                if t2["k"] == "goto":
                    chain.append(cur)
                    cur = t2["t"]
                    continue
                if t2["k"] == "switch" and t2.get("dty") == "bool":
                    l = _bare(t2["d"])
                    if l is not None and l in e:
                        val = 1 if e[l] else 0
                        target = t2["otherwise"]
                        for v, tb in t2["targets"]:
                            if v == val:
                                target = tb
                        chain.append(cur)
                break
            if target is None:
                continue
            # copy the chain for P
            first = len(blocks)
            new = []
            for k, c in enumerate(chain):
                nb = {"stmts": copy.deepcopy(blocks[c]["stmts"]), "term": {"k": "goto", "t": first + k + 1, "line": blocks[c]["term"].get("line")},
                      "threaded_from": c}
                for key in ("file",):
                    if key in blocks[c]:
                        nb[key] = blocks[c][key]
                new.append(nb)
            new[-1]["term"]["t"] = target
            # a flag that lives only inside the chain: store P's constant into a private copy; temporaries computed inside the chain
            # get private copies in the duplicate as well, so that the original locals keep a single definition
            def fresh(l):
                nl = len(d["locals"])
                d["locals"].append(copy.deepcopy(d["locals"][l]))
                if isinstance(d["locals"][nl], dict):
                    d["locals"][nl]["threaded_copy_of"] = l
                return nl
            for fl in list(env):
                outside = any(_reads(blocks[i], fl) for i in range(len(blocks)) if i not in chain and i != P)
                inside_p_reads = any(_mentions(s["r"], fl) for s in blk["stmts"] if s["k"] == "assign")
                if outside or inside_p_reads or fl <= d.get("arg_count", 0) or fl == 0:
                    continue
                nl = fresh(fl)
                for s in blk["stmts"]:
                    if s["k"] == "assign" and not s["p"].get("p") and s["p"]["l"] == fl:
                        s["p"]["l"] = nl
                    elif s["k"] in ("live", "dead") and s.get("l") == fl:
                        s["l"] = nl
                for nb in new:
                    _subst(nb["stmts"], fl, nl)
            temps = []
            for c in chain:
                for s in blocks[c]["stmts"]:
                    if s["k"] == "assign" and not s["p"].get("p") and s["p"]["l"] not in temps and s["p"]["l"] not in env:
                        temps.append(s["p"]["l"])
            for tl in temps:
                if tl <= d.get("arg_count", 0) or any(_reads(blocks[i], tl) for i in range(len(blocks)) if i not in chain):
                    continue
                nl = fresh(tl)
                for nb in new:
                    _subst(nb["stmts"], tl, nl)
            blocks.extend(new)
            t["t"] = first
            n_threaded += 1
            progress = True
        if not progress:
            break
    if n_threaded:
        after = _reach(blocks)
        for i in before - after:
            blocks[i] = {"stmts": [], "term": {"k": "unreachable", "line": blocks[i]["term"].get("line")}, "threaded_dead": True}
        d["threaded"] = n_threaded
    return n_threaded
