"""Virtual inlining of helper functions that are not part of the reviewed function census.

The rules are anchored in functions by name; the set of function names that existed when the rules were written and reviewed is
frozen in rules/known_functions.json.  A function of a workspace library crate that is *not* in that census (a helper that was
extracted later) is transparent: its MIR is spliced into every direct call site inside the same crate, its body disappears from
the crate's body list and its closures are re-parented to the (first) caller.  After that an "extract function" refactoring and
the original code give the rules the same view, and a property-breaking edit cannot hide behind a new helper either.

Not inlined: async fns and closures (their callers only build a coroutine/closure value), recursive helpers, helpers reached only
through function pointers, and anything in crates without a census entry.
"""
import copy

BLOCK_KEYS = ("t", "u", "otherwise", "real", "imag", "resume", "drop", "cordrop")


def _is_place(d):
    return isinstance(d.get("l"), int) and set(d.keys()) <= {"l", "p", "ty"}


def _shift(obj, lo):
    """Deep copy of a statement / operand / rvalue structure with every local index shifted by lo."""
    if isinstance(obj, dict):
        if _is_place(obj) or (obj.get("k") in ("dead", "live") and isinstance(obj.get("l"), int)):
            out = {}
            for k, v in obj.items():
                if k == "l":
                    out[k] = v + lo
                elif k == "p":
                    out[k] = [({**e, "idx": e["idx"] + lo} if isinstance(e, dict) and "idx" in e else copy.deepcopy(e)) for e in v]
                else:
                    out[k] = copy.deepcopy(v)
            return out
        return {k: _shift(v, lo) for k, v in obj.items()}
    if isinstance(obj, list):
        return [_shift(v, lo) for v in obj]
    return obj


def _shift_term(t, lo, bo):
    out = {}
    for k, v in t.items():
        if k in BLOCK_KEYS and isinstance(v, int):
            out[k] = v + bo
        elif k == "targets":
            out[k] = [[x[0], x[1] + bo] for x in v]
        elif k in ("f",):
            out[k] = copy.deepcopy(v)
        else:
            out[k] = _shift(v, lo)
    return out


def _strip(p):
    from facts import strip_generics
    return strip_generics(p)


def _callee_keys(f):
    ks = [_strip(f["path"])]
    if f.get("resolved"):
        ks.append(_strip(f["resolved"]))
    return ks


def inline_unknown(bodies, known, log=None):
    """bodies: list of body dicts of one crate; known: set of reviewed function keys.  Returns the new list of body dicts."""
    by_key = {}
    for b in bodies:
        by_key.setdefault(_strip(b["path"]), b)
    unknown = {}
    for b in bodies:
        k = _strip(b["path"])
        if b["kind"] in ("Fn", "AssocFn") and k not in known and not b.get("coroutine") \
                and "::promoted[" not in k and "::{constant" not in k and "{impl#" not in k.split("::")[-1]:
            if _returns_coroutine(b):
                continue
            unknown[k] = b
    if not unknown:
        return bodies
    recursive = set()
    done = {}          # key -> fully expanded helper body dict
    inlined_into = {}  # helper key -> first caller path
    inlined_all = {}   # helper key -> every caller path it was spliced into

    def expand(b, stack):
        """Inline unknown helpers into body dict b (in place on a copy); returns the new dict."""
        b = copy.deepcopy(b)
        i = 0
        guard = 0
        while i < len(b["blocks"]):
            t = b["blocks"][i]["term"]
            tgt = None
            if t["k"] == "call" and t.get("f") and not b["blocks"][i].get("cleanup"):
                for ck in _callee_keys(t["f"]):
                    if ck in unknown and ck not in stack:
                        tgt = ck
                        break
            if tgt is None or guard > 200:
                i += 1
                continue
            guard += 1
            if tgt not in done:
                done[tgt] = expand(unknown[tgt], stack | {tgt})
                # a helper that (still) calls itself is recursive: it stays a function of its own
                for blk in done[tgt]["blocks"]:
                    tt = blk["term"]
                    if tt["k"] == "call" and tt.get("f") and tgt in _callee_keys(tt["f"]):
                        recursive.add(tgt)
            if tgt in recursive:
                i += 1
                continue
            g = done[tgt]
            if len(t["args"]) != g["arg_count"] or len(b["blocks"]) + len(g["blocks"]) > 4000:
                i += 1
                continue
            _splice(b, i, g)
            inlined_into.setdefault(tgt, b["path"])
            if b["path"] not in inlined_all.setdefault(tgt, []):
                inlined_all[tgt].append(b["path"])
            if log is not None:
                log.append((tgt, _strip(b["path"])))
            # do not advance: the block now ends in a goto; continue with the next block
            i += 1
        return b

    out = []
    for b in bodies:
        k = _strip(b["path"])
        if k in unknown:
            continue
        out.append(expand(b, frozenset()))
    # helpers that nobody called directly stay visible as bodies (e.g. new public API)
    for k, b in unknown.items():
        if k not in inlined_into:
            out.append(expand(b, frozenset({k})))
    # closures / promoteds of inlined helpers: re-parent to the first caller; a helper spliced into several callers donates a copy
    # of its closures to each of them (as if the code had been written out in every caller)
    extra = []
    for b in out:
        r = b.get("root")
        if r and _strip(r) in inlined_all and len(inlined_all[_strip(r)]) > 1:
            for caller in inlined_all[_strip(r)][1:]:
                cb = by_key.get(_strip(caller))
                # only for callers that are functions of their own (a caller that was itself inlined has passed the helper on)
                if cb is None or _strip(caller) in unknown:
                    continue
                c2 = copy.deepcopy(b)
                c2["root_original"] = r
                c2["root"] = cb.get("root") or caller
                pp = c2.get("parent")
                if pp and _strip(pp) == _strip(r):
                    c2["parent_original"] = pp
                    c2["parent"] = caller
                c2["inl_copy"] = True
                extra.append(c2)
    for b in out:
        r = b.get("root")
        if r and _strip(r) in inlined_into:
            caller = inlined_into[_strip(r)]
            cb = by_key.get(_strip(caller))
            b["root_original"] = r
            b["root"] = (cb.get("root") or caller) if cb is not None else caller
        # a closure written directly in the helper was, before the extraction, a closure of the caller
        pp = b.get("parent")
        if pp and _strip(pp) in inlined_into:
            b["parent_original"] = pp
            b["parent"] = inlined_into[_strip(pp)]
    return out + extra


def _returns_coroutine(b):
    ty = b["locals"][0]["ty"] if b.get("locals") else ""
    return "{async" in ty or "{closure" in ty and "coroutine" in ty.lower() or "impl std::future::Future" in ty or "{async fn body" in ty


def _splice(b, bb, g):
    """Replace the call terminating block bb of body dict b by the blocks of helper g."""
    call = b["blocks"][bb]["term"]
    lo = len(b["locals"])
    bo = len(b["blocks"])
    line = call.get("line")
    for l in g["locals"]:
        b["locals"].append(copy.deepcopy(l))
    # argument passing
    for k, a in enumerate(call["args"]):
        b["blocks"][bb]["stmts"].append({"k": "assign", "p": {"l": lo + 1 + k}, "r": {"k": "use", "o": copy.deepcopy(a)}, "line": line,
                                         "inl": "arg"})
    cont = call.get("t")
    unw = call.get("u")
    caller_cleanup = bool(b["blocks"][bb].get("cleanup"))
    for gb in g["blocks"]:
        nb = {"stmts": [_shift(s, lo) for s in gb["stmts"]], "term": _shift_term(gb["term"], lo, bo)}
        if gb.get("cleanup") or caller_cleanup:
            nb["cleanup"] = True
        nb["file"] = gb.get("file") or g.get("file")
        nb["inl_from"] = _strip(g["path"])
        tk = nb["term"]["k"]
        if tk == "return":
            nb["stmts"].append({"k": "assign", "p": copy.deepcopy(call["dest"]), "r": {"k": "use", "o": {"k": "move", "p": {"l": lo}}},
                                "line": line, "inl": "ret"})
            if cont is None:
                nb["term"] = {"k": "unreachable", "line": line}
            else:
                nb["term"] = {"k": "goto", "t": cont, "line": line}
        elif tk == "resume":
            if isinstance(unw, int):
                nb["term"] = {"k": "goto", "t": unw, "line": line}
        b["blocks"].append(nb)
    b["blocks"][bb]["term"] = {"k": "goto", "t": bo, "line": line, "inlined": _strip(g["path"]), "inlined_call": call}
    b.setdefault("inlined", []).append(_strip(g["path"]))
    b.setdefault("inl_rets", []).append(lo)
    for x in g.get("inl_rets", []):
        b["inl_rets"].append(x + lo)


def view(crate, key, helper_keys):
    """Body of function `key` with the named (reviewed) helpers spliced in at their direct call sites - the form a rule is written
    against when it must hold no matter whether the helper exists as a function or was inlined by hand.  Returns None if `key`
    has no body; returns the plain body when none of the helpers exists any more."""
    from facts import Body
    cache = crate.__dict__.setdefault("_views", {})
    ck = (key, tuple(helper_keys))
    if ck in cache:
        return cache[ck]
    base = None
    for b in crate.bodies:
        if b.key == key:
            base = b
            break
    if base is None:
        cache[ck] = None
        return None
    helpers = {}
    for b in crate.bodies:
        if b.key in helper_keys and b.kind in ("Fn", "AssocFn"):
            helpers.setdefault(b.key, b.d)
    if not helpers:
        cache[ck] = base
        return base
    d = copy.deepcopy(base.d)
    changed = False
    for _ in range(4):
        hit = False
        for i in range(len(d["blocks"])):
            t = d["blocks"][i]["term"]
            if t["k"] == "call" and t.get("f") and not d["blocks"][i].get("cleanup"):
                for ck2 in _callee_keys(t["f"]):
                    g = helpers.get(ck2)
                    if g is not None and len(t["args"]) == g["arg_count"]:
                        _splice(d, i, g)
                        hit = changed = True
                        break
        if not hit:
            break
    out = Body(d, crate) if changed else base
    cache[ck] = out
    return out
