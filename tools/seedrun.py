#!/usr/bin/env python3
"""Run the registered check of a property against sub-agent seeded mutants (scratch copies only).
usage: tools/seedrun.py ID [dir]   - dir defaults to /tmp/seed/ID/OUT ; also accepts /verif/seeded/*"""
import sys, os, glob, subprocess, shutil
V = os.path.dirname(os.path.dirname(os.path.abspath(__file__)))
sys.path.insert(0, os.path.join(V, "lib"))
import selftest, gen
pid = sys.argv[1]
d = sys.argv[2] if len(sys.argv) > 2 else "/tmp/seed/%s/OUT" % pid
props = sys.argv[3:] or [pid]
for m in sorted(glob.glob(os.path.join(d, "mutant_*.diff")) + glob.glob(os.path.join(d, "patch.diff"))):
    sc = selftest.make_scratch(15, m)
    try:
        for p in props:
            r = subprocess.run([sys.executable, os.path.join(V, "check"), p, "--repo", sc, "--no-evidence", "--list"],
                               stdout=subprocess.PIPE, stderr=subprocess.STDOUT, text=True, cwd=V)
            fails = [l for l in r.stdout.split("\n") if l.startswith("  FAIL")]
            print("== %s vs %s: exit %d, %d failing obligations" % (os.path.basename(m), p, r.returncode, len(fails)))
            for l in fails[:8]:
                print("   ", l.strip()[:260])
            if r.returncode == 2:
                print(r.stdout[-1500:])
    finally:
        shutil.rmtree(sc, ignore_errors=True)
