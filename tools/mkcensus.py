#!/usr/bin/env python3
"""Freeze the reviewed function census (rules/known_functions.json): the function names that existed in /repo when the rules
were written and reviewed.  Functions that appear later are treated as transparent helpers (lib/inline.py).
Run only on the reviewed tree:  tools/mkcensus.py"""
import sys, os, json, glob
V = os.path.dirname(os.path.dirname(os.path.abspath(__file__)))
sys.path[:0] = [os.path.join(V, "lib")]
import gen
from facts import strip_generics
out = {}
callers = {}
adts = {}
free_fns = {}
sigs = {}
for cfg in ("cfgA", "cfgB", "cfgC", "cfgE"):
    d = gen.generate(cfg, "/repo")
    for f in sorted(glob.glob(os.path.join(d, "*.json"))):
        base = os.path.basename(f)
        if base in ("META.json", "cxx.json") or len(base.split(".")) != 4:
            continue
        name = base.split(".")[0]
        if name == "build_script_build":
            continue
        j = json.loads(open(f).read().replace("crate::", name + "::"))
        s = out.setdefault(name, set())
        for b in j["bodies"]:
            if b["kind"] in ("Fn", "AssocFn"):
                s.add(strip_generics(b["path"]))
        adts.setdefault(name, set()).update(a["path"] for a in j["adts"] if a["path"].startswith(name + "::"))
        free_fns.setdefault(name, set()).update(strip_generics(b["path"]) for b in j["bodies"] if b["kind"] == "Fn")
        for b in j["bodies"]:
            if b["kind"] in ("Fn", "AssocFn") and b.get("sig"):
                sigs.setdefault(name, {})[strip_generics(b["path"])] = "(%s) -> %s" % (", ".join(b["sig"]["inputs"]), b["sig"]["output"])
        keys = {strip_generics(b["path"]) for b in j["bodies"] if b["kind"] in ("Fn", "AssocFn")}
        cm = callers.setdefault(name, {})
        for b in j["bodies"]:
            owner = strip_generics(b.get("root") or b["path"]) if b["kind"] in ("Closure",) else strip_generics(b["path"])
            if b["kind"] not in ("Fn", "AssocFn", "Closure"):
                continue
            for blk in b["blocks"]:
                t = blk["term"]
                if t["k"] == "call" and t.get("f"):
                    for ck in {strip_generics(t["f"]["path"])} | ({strip_generics(t["f"]["resolved"])} if t["f"].get("resolved") else set()):
                        if ck in keys and ck != owner:
                            cm.setdefault(ck, set()).add(owner)
json.dump({k: sorted(v) for k, v in sorted(out.items())}, open(os.path.join(V, "rules", "known_functions.json"), "w"), indent=0)
json.dump({"adts": {k: sorted(v) for k, v in sorted(adts.items())}, "free_fns": {k: sorted(v) for k, v in sorted(free_fns.items())},
           "sigs": {k: dict(sorted(v.items())) for k, v in sorted(sigs.items())}},
          open(os.path.join(V, "rules", "known_items.json"), "w"), indent=0)
json.dump({c: {k: sorted(v) for k, v in sorted(m.items())} for c, m in sorted(callers.items())},
          open(os.path.join(V, "rules", "known_callers.json"), "w"), indent=0)
print({k: len(v) for k, v in out.items()})
