#!/usr/bin/env python3
"""Author a self-test mutant: tools/mkmut.py NAME PROP --expect 'rule|fn|inst' --note '...' \
      --edit FILE OLD NEW [--edit FILE OLD NEW ...]     (OLD must occur exactly once in /repo/FILE)"""
import sys, os, difflib, argparse
V = os.path.dirname(os.path.dirname(os.path.abspath(__file__)))
ap = argparse.ArgumentParser()
ap.add_argument("name"); ap.add_argument("prop")
ap.add_argument("--expect", action="append", default=[])
ap.add_argument("--note", default="")
ap.add_argument("--edit", nargs=3, action="append", default=[])
ap.add_argument("--dir", default="mutants")
ap.add_argument("--repo", default="/repo")
a = ap.parse_args()
by_file = {}
for f, old, new in a.edit:
    cur = by_file.get(f)
    if cur is None:
        cur = open(os.path.join(a.repo, f)).read()
    old = old.encode().decode("unicode_escape") if "\\n" in old else old
    new = new.encode().decode("unicode_escape") if "\\n" in new else new
    if cur.count(old) != 1:
        sys.exit("edit target occurs %d times in %s: %r" % (cur.count(old), f, old[:80]))
    by_file[f] = cur.replace(old, new)
out = ["# property: %s\n" % a.prop] + ["# expect: %s\n" % e for e in a.expect] + ["# note: %s\n" % a.note]
for f, new in by_file.items():
    old = open(os.path.join(a.repo, f)).read()
    out += list(difflib.unified_diff(old.splitlines(True), new.splitlines(True), "a/" + f, "b/" + f))
p = os.path.join(V, a.dir, a.name + ".patch")
os.makedirs(os.path.dirname(p), exist_ok=True)
open(p, "w").write("".join(out))
print("wrote", p)
