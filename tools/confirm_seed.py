#!/usr/bin/env python3
"""Confirm sub-agent seeded mutants in a scratch git worktree of /repo and store the confirmed ones
under /verif/seeded/<ID>-<i>/ (patch.diff, demo.diff, meta.json).
usage: tools/confirm_seed.py ID [ID ...]"""
import sys, os, glob, subprocess, shutil, json, re, time
V = os.path.dirname(os.path.dirname(os.path.abspath(__file__)))
BASE = "/tmp/confirm"
TARGET = os.path.join(BASE, "target")

def sh(cmd, cwd, timeout=1800):
    env = dict(os.environ, CARGO_TARGET_DIR=TARGET, CARGO_NET_OFFLINE="true")
    r = subprocess.run(cmd, cwd=cwd, shell=True, stdout=subprocess.PIPE, stderr=subprocess.STDOUT, text=True, env=env, timeout=timeout)
    return r.returncode, r.stdout

def counts(out):
    p = sum(int(x) for x in re.findall(r"test result: \w+\. (\d+) passed", out))
    f = sum(int(x) for x in re.findall(r"test result: \w+\. \d+ passed; (\d+) failed", out))
    return p, f

def demo_cmd(demo):
    txt = open(demo).read()
    files = re.findall(r"^\+\+\+ b/(\S+)", txt, re.M)
    names = re.findall(r"^\+\s*(?:async )?fn (seed_demo\w*|\w*seed\w*)\(", txt, re.M)
    cmds = []
    for f in files:
        if f.startswith("cpp/tests/") and f.endswith(".rs"):
            cmds.append("cargo test --offline -p resolvo_cpp --test %s" % os.path.basename(f)[:-3])
        elif f.startswith("cpp/src/seed_demo"):
            cmds.append("cargo test --offline -p resolvo_cpp seed_demo")
        elif f.startswith("cpp/tests/") and f.endswith(".cpp"):
            # a C++ demonstration: built with ASan against the static library of the binding crate
            exe = "$CARGO_TARGET_DIR/" + os.path.basename(f)[:-4]
            cmds.append("cargo build -p resolvo_cpp --offline && clang++ -std=c++17 -g -fsanitize=address -Icpp/include "
                        "-I\"$(ls -d $CARGO_TARGET_DIR/debug/build/resolvo_cpp-*/out/generated_include | head -1)\" "
                        "%s $CARGO_TARGET_DIR/debug/libresolvo_cpp.a -lpthread -ldl -lm -o %s && ASAN_OPTIONS=max_free_fill_size=4096 %s && echo 'test result: ok. 1 passed; 0 failed'" % (f, exe, exe))
        elif f.startswith("cpp/"):
            continue
        elif f == "tests/solver.rs":
            flt = names[0] if names else "seed_demo"
            cmds.append("cargo test --offline -p resolvo --features serde --test solver %s" % ("seed_demo" if len(names) != 1 else flt))
        elif f.startswith("tests/"):
            cmds.append("cargo test --offline -p resolvo --features serde --test %s" % os.path.basename(f)[:-3])
    cmds = list(dict.fromkeys(cmds))
    return " && ".join(cmds) or "cargo test --offline seed_demo"

def main():
    os.makedirs(BASE, exist_ok=True)
    for pid in sys.argv[1:]:
        out = "/tmp/seed/%s/OUT" % pid
        for m in sorted(glob.glob(os.path.join(out, "mutant_*.diff"))):
            i = re.search(r"mutant_(\d+)", m).group(1)
            demo = os.path.join(out, "demo_%s.diff" % i)
            wt = os.path.join(BASE, "%s_%s" % (pid, i))
            subprocess.run("git -C /repo worktree remove --force %s" % wt, shell=True, capture_output=True)
            shutil.rmtree(wt, ignore_errors=True)
            subprocess.check_call("git -C /repo worktree add -q --detach %s HEAD" % wt, shell=True)
            meta = {"property": pid, "mutant": os.path.basename(m), "repo_head": subprocess.check_output("git -C /repo rev-parse --short HEAD", shell=True, text=True).strip(), "steps": []}
            try:
                rc, o = sh("git apply %s || patch -p1 --no-backup-if-mismatch -s -i %s" % (m, m), wt); meta["steps"].append({"cmd": "git apply mutant (fallback: patch -p1)", "rc": rc})
                if rc != 0:
                    raise RuntimeError("mutant does not apply: " + o[-300:])
                rc, o = sh("cargo test --workspace --no-fail-fast --offline", wt)
                p, f = counts(o)
                meta["steps"].append({"cmd": "cargo test --workspace --no-fail-fast --offline (mutant applied)", "rc": rc, "passed": p, "failed": f})
                suite_ok = rc == 0 and p == 57 and f == 0
                rc, o = sh("git apply %s" % demo, wt); meta["steps"].append({"cmd": "git apply demo", "rc": rc})
                dc = demo_cmd(demo)
                rc1, o1 = sh(dc, wt)
                p1, f1 = counts(o1)
                meta["steps"].append({"cmd": dc + " (mutant applied)", "rc": rc1, "passed": p1, "failed": f1, "tail": o1[-600:]})
                sh("git apply -R %s || patch -R -p1 --no-backup-if-mismatch -s -i %s" % (m, m), wt)
                rc2, o2 = sh(dc, wt)
                p2, f2 = counts(o2)
                meta["steps"].append({"cmd": dc + " (mutant reverted)", "rc": rc2, "passed": p2, "failed": f2})
                meta["confirmed"] = bool(suite_ok and rc1 != 0 and rc2 == 0 and p2 > 0)
            except Exception as e:
                meta["confirmed"] = False
                meta["error"] = str(e)
            finally:
                subprocess.run("git -C /repo worktree remove --force %s" % wt, shell=True, capture_output=True)
                shutil.rmtree(wt, ignore_errors=True)
            dst = os.path.join(V, "seeded", "%s-%s" % (pid, i))
            if meta["confirmed"]:
                os.makedirs(dst, exist_ok=True)
                shutil.copy(m, os.path.join(dst, "patch.diff"))
                shutil.copy(demo, os.path.join(dst, "demo.diff"))
                readme = os.path.join(out, "README.md")
                if os.path.exists(readme):
                    shutil.copy(readme, os.path.join(dst, "AGENT_README.md"))
                old = {}
                if os.path.exists(os.path.join(dst, "meta.json")):
                    old = json.load(open(os.path.join(dst, "meta.json")))
                old.update(meta)
                json.dump(old, open(os.path.join(dst, "meta.json"), "w"), indent=1)
            print("%s-%s confirmed=%s %s" % (pid, i, meta["confirmed"], [(s.get("rc"), s.get("passed"), s.get("failed")) for s in meta["steps"]]), flush=True)
    shutil.rmtree(TARGET, ignore_errors=True)

main()
