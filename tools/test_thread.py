#!/usr/bin/env python3
"""Unit test of lib/thread.py on hand-built bodies: `k = a || b; if k {X}` is threaded so that X is reached from the true side of
`a` directly, the false/unknown side still goes through the join, and a flag that is read after the join is not renamed."""
import sys, os, copy
V = os.path.dirname(os.path.dirname(os.path.abspath(__file__)))
sys.path.insert(0, os.path.join(V, "lib"))
import thread

def loc(l): return {"l": l}
def cp(l): return {"k": "copy", "p": loc(l)}
def cst(v): return {"k": "const", "ty": "bool", "v": v}
def asg(l, r): return {"k": "assign", "p": loc(l), "r": r, "line": 1}
def use(o): return {"k": "use", "o": o}
def sw(l, f, t): return {"k": "switch", "d": {"k": "move", "p": loc(l)}, "dty": "bool", "targets": [[0, f]], "otherwise": t, "line": 1}
def goto(t): return {"k": "goto", "t": t, "line": 1}

def body(read_after):
    # _1 = a (arg), _2 = b (arg), _3 = k, _4 = temp
    blocks = [
        {"stmts": [], "term": sw(1, 2, 1)},                                   # 0: if a
        {"stmts": [asg(3, use(cst(True)))], "term": goto(4)},                 # 1: k = true
        {"stmts": [asg(3, use(cp(2)))], "term": goto(4)},                     # 2: k = b
        {"stmts": [], "term": {"k": "unreachable", "line": 1}},               # 3
        {"stmts": [asg(4, use(cp(3)))], "term": sw(4, 6, 5)},                 # 4: join: if k
        {"stmts": [], "term": {"k": "call", "f": {"name": "X", "path": "X"}, "args": [], "dest": loc(0), "t": 6, "line": 1}},  # 5: X
        {"stmts": ([asg(5, use(cp(3)))] if read_after else []), "term": {"k": "return", "line": 1}},   # 6
    ]
    return {"blocks": blocks, "locals": [{"ty": "()"}, {"ty": "bool"}, {"ty": "bool"}, {"ty": "bool"}, {"ty": "bool"}, {"ty": "bool"}], "arg_count": 2}

for ra in (False, True):
    d = body(ra)
    n = thread.thread_jumps(d)
    assert n == 1, n
    b = d["blocks"]
    first = b[1]["term"]["t"]
    assert first >= 7 and b[first]["term"] == {"k": "goto", "t": 5, "line": 1}, b[first]
    assert b[2]["term"]["t"] == 4 and b[4]["term"]["k"] == "switch"
    k_defs = [i for i, blk in enumerate(b) for s in blk["stmts"] if s["k"] == "assign" and s["p"]["l"] == 3]
    assert k_defs == ([1, 2] if ra else [2]), (ra, k_defs)
    t_defs = [i for i, blk in enumerate(b) for s in blk["stmts"] if s["k"] == "assign" and s["p"]["l"] == 4]
    assert t_defs == [4], t_defs
# a flag whose address is taken is left alone
d = body(False)
d["blocks"][0]["stmts"].append({"k": "assign", "p": loc(5), "r": {"k": "ref", "bk": "mut", "p": loc(3)}, "line": 1})
assert thread.thread_jumps(d) == 0
# a join that is a loop header is left alone
d = body(False)
d["blocks"][5]["term"]["t"] = 4
assert thread.thread_jumps(d) == 0
print("thread.py: ok")
