#!/usr/bin/env python3
"""False-alarm test: apply each behaviour-preserving refactoring (/verif/benign/refactor_*.diff) to a scratch copy of /repo and
run every registered check; any VIOLATION (other than listed known findings) is a false alarm of the rule that fired."""
import sys, os, glob, json, subprocess, shutil
V = os.path.dirname(os.path.dirname(os.path.abspath(__file__)))
sys.path.insert(0, os.path.join(V, "lib"))
import selftest, gen
props = [c["property_id"] for c in json.load(open(os.path.join(V, "MANIFEST.json")))["checks"]]
extra = [p for p in ("C07", "C08", "C14") if p not in props and os.path.exists(os.path.join(V, "rules", p.lower() + ".py"))]
props += extra
only = sys.argv[1:]
total = 0
alarms = []
for d in sorted(glob.glob(os.path.join(V, "benign", "refactor_*.diff")), key=lambda x: int(x.split("_")[-1].split(".")[0])):
    if only and os.path.basename(d) not in only and os.path.basename(d)[:-5].split("_")[-1] not in only:
        continue
    try:
        sc = selftest.make_scratch(int(os.environ.get("BENIGN_SLOT", "12")), d)
    except gen.CheckerError as e:
        print(os.path.basename(d), "does not apply:", str(e).split("\n")[0][:100])
        continue
    try:
        for p in props:
            r = subprocess.run([sys.executable, os.path.join(V, "check"), p, "--repo", sc, "--no-evidence", "--list"],
                               stdout=subprocess.PIPE, stderr=subprocess.STDOUT, text=True, cwd=V)
            total += 1
            if r.returncode != 0:
                fails = [l.strip() for l in r.stdout.split("\n") if l.startswith("  FAIL") and "two-watch-distinct" not in l]
                alarms.append((os.path.basename(d), p, r.returncode, fails))
                print("ALARM", os.path.basename(d), p, "exit", r.returncode)
                for f in fails[:4]:
                    print("     ", f[:230])
                if r.returncode == 2:
                    print(r.stdout[-800:])
        print(os.path.basename(d), "done", flush=True)
    finally:
        shutil.rmtree(sc, ignore_errors=True)
print("%d check runs, %d alarms" % (total, len(alarms)))
