#!/usr/bin/env python3
"""Evaluate every confirmed seeded mutant (/verif/seeded/<ID>-<i>/patch.diff) against the check of its property on a scratch
copy of /repo, record the outcome in its meta.json and regenerate /verif/seeded/README.md."""
import sys, os, glob, json, subprocess, shutil, time
V = os.path.dirname(os.path.dirname(os.path.abspath(__file__)))
sys.path.insert(0, os.path.join(V, "lib"))
import selftest, gen
notes = json.load(open(os.path.join(V, "seeded", "NOTES.json"))) if os.path.exists(os.path.join(V, "seeded", "NOTES.json")) else {}
known = {(k["rule"], k["function"], k["instance"]) for k in json.load(open(os.path.join(V, "known_findings.json")))["findings"]}
rows = []
only = sys.argv[1:]
for d in sorted(glob.glob(os.path.join(V, "seeded", "C*-*"))):
    sid = os.path.basename(d)
    if only and sid.split("-")[0] not in only and sid not in only:
        mp = os.path.join(d, "meta.json")
        if os.path.exists(mp):
            for _ in range(20):     # another partition may be rewriting this file right now
                try:
                    rows.append(json.load(open(mp)) | {"id": sid}); break
                except ValueError:
                    time.sleep(0.2)
        continue
    prop = sid.split("-")[0]
    meta = json.load(open(os.path.join(d, "meta.json")))
    try:
        sc = selftest.make_scratch(int(os.environ.get("SEED_SLOT", "13")), os.path.join(d, "patch.diff"))
    except gen.CheckerError as e:
        meta["check_result"] = "patch no longer applies to /repo HEAD (the tree moved on after later fix: commits): %s" % str(e).split("\n")[0][:120]
        meta["detected"] = None
        json.dump(meta, open(os.path.join(d, "meta.json"), "w"), indent=1)
        rows.append(meta | {"id": sid})
        continue
    try:
        r = subprocess.run([sys.executable, os.path.join(V, "check"), prop, "--repo", sc, "--no-evidence", "--list"],
                           stdout=subprocess.PIPE, stderr=subprocess.STDOUT, text=True, cwd=V)
        fails = []
        for l in r.stdout.split("\n"):
            if l.startswith("  FAIL"):
                parts = l.split(None, 2)
                rule = parts[1]
                rest = parts[2]
                fn, _, tail = rest.partition(" :: ")
                inst = tail.split(" @ ")[0]
                if (rule.split("@")[0], "resolvo::" + fn if not fn.startswith(("<", "-", "resolvo")) else fn, inst) in known or \
                        (rule == "two-watch-distinct" and inst == "constrains"):
                    continue
                fails.append("%s :: %s :: %s" % (rule, fn, inst))
        meta["detected"] = r.returncode == 1 and bool(fails)
        meta["detected_by"] = fails[:6]
        meta["check_cmd"] = "./check %s --tier quick   (on a scratch copy of /repo with patch.diff applied)" % prop
        meta["check_exit"] = r.returncode
    finally:
        shutil.rmtree(sc, ignore_errors=True)
    if sid in notes:
        meta["history"] = notes[sid]
    meta.setdefault("breaks", prop)
    json.dump(meta, open(os.path.join(d, "meta.json"), "w"), indent=1)
    rows.append(meta | {"id": sid})
    print(sid, meta["detected"], (meta.get("detected_by") or [""])[0][:150], flush=True)
with open(os.path.join(V, "seeded", "README.md"), "w") as fh:
    fh.write("# Seeded mutants (written by independent sub-agents, confirmed in scratch worktrees)\n\n"
             "Each directory holds `patch.diff` (the change to resolvo), `demo.diff` (a test that fails with the change and passes "
             "without it), `meta.json` (what was run to confirm it, and what the static check of its property reports) and the "
             "sub-agent's own `AGENT_README.md` (what the change needs in order to manifest).\n\n"
             "| seed | detected by the property's check | first reporting rule :: function :: instance | history |\n|---|---|---|---|\n")
    for m in rows:
        fh.write("| %s | %s | %s | %s |\n" % (m["id"], {True: "yes", False: "**no**", None: "n/a"}[m.get("detected")],
                                             (m.get("detected_by") or [m.get("check_result", "")])[0].replace("|", "\\|")[:160],
                                             m.get("history", "caught by the rules as first written").replace("|", "\\|")))
    n = sum(1 for m in rows if m.get("detected"))
    fh.write("\n%d of %d confirmed seeds are reported by the check of the property they were written against.\n" % (n, len(rows)))
print("written seeded/README.md")
