#!/usr/bin/env python3
"""Debug aid: apply one self-test mutant to a scratch copy and print the failing obligations (or all with --list)."""
import sys, os, subprocess, shutil
V = os.path.dirname(os.path.dirname(os.path.abspath(__file__)))
sys.path.insert(0, os.path.join(V, "lib"))
import selftest
name = sys.argv[1]
m = selftest.parse(os.path.join(V, "mutants", name + ".patch"))
sc = selftest.make_scratch(14, m["path"])
try:
    r = subprocess.run([sys.executable, os.path.join(V, "check"), sys.argv[2] if len(sys.argv) > 2 and sys.argv[2].startswith("C") else m["property"], "--repo", sc, "--no-evidence", "--list"],
                       stdout=subprocess.PIPE, stderr=subprocess.STDOUT, text=True, cwd=V)
    for l in r.stdout.split("\n"):
        if "--list" in sys.argv or not l.startswith("  ok"):
            print(l[:300])
finally:
    if "--keep" not in sys.argv:
        shutil.rmtree(sc, ignore_errors=True)
    else:
        print("kept", sc)
