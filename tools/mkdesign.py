#!/usr/bin/env python3
"""Refreshes the generated blocks of DESIGN.md (between <!-- X-BEGIN --> / <!-- X-END --> markers):
RULES = the docstrings of rules/cXX.py (rules as built), SEEDS = table of seeded mutants, MUTANTS = self-test mutant census."""
import os, re, glob, json, ast
V = os.path.dirname(os.path.dirname(os.path.abspath(__file__)))
p = os.path.join(V, "DESIGN.md")
s = open(p).read()

def block(name, text):
    global s
    b, e = "<!-- %s-BEGIN -->" % name, "<!-- %s-END -->" % name
    if b not in s:
        return
    i, j = s.index(b) + len(b), s.index(e)
    s = s[:i] + "\n" + text.rstrip("\n") + "\n" + s[j:]

rules = []
for f in sorted(glob.glob(os.path.join(V, "rules", "c[0-9][0-9].py"))):
    doc = ast.get_docstring(ast.parse(open(f).read())) or ""
    rules.append("#### %s (`rules/%s`)\n\n```\n%s\n```\n" % (os.path.basename(f)[:-3].upper(), os.path.basename(f), doc))
block("RULES", "\n".join(rules))

rows = []
for d in sorted(glob.glob(os.path.join(V, "seeded", "C*-*"))):
    m = json.load(open(os.path.join(d, "meta.json")))
    sid = os.path.basename(d)
    rows.append("| %s | %s | %s | %s |" % (sid, {True: "yes", False: "**no**", None: "n/a"}[m.get("detected")],
                ((m.get("detected_by") or [m.get("check_result", "")])[0]).replace("|", "\\|")[:150],
                m.get("history", "reported by the rules as first written").replace("|", "\\|")))
n = sum(1 for d in glob.glob(os.path.join(V, "seeded", "C*-*")) if json.load(open(os.path.join(d, "meta.json"))).get("detected"))
block("SEEDS", "| seed | reported by the property's check | first reporting rule :: function :: instance | history |\n|---|---|---|---|\n"
      + "\n".join(rows) + "\n\n%d of %d confirmed seeds are reported by the check of the property they were written against." % (n, len(rows)))

cnt = {}
for f in glob.glob(os.path.join(V, "mutants", "*.patch")):
    for line in open(f):
        if line.startswith("# property:"):
            cnt[line.split(":")[1].strip()] = cnt.get(line.split(":")[1].strip(), 0) + 1
block("MUTANTS", "| property | self-test mutants |\n|---|---|\n" + "\n".join("| %s | %d |" % (k, cnt[k]) for k in sorted(cnt)) +
      "\n\ntotal: %d patches under `/verif/mutants/`" % sum(cnt.values()))
open(p, "w").write(s)
print("DESIGN.md generated blocks refreshed")
