#!/usr/bin/env python3
"""Developer aid: pretty-print the MIR facts of functions whose path contains a substring.
usage: tools/show.py [--cfg cfgA] [--crate resolvo] <substring> [--calls]"""
import sys, os, argparse
V = os.path.dirname(os.path.dirname(os.path.abspath(__file__)))
sys.path.insert(0, os.path.join(V, "lib"))
import gen
from facts import Facts

def pl(p):
    s = "_%d" % p["l"]
    for e in p.get("p", []):
        if e == "*": s = "(*%s)" % s
        elif isinstance(e, str): s = "%s.%s" % (s, e)
        elif "f" in e: s = "%s.%s" % (s, e.get("n", e["f"])) + ("{%s}" % e["v"] if "v" in e else "")
        elif "as" in e: s = "(%s as %s)" % (s, e["as"])
        elif "idx" in e: s = "%s[_%d]" % (s, e["idx"])
        else: s = "%s[%s]" % (s, e)
    return s
def op(o):
    if o["k"] in ("copy", "move"): return o["k"] + " " + pl(o["p"])
    if o["k"] == "const":
        if "fn" in o: return "fn:" + o["fn"]["path"]
        return "const %s:%s" % (o.get("v", o.get("s", "?")), o["ty"][:40])
    return str(o)
def rv(r):
    k = r["k"]
    if k == "use": return op(r["o"])
    if k == "ref": return "&%s %s" % (r["bk"], pl(r["p"]))
    if k == "rawptr": return "&raw %s %s" % (r["m"], pl(r["p"]))
    if k == "bin": return "%s(%s, %s)" % (r["op"], op(r["a"]), op(r["b"]))
    if k == "un": return "%s(%s)" % (r["op"], op(r["a"]))
    if k == "cast": return "%s as %s [%s]" % (op(r["o"]), r["ty"][:60], r["ck"])
    if k == "discr": return "discriminant(%s)" % pl(r["p"])
    if k == "copyderef": return "deref_copy %s" % pl(r["p"])
    if k == "agg":
        n = r.get("adt", r.get("def", r["ak"])) + ("::" + r["variant"] if "variant" in r else "")
        return "%s{%s}" % (n, ", ".join(op(o) for o in r["ops"]))
    return str(r)
def show(b, only_calls=False):
    print("fn %s  [%s] %s:%s %s" % (b.path, b.kind, b.file, b.line, b.coroutine or ""))
    if b.d.get("upvars"): print("  upvars:", b.d["upvars"])
    if b.d.get("debug_places"): print("  debug:", [(x["name"], pl(x["p"])) for x in b.d["debug_places"]])
    if not only_calls:
        for i, l in enumerate(b.locals):
            print("  let _%d: %s %s" % (i, l["ty"][:110], l.get("name", "")))
    for i, bl in enumerate(b.blocks):
        t = bl["term"]
        if only_calls and t["k"] not in ("call", "yield", "switch"): continue
        print(" bb%d%s:" % (i, " (cleanup)" if bl.get("cleanup") else ""))
        if not only_calls:
            for s in bl["stmts"]:
                if s["k"] == "assign": print("    %s = %s   // L%s %s" % (pl(s["p"]), rv(s["r"]), s["line"], s.get("exp", "")))
                elif s["k"] == "dead": pass
                elif s["k"] == "live": pass
                else: print("    ", s)
        k = t["k"]
        if k == "call":
            f = t.get("f")
            name = (f["path"] + (" => " + f["resolved"] if f.get("resolved") else "") + (" [Self=%s]" % f["self_ty"][:50] if f.get("self_ty") else "")) if f else "indirect " + op(t["fo"])
            print("    %s = %s(%s) -> bb%s u=%s  // L%s %s" % (pl(t["dest"]), name, ", ".join(op(a) for a in t["args"]), t["t"], t["u"], t["line"], t.get("exp", "")))
        elif k == "switch":
            print("    switch %s [%s] -> %s otherwise bb%s  // L%s" % (op(t["d"]), t["dty"], ["%d:bb%d" % (v, x) for v, x in t["targets"]], t["otherwise"], t["line"]))
        elif k == "drop": print("    drop(%s) -> bb%s u=%s" % (pl(t["p"]), t["t"], t["u"]))
        elif k == "yield": print("    yield %s -> resume bb%s drop bb%s // L%s %s" % (op(t["v"]), t["resume"], t["drop"], t["line"], t.get("exp", "")))
        elif k == "assert": print("    assert(%s == %s, %s) -> bb%s // L%s" % (op(t["c"]), t["expected"], t["msg"], t["t"], t["line"]))
        else: print("    %s %s" % (k, {x: t[x] for x in t if x not in ("k", "line", "exp")}))
ap = argparse.ArgumentParser(); ap.add_argument("sub"); ap.add_argument("--cfg", default="cfgA"); ap.add_argument("--crate", default="resolvo"); ap.add_argument("--calls", action="store_true"); ap.add_argument("--list", action="store_true"); ap.add_argument("--dir", default=None)
a = ap.parse_args()
F = Facts(a.dir or gen.generate(a.cfg))
for b in F.crate(a.crate).bodies:
    if a.sub in b.path:
        if a.list: print(b.path, b.kind, b.file, b.line)
        else: show(b, a.calls); print()
