#!/usr/bin/env python3
"""Prepare a scratch worktree + prompt for a seeding sub-agent: tools/mkseed.py ID [FIRST_INDEX]  (prints the prompt file path).
The sub-agent gets ONLY the property text and its worktree - nothing from /verif."""
import sys, os, json, subprocess
V = os.path.dirname(os.path.dirname(os.path.abspath(__file__)))
pid = sys.argv[1]
first = int(sys.argv[2]) if len(sys.argv) > 2 else 1
wt = "/tmp/seed/%s" % pid
os.makedirs("/tmp/seed", exist_ok=True)
subprocess.run("git -C /repo worktree remove --force %s" % wt, shell=True, capture_output=True)
subprocess.run("rm -rf %s" % wt, shell=True)
subprocess.check_call("git -C /repo worktree add -q --detach %s HEAD" % wt, shell=True)
os.makedirs(wt + "/OUT", exist_ok=True)
for l in open(os.path.join(V, "properties.jsonl")):
    p = json.loads(l)
    if p["id"] == pid:
        json.dump(p, open(wt + "/OUT/PROPERTY.json", "w"), indent=1)
s = open(os.path.join(V, "tools", "seed_prompt.txt")).read().replace("@ID@", pid)
a, b, c = first, first + 1, first + 2
s = s.replace("For each mutant i (1..3)", "Number your mutants %d, %d and %d. For each mutant i (%d..%d)" % (a, b, c, a, c))
s += "\nNever use pkill/killall and never kill processes you did not start yourself.\n"
if pid in ("C16", "C19"):
    s += "Note: serde support is behind the cargo feature `serde` (`cargo test -p resolvo --features serde --offline ...`); a demo may need it.\n"
if pid == "C17":
    s += "Note: the C++ binding lives in cpp/ (crate resolvo_cpp; headers in cpp/include, tests in cpp/tests); clang++ is available. A demo may be a Rust test in cpp/tests or in cpp/src under #[cfg(test)].\n"
open("/tmp/seed/prompt_%s.txt" % pid, "w").write(s)
print("/tmp/seed/prompt_%s.txt" % pid)
