#!/usr/bin/env python3
"""Debug aid: apply a benign refactoring (or any diff) to a scratch copy, generate facts, and print the MIR of functions matching a
substring.  usage: tools/bshow.py <diff-or-benign-number> <substring> [--crate resolvo_cpp]"""
import sys, os, subprocess, shutil
V = os.path.dirname(os.path.dirname(os.path.abspath(__file__)))
sys.path.insert(0, os.path.join(V, "lib"))
import selftest, gen
d = sys.argv[1]
if d.isdigit():
    d = os.path.join(V, "benign", "refactor_%s.diff" % d)
sc = selftest.make_scratch(70, d)
try:
    fd = gen.generate("cfgA", sc, lambda m: None)
    env = dict(os.environ, VERIF_FACTS_DIR=fd)
    args = [sys.executable, os.path.join(V, "tools", "show.py"), "--dir", fd] + sys.argv[2:]
    subprocess.run(args)
finally:
    shutil.rmtree(sc, ignore_errors=True)
