#!/usr/bin/env python3
"""Developer aid (not a check): a small mutation sweep.  Generates single-token mutants of /repo's library sources, keeps those that
compile and pass the unchanged 57-test suite ("survivors" - the class of change the properties are about), and runs all 20 static
checks against each survivor.  Survivors that no check reports are written to /tmp/sweep/undetected/ for triage (many are
equivalent mutants; the others are misses).   usage: tools/mutsweep.py gen N SEED | run WORKERS | report"""
import sys, os, re, json, random, subprocess, shutil, glob, hashlib, time
V = os.path.dirname(os.path.dirname(os.path.abspath(__file__)))
sys.path.insert(0, os.path.join(V, "lib"))
BASE = "/tmp/sweep"
FILES = ["src/solver/mod.rs", "src/solver/encoding.rs", "src/solver/cache.rs", "src/solver/clause.rs", "src/solver/decision_tracker.rs",
         "src/solver/decision_map.rs", "src/solver/watch_map.rs", "src/solver/binary_encoding.rs", "src/solver/variable_map.rs",
         "src/conflict.rs", "src/snapshot.rs", "src/internal/mapping.rs", "src/internal/arena.rs", "src/internal/frozen_copy_map.rs",
         "src/internal/small_vec.rs", "src/utils/pool.rs", "src/requirement.rs", "cpp/src/lib.rs", "cpp/src/vector.rs", "cpp/src/string.rs", "cpp/src/slice.rs"]
OPS = [
    (r"(?<![<>=!\-])<=(?!=)", ["<"]), (r"(?<![<>=!\-])>=(?!=)", [">"]), (r"(?<![<>=!\-:])<(?![<=])(?=\s)", ["<="]), (r"(?<![<>=!\-])>(?![>=])(?=\s)", [">="]),
    (r"==", ["!="]), (r"!=", ["=="]), (r"&&", ["||"]), (r"\|\|", ["&&"]),
    (r"\+ 1\b", ["", "+ 2"]), (r"- 1\b", ["", "- 2"]), (r"\btrue\b", ["false"]), (r"\bfalse\b", ["true"]),
    (r"\bcontinue;", ["break;"]), (r"\bbreak;", ["continue;"]), (r"\.max\(", [".min("]), (r"\.min\(", [".max("]),
    (r"\.is_some\(\)", [".is_none()"]), (r"\.is_none\(\)", [".is_some()"]), (r"\.is_empty\(\)", [".is_empty() == false"]),
    (r"\bif !", ["if "]), (r"\.positive\(\)", [".negative()"]), (r"\.negative\(\)", [".positive()"]),
    (r"\.first\(\)", [".last()"]), (r"\.iter\(\)\s*\.rev\(\)", [".iter()"]), (r"\.rev\(\)", [""]),
    (r"\.skip\(1\)", [""]), (r"Some\(true\)", ["Some(false)"]), (r"Some\(false\)", ["Some(true)"]),
    (r"\blevel \+ 1\b", ["level"]), (r"\[0\]", ["[1]"]), (r"\[1\]", ["[0]"]),
]


def in_test_region(lines, i):
    # skip everything after `#[cfg(test)]`
    for j in range(i, -1, -1):
        if "#[cfg(test)]" in lines[j]:
            return True
    return False


def candidates():
    out = []
    for f in FILES:
        p = os.path.join("/repo", f)
        if not os.path.exists(p):
            continue
        lines = open(p).read().split("\n")
        cut = next((k for k, l in enumerate(lines) if "#[cfg(test)]" in l and k > 20), len(lines))
        for i, l in enumerate(lines[:cut]):
            s = l.strip()
            if not s or s.startswith(("//", "#[", "use ", "pub use", "tracing::", "debug_assert", "assert")) or "tracing::" in l or "debug_assert" in l:
                continue
            for pat, reps in OPS:
                for m in re.finditer(pat, l):
                    # not inside a comment / string
                    if "//" in l[:m.start()] or l[:m.start()].count('"') % 2 == 1:
                        continue
                    for r in reps:
                        out.append((f, i, m.start(), m.end(), r))
            # statement deletion: a single-line call statement
            if re.match(r"^(self\.|[a-z_]+\.)[a-zA-Z_\.\(\)\[\]& ,:\*]+\);$", s) and len(s) < 120:
                out.append((f, i, None, None, "DELETE"))
    return out


def mk_patch(c):
    f, i, a, b, r = c
    src = open(os.path.join("/repo", f)).read().split("\n")
    new = list(src)
    if r == "DELETE":
        new[i] = "// " + src[i]
    else:
        new[i] = src[i][:a] + r + src[i][b:]
    import difflib
    return "".join(difflib.unified_diff([x + "\n" for x in src], [x + "\n" for x in new], "a/" + f, "b/" + f))


def gen(n, seed):
    cs = candidates()
    random.Random(seed).shuffle(cs)
    os.makedirs(os.path.join(BASE, "queue"), exist_ok=True)
    k = 0
    for c in cs:
        if k >= n:
            break
        pt = mk_patch(c)
        h = hashlib.sha1(pt.encode()).hexdigest()[:10]
        if glob.glob(os.path.join(BASE, "*", h + ".diff")):
            continue
        open(os.path.join(BASE, "queue", h + ".diff"), "w").write(pt)
        k += 1
    print("candidates: %d, queued %d" % (len(cs), k))


def sh(cmd, cwd, env=None, timeout=900):
    e = dict(os.environ, CARGO_NET_OFFLINE="true")
    e.update(env or {})
    try:
        r = subprocess.run(cmd, cwd=cwd, shell=True, stdout=subprocess.PIPE, stderr=subprocess.STDOUT, text=True, env=e, timeout=timeout)
        return r.returncode, r.stdout
    except subprocess.TimeoutExpired:
        return 124, "timeout"


def worker(w):
    wt = os.path.join(BASE, "w%d" % w)
    if not os.path.isdir(wt):
        subprocess.check_call("git -C /repo worktree add -q --detach %s HEAD" % wt, shell=True)
    tgt = os.path.join(BASE, "target%d" % w)
    for d in ("killed", "nocompile", "survived", "undetected", "detected", "timeout"):
        os.makedirs(os.path.join(BASE, d), exist_ok=True)
    import selftest
    while True:
        q = sorted(glob.glob(os.path.join(BASE, "queue", "*.diff")))
        if not q:
            break
        m = q[w % len(q)] if len(q) > w else q[0]
        mine = m + ".w%d" % w
        try:
            os.rename(m, mine)
        except OSError:
            continue
        name = os.path.basename(m)
        sh("git checkout -q -- . ", wt)
        rc, o = sh("git apply %s" % mine, wt)
        if rc != 0:
            os.rename(mine, os.path.join(BASE, "nocompile", name)); continue
        rc, o = sh("cargo test --workspace --no-fail-fast --offline 2>&1 | tail -n 60", wt, {"CARGO_TARGET_DIR": tgt}, timeout=600)
        passed = sum(int(x) for x in re.findall(r"test result: \w+\. (\d+) passed", o))
        failed = sum(int(x) for x in re.findall(r"test result: \w+\. \d+ passed; (\d+) failed", o))
        if rc == 124 or "timeout" == o:
            os.rename(mine, os.path.join(BASE, "timeout", name)); sh("git checkout -q -- .", wt); continue
        if "error" in o and passed == 0 and failed == 0:
            os.rename(mine, os.path.join(BASE, "nocompile", name)); continue
        if failed > 0 or passed != 57:
            os.rename(mine, os.path.join(BASE, "killed", name)); continue
        # survivor: run the static checks on a scratch copy
        sc = selftest.make_scratch(60 + w, mine)
        hits = []
        try:
            for pnum in range(1, 21):
                pid = "C%02d" % pnum
                r = subprocess.run([sys.executable, os.path.join(V, "check"), pid, "--repo", sc, "--no-evidence", "--list"],
                                   stdout=subprocess.PIPE, stderr=subprocess.STDOUT, text=True, cwd=V)
                if r.returncode == 1:
                    fl = [l.strip() for l in r.stdout.split("\n") if l.startswith("  FAIL") and "backjump-cannot-go-below" not in l and "two-watch-distinct" not in l]
                    if fl:
                        hits.append((pid, fl[0][:200]))
        finally:
            shutil.rmtree(sc, ignore_errors=True)
        dst = "detected" if hits else "undetected"
        os.rename(mine, os.path.join(BASE, dst, name))
        json.dump(hits, open(os.path.join(BASE, dst, name + ".json"), "w"), indent=1)
        print("w%d %s %s %s" % (w, name, dst, hits[:1]), flush=True)
    sh("git checkout -q -- .", wt)


def report():
    for d in ("queue", "nocompile", "killed", "timeout", "detected", "undetected"):
        print(d, len(glob.glob(os.path.join(BASE, d, "*.diff*"))))


if __name__ == "__main__":
    if sys.argv[1] == "gen":
        gen(int(sys.argv[2]), int(sys.argv[3]))
    elif sys.argv[1] == "worker":
        worker(int(sys.argv[2]))
    elif sys.argv[1] == "report":
        report()
