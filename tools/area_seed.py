#!/usr/bin/env python3
"""Import the results of an area-based seeding agent (/tmp/seed7/<AREA>/OUT: mutant_<i>.diff, demo_<i>.diff, README.md with one
`BREAKS: Cxx` line per mutant) into the per-property layout that confirm_seed.py / seedrun.py expect (/tmp/seed/<Cxx>/OUT with the
next free indices of that property).  usage: tools/area_seed.py AREA [AREA ...]   - prints the properties that received seeds"""
import sys, os, re, glob, shutil
V = os.path.dirname(os.path.dirname(os.path.abspath(__file__)))
got = {}
for area in sys.argv[1:]:
    out = "/tmp/seed7/%s/OUT" % area
    readme = open(os.path.join(out, "README.md")).read() if os.path.exists(os.path.join(out, "README.md")) else ""
    breaks = re.findall(r"BREAKS:\s*\**\s*(C\d\d)", readme)
    muts = sorted(glob.glob(os.path.join(out, "mutant_*.diff")), key=lambda p: int(re.search(r"mutant_(\d+)", p).group(1)))
    for k, m in enumerate(muts):
        i = re.search(r"mutant_(\d+)", m).group(1)
        prop = breaks[k] if k < len(breaks) else None
        if prop is None:
            print("no BREAKS line for", m); continue
        d = "/tmp/seed/%s/OUT" % prop
        if prop not in got:
            shutil.rmtree("/tmp/seed/%s" % prop, ignore_errors=True)
            os.makedirs(d)
            got[prop] = []
        have = [int(x.rsplit("-", 1)[1]) for x in os.listdir(os.path.join(V, "seeded")) if x.startswith(prop + "-")]
        n = max(have + [0]) + 1 + len(got[prop])
        shutil.copy(m, os.path.join(d, "mutant_%d.diff" % n))
        demo = os.path.join(out, "demo_%s.diff" % i)
        if os.path.exists(demo):
            shutil.copy(demo, os.path.join(d, "demo_%d.diff" % n))
        with open(os.path.join(d, "README.md"), "a") as fh:
            fh.write("\n\n# from area agent %s, its mutant %s (stored as %s-%d)\n\n" % (area, i, prop, n) + readme)
        got[prop].append((area, i, n))
for p, l in sorted(got.items()):
    print(p, l)
print("PROPS", " ".join(sorted(got)))
