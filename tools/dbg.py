"""Interactive helper: load the newest cfgA fact set.  usage: python3 -i tools/dbg.py"""
import sys, glob, os
sys.path[:0] = ["/verif/lib", "/verif/rules"]
import facts, q
from common import *
d = sorted(glob.glob("/verif/.cache/facts/*/cfgA"), key=os.path.getmtime)[-1]
F = facts.Facts(d)
crate = F.crate("resolvo")
crs = list(F.crates.values())
