#!/usr/bin/env python3
"""Re-confirm stored seeds against /repo's current HEAD (after a fix commit made patches move): tools/reconfirm_seed.py ID-n ...
For each: worktree at HEAD, apply seeded/<id>/patch.diff, full suite must pass (57), apply demo.diff, demo fails, revert patch, demo passes."""
import sys, os, subprocess, shutil, json, re
V = os.path.dirname(os.path.dirname(os.path.abspath(__file__)))
sys.path.insert(0, os.path.join(V, "tools"))
BASE = "/tmp/confirm"
TARGET = os.path.join(BASE, "target")
src = open(os.path.join(V, "tools", "confirm_seed.py")).read()
ns = {"__file__": os.path.join(V, "tools", "confirm_seed.py")}
exec(src.split("def main():")[0], ns)
sh, counts, demo_cmd = ns["sh"], ns["counts"], ns["demo_cmd"]
os.makedirs(BASE, exist_ok=True)
for sid in sys.argv[1:]:
    d = os.path.join(V, "seeded", sid)
    wt = os.path.join(BASE, "re_" + sid)
    subprocess.run("git -C /repo worktree remove --force %s" % wt, shell=True, capture_output=True)
    shutil.rmtree(wt, ignore_errors=True)
    subprocess.check_call("git -C /repo worktree add -q --detach %s HEAD" % wt, shell=True)
    steps = []
    ok = False
    try:
        m, demo = os.path.join(d, "patch.diff"), os.path.join(d, "demo.diff")
        rc, o = sh("git apply %s || patch -p1 --no-backup-if-mismatch -s -i %s" % (m, m), wt); steps.append(("apply", rc))
        rc, o = sh("cargo test --workspace --no-fail-fast --offline", wt); p, f = counts(o); steps.append(("suite", rc, p, f))
        suite_ok = rc == 0 and p == 57 and f == 0
        rc, o = sh("git apply %s || patch -p1 --no-backup-if-mismatch -s -i %s" % (demo, demo), wt); steps.append(("apply demo", rc))
        dc = demo_cmd(demo)
        rc1, o1 = sh(dc, wt); steps.append(("demo+mutant", rc1))
        sh("git apply -R %s || patch -R -p1 --no-backup-if-mismatch -s -i %s" % (m, m), wt)
        rc2, o2 = sh(dc, wt); p2, f2 = counts(o2); steps.append(("demo-mutant", rc2, p2))
        ok = bool(suite_ok and rc1 != 0 and rc2 == 0 and p2 > 0)
    finally:
        subprocess.run("git -C /repo worktree remove --force %s" % wt, shell=True, capture_output=True)
        shutil.rmtree(wt, ignore_errors=True)
    mp = os.path.join(d, "meta.json")
    meta = json.load(open(mp)) if os.path.exists(mp) else {}
    meta["reconfirmed"] = {"repo_head": subprocess.check_output("git -C /repo rev-parse --short HEAD", shell=True, text=True).strip(),
                           "confirmed": ok, "steps": steps}
    json.dump(meta, open(mp, "w"), indent=1)
    print(sid, "reconfirmed=%s" % ok, steps, flush=True)
shutil.rmtree(TARGET, ignore_errors=True)
