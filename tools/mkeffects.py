#!/usr/bin/env python3
"""Freeze the reviewed effect signatures (rules/effects.json).  Run only on the reviewed tree: tools/mkeffects.py"""
import sys, os, json
V = os.path.dirname(os.path.dirname(os.path.abspath(__file__)))
sys.path[:0] = [os.path.join(V, "lib"), os.path.join(V, "rules")]
import gen, facts, effects
out = {}
for cfg in ("cfgA", "cfgB", "cfgC"):
    F = facts.Facts(gen.generate(cfg, "/repo"))
    for name in ("resolvo", "resolvo_cpp"):
        if name not in F.crates:
            continue
        sig = effects.all_signatures(F.crate(name))
        tgt = out.setdefault(name, {})
        for k, v in sig.items():
            e = tgt.setdefault(k, {"cond_reads": [], "writes": []})
            e["cond_reads"] = sorted(set(e["cond_reads"]) | set(v["cond_reads"]))
            e["writes"] = sorted(set(e["writes"]) | set(v["writes"]))
json.dump(out, open(os.path.join(V, "rules", "effects.json"), "w"), indent=0, sort_keys=True)
print({k: len(v) for k, v in out.items()})
