#!/usr/bin/env python3
"""Regenerates /verif/MANIFEST.json from the claim table below (single source of truth)."""
import json, os, sys
V = os.path.dirname(os.path.dirname(os.path.abspath(__file__)))

TRUST = ("rustc nightly's type checker and MIR construction (facts are read from mir_promoted, before the coroutine "
         "transform); the documented behaviour of external crates (elsa, futures, event-listener, indexmap, petgraph, "
         "bitvec); the rule tables in /verif/rules, each instance confirmed by reading; the frozen censuses of the reviewed tree "
         "(rules/known_functions.json, known_items.json, known_callers.json, effects.json, c04_panic_sites.json)")

CLAIMS = {
    # id: (technique, level text, design_ref)
    "C01": ("T-PAIR loop/post-dominance over the encoder's consumers, clause-registration must-call analysis, three-way sibling agreement of each Clause variant (MIR)",
            "Decides necessary structural conditions of C01 on every path: each requirement/constraint/package of a Dependencies "
            "value, each excluded and each locked-out candidate reaches its clause constructor unconditionally inside a loop over "
            "the complete collection; candidates go through the at-most-one tracker of their own package; every allocated clause "
            "is registered with the mechanism that propagates it (watch map / negative assertions / learnt ids) and conflict flags "
            "reach run_sat; constructor watches, try_fold_literals and movability agree per variant in field and polarity; "
            "negative assertions are re-applied in full each round; the solution is the true-valued solvable decisions; the "
            "candidate lists come from the provider's filter with the right flag. Dropping any one of these passes all 57 tests. "
            "That propagation/learning compute a model of the clauses is not decided.",
            "DESIGN.md section 4 C01"),
    "C02": ("must-use / def-use analysis of conflict signals and decision errors, learnt-clause bookkeeping chain (post-dominance), guard dominance of Unsolvable constructions (MIR)",
            "Decides necessary structural conditions for both directions of the verdict: conflict flags reach run_sat and both "
            "encode results are acted on (Unsolvable for the root encode, restart otherwise); every try_add_decision error becomes a "
            "Conflict naming the deciding clause or is asserted; analyze's bookkeeping chain is complete (same learnt id for literals, "
            "antecedents and clause; registered; backtrack to max(running-max level, 1)) and the asserting literal is decided at the "
            "returned level; Unsolvable is constructed only behind the root tests; unit propagation decides the other watched literal "
            "with the cursor's clause as reason; try_add_decision separates new/same/opposite. Soundness of first-UIP itself and the "
            "watch invariants under undo are not decided.",
            "DESIGN.md section 4 C02"),
    "C03": ("dominance/loop analysis of the antecedent bookkeeping and the backward walk, exhaustive variant->edge correspondence and def-use attribution in Conflict::graph (MIR)",
            "Decides the structural clause of C03: every clause whose literals feed a learnt clause is recorded as its antecedent in "
            "the same iteration; the final walk records and follows the reason of every involved non-root decision (only the two "
            "documented skips), expands learnt reasons over all their antecedents and never drops a new clause id; Conflict::graph "
            "matches all Clause variants without wildcard, builds the edge kind of the matched variant, and fills edge payloads, "
            "sources and targets from the clause's own fields (requires targets = all cached candidates of that requirement, none -> "
            "unresolved node); the reachability assertion is a plain assert. A forgotten antecedent or a mis-attributed edge still "
            "renders plausible text, which is why tests cannot see it. Truth of edges against provider data is not decided.",
            "DESIGN.md section 4 C03"),
    "C04": ("guard-dominance rules for indexing / watch distinctness / protocol preconditions, reviewed census of reachable explicit panic sites (call-graph closure over MIR)",
            "Decides exact disciplines whose violation is a panic or a non-terminating traversal on some well-formed input: length "
            "test or resize dominates every index into the id-indexed growable tables; binary clauses get provably distinct watch "
            "variables (Constrains(parent==forbidden) is the listed known finding D7); the not-false protocol behind the assertions "
            "in Clause::requires/constrains; soft requirements re-checked per iteration; cache getters fail only on a miss; the "
            "conflict-message traversal marks candidates before pushing their children; and every explicit panic site reachable "
            "from solve / graph / graphviz / display_user_friendly is in a reviewed table (new sites are violations), with and "
            "without debug assertions in the thorough tier. Five genuine panics/hangs found this way or by seeding were repaired. "
            "Termination of the CDCL loop and the invariants classed `assumed` are not decided.",
            "DESIGN.md section 4 C04"),
    "C05": ("who-may-call census of positive literals and constant-true decisions, guard dominance in decide(), loop-exit analysis of undo (MIR)",
            "Decides the mechanisms the anchors name as complete censuses over the resolved program: the only creators of positive "
            "literals are Requires clauses (candidates) and at-most-one helper variables; the only constant-true decisions are the "
            "root/soft solvable and decide()'s choice; decide() expands requirements only behind assigned_value(parent)==Some(true) "
            "and proposes only unassigned candidates; undo_until leaves its loop only at level<=target or on an empty trail, and "
            "undo_last pops and resets the same variable on every path. A new way to make a solvable true, or an undo that leaves "
            "state behind, is reported whatever input would expose it. The support property of returned sets is not decided.",
            "DESIGN.md section 4 C05"),
    "C06": ("order-source census (T-ORD) over resolved callees and receiver types + expected-zero entropy census + type facts",
            "C06 is a good fit for static analysis: nondeterminism must enter through an identifiable source. The check enumerates "
            "every order-revealing operation on a hash-ordered container (any hasher; resolved by rustc), requires each to be a "
            "classified site whose sink is validated as order-insensitive, keeps an expected-zero census of RNG/RandomState::new/"
            "threads/clocks/pointer exposure with a positive control, a frozen list of unstable sorts over totally ordered keys, "
            "and type facts for the insertion-ordered inputs of decide(). A new source anywhere in the crates is a violation, "
            "whatever input would be needed to observe it.",
            "DESIGN.md section 4 C06"),
    "C07": ("def-use/order-preservation analysis of the candidate order from the provider's sort to decide()'s first-unassigned choice (MIR)",
            "Only necessary structural conditions of C07 are decided (each one, if broken, changes which candidate is tried first): "
            "provenance and favored rotation of the cached order (shared with C20), order-preserving map/collect from the cache into "
            "requirement_to_sorted_candidates, version sets fetched and walked in the requirement's own order, decide()'s fold creates "
            "the proposal only when none exists and keeps it afterwards, union members stored in sequences. That the search returns "
            "exactly the preferred selection on conflict-free universes is a statement about runs and is not decided.",
            "DESIGN.md section 4 C07"),
    "C08": ("guard-on-every-path analysis of decide()'s explicit-first rule + who-may-decide-true census (MIR)",
            "Only necessary structural conditions of C08 are decided: the explicit flag is `parent == root` and is what a proposal "
            "records; within one iteration over requiring solvables every path to a replacement of the best proposal passes "
            "`best.is_explicit && !is_explicit`, whose true side skips the requirement; each requirement proposes its first "
            "unassigned candidate; nothing else decides a solvable true. Whether the choice survives conflicts and backjumps (the "
            "dynamic content of C08) is not decided.",
            "DESIGN.md section 4 C08"),
    "C14": ("def-use of the starting level through run_sat's restarts and failure path, guard dominance in solve()'s soft loop (MIR)",
            "Only necessary structural conditions of C14 are decided: every undo inside run_sat and its failure handler goes to the "
            "run's own starting level (derived from the last decision on the trail), the run's solvable is decided at "
            "starting_level+1, a failing soft run undoes, decides the solvable false and returns Ok(false) while Unsolvable is built "
            "only for the root run, and solve() tries each soft requirement after the hard run, per element, only if it is undecided "
            "at that moment, ignoring Ok(false). Level arithmetic under backjumps inside a soft run is not decided.",
            "DESIGN.md section 4 C14"),
    "C15": ("loop-completeness (T-PAIR), def-use/data-slice of index and bit operands, guard dominance in AtMostOnceTracker::add and the encoder's callbacks (MIR)",
            "Only necessary structural conditions of C15 are decided - the bookkeeping every incremental binary at-most-one "
            "encoding needs: a tracked variable is never re-indexed (dedup test dominates every effect); a new variable is always "
            "recorded; a new variable gets one clause per helper and a new helper one clause per existing variable (complete, "
            "unconditional loops over the loop's own operands); the polarity of each clause is a function of the variable's position "
            "in the tracked set (len before insert / enumerate) and of the bit number; helpers come from alloc_var, are pushed, and "
            "are sized under a test reading both lengths; the encoder maps the boolean to the helper literal's polarity, builds a "
            "ForbidMultiple clause on the pair and registers it; variable ids are fresh; every candidate reaches the tracker of its "
            "own package. The arithmetic (enough bits for n candidates, the two bit expressions agreeing for every n) is NOT "
            "decided: that part of C15 is not applicable to static analysis (DESIGN.md section 6).",
            "DESIGN.md section 4 C15"),
    "C09": ("who-may-call census over resolved trait-method call sites + memoisation guard-dominance/post-dominance (T-MEMO) on MIR",
            "Decides the mechanisms of C09 on every path: single choke point per provider method, each dominated by the miss "
            "edge of its memo lookup and followed by the insert under the same key, in-flight sharing for get_candidates, per-solve "
            "dedup sets, eager queueing only behind a truthful availability query, causal queueing only from the dependencies "
            "consumer, and run_sat's filter on value==true/not-yet-encoded. These are exactly the mechanisms whose removal keeps "
            "all snapshots identical; which solvables the search visits is not decided.",
            "DESIGN.md section 4 C09"),
    "C10": ("closure-upvar type facts + RefCell-guard liveness across Yield + post-dominance of the in-flight hand-off (pre-transform coroutine MIR)",
            "Decides the three structural preconditions of schedule independence that the anchors name: queued futures capture "
            "only shared refs/Copy ids and all mutation is in sync &mut self consumers; no RefCell guard is live across any "
            "suspension point (a violation panics under exactly the overlapping interleavings); after an in-flight registration the "
            "result insert, marker removal and notify(usize::MAX) are on every completing path with no Yield between publish and "
            "notify, and listeners re-read the result. All-paths CFG facts cover every interleaving's code path; equality of "
            "verdicts across schedules is not decided.",
            "DESIGN.md section 4 C10"),
    "C11": ("suspension-point/loop analysis on coroutine MIR (Yield inside natural loops), who-creates-futures census, push post-dominance",
            "Decides C11's structure: no .await inside a user loop on the solver path except the single drain of the "
            "FuturesUnordered; the initial queueing loop does not suspend; consumers/queue_* cannot suspend, block, or create cache "
            "futures themselves; per-version-set fetches are joined with try_join_all; every queued async block reaches "
            "FuturesUnordered::push. The property is structural (what is issued before the solver blocks), so a path-quantified "
            "rule is the right level; no timing is measured.",
            "DESIGN.md section 4 C11"),
    "C13": ("store-dominance of the state reset, who-may-write census over Solver fields, cancellation-safety typestate (acquire / Yield / Drop-guard) on coroutine MIR",
            "Decides the structural clause of C13: solve() resets self.state before anything else; nothing outside `state` is ever "
            "written after construction (so the cache persists and per-solve data cannot leak); every manual acquire in a "
            "RefCell-held cache map that is held across a suspension point is backed by a live guard whose Drop releases it (a "
            "cancelled future runs only destructors); the availability query answers only from the dependencies map/hint bits. "
            "Verdict equality with a fresh solver is not decided.",
            "DESIGN.md section 4 C13"),
    "C16": ("dimension analysis (T-DIM) of snapshot id arithmetic + capture pairing/arm agreement + provider-sibling def-use (MIR)",
            "Decides the structural clause of C16: fresh ids are END+ITEMS, the additional test is IDX>=END and its offset IDX-END "
            "(so added version sets never alias and the highest captured id stays resolvable - the sparse/high-id cases the dense "
            "tests cannot reach); every discovered id goes through seen.insert -> push_back; each capture arm stores under its own "
            "id in its own mapping; unions are kept in listing order; order = index in the provider-sorted list for every captured "
            "package; SnapshotProvider answers are def-use connected to the captured fields. Verdict equality with the live "
            "provider is not decided.",
            "DESIGN.md section 4 C16"),
    "C17": ("rustc layout_of <-> clang record-layout agreement, clang AST analysis of the callback table and allocator calls, MIR def-use of the Rust bridge",
            "Decides the ABI/protocol clause of C17 from two type-checked views of the same tree (rustc facts of resolvo_cpp; clang "
            "record layouts and AST of the hand-written headers plus the cbindgen headers of the same build): identical size/align/"
            "field offsets of every shared record incl. Vector<T>::Header for all 5 instantiations, element area at sizeof(Header) "
            "with alignof(T)<=alignof(Header), layout-equal transmutes, FFI-safe signatures, callback table initialiser in field order "
            "with each bridge calling its own virtual method, allocate/free size+align symmetry on both sides, Rust deallocs from the "
            "stored capacity, static empty vector never counted/freed, and field-by-field mapping in the Rust bridge. The pinned suite "
            "has one size/align test for four id types. Result equality and memory safety over all operation sequences are not decided.",
            "DESIGN.md section 4 C17"),
    "C18": ("lookup-before-alloc guard dominance (T-MEMO), who-may-mutate census on the arena's UnsafeCell, chunk-capacity agreement, API signature rule (MIR + impl tables)",
            "Decides the structural clause of C18: the deduplicating intern functions allocate only on the miss edge of their "
            "lookup and record the fresh id; resolve functions index the paired arena; through &self only Arena::alloc mutates the "
            "storage and only by appending; inner chunks are created with the capacity chunk_and_offset divides by and receive "
            "element len/CHUNK_SIZE, so they never reallocate (reference stability across chunk boundaries); ids are dense; "
            "FrozenCopyMap returns copies only; unchecked indexing is behind index<len. Absence of UB under all histories is not decided.",
            "DESIGN.md section 4 C18"),
    "C19": ("dimension analysis (T-DIM): forward abstract interpretation of integer kinds over the MIR of every Mapping method",
            "Decides the dimension clause of C19 on every path: bound comparisons are well-kinded (slot index vs slot end/last, "
            "chunk index vs chunk count - never the item count), unchecked accesses in safe methods are dominated by such a test, "
            "len changes exactly on None<->Some transitions, max is a running maximum, the iterator reads id and slot from the "
            "cursor before advancing it by one from 0, Serialize emits max()+1 slots and Deserialize stores slot i under id i. "
            "These are necessary conditions that fail exactly for sparse ids / ids beyond one chunk, which the dense test never "
            "builds. Equivalence with a reference map over all histories is not decided.",
            "DESIGN.md section 4 C19"),
    "C20": ("sibling-agreement of the two filter call sites, def-use provenance of the sorted list, operation allow-list for the favored move, truthful availability query (MIR)",
            "Decides the structural clause of C20: memoisation/choke points (no second provider call), inverse flag <-> destination "
            "map agreement with the queried version set and the package's full candidate list, the list handed to sort_candidates "
            "is a copy of the matching list and after the sort is touched only in the favored branch by rotate_right(1) on "
            "[0..=position(favored)], availability answers only from the dependencies map/hint bits, hint bits written per the "
            "provider's hint arms, and no RefCell borrow across an await (re-entrancy from sort_candidates). Value-level equality "
            "with filter_candidates' definition is not decided.",
            "DESIGN.md section 4 C20"),
    "C12": ("MIR guard-dominance + def-use + must-use census (rustc_private driver)",
            "Decides the structural clause of C12 on every path of the type-checked MIR: each solver-side provider fetch is "
            "dominated by the None edge of a cancellation poll with no suspension point in between and the Some edge returns "
            "the polled value; propagate polls first; every Cancelled payload is def-use connected to a poll; no "
            "cancellation-carrying Result is discarded; encode short-circuits. Static rules quantify over all paths, which is "
            "what the poll-index quantifier needs; they do not decide wall-clock promptness or the search's behaviour.",
            "DESIGN.md section 4 C12"),
}

NA = {
}
PENDING = "rule module not yet registered in this revision (planned: DESIGN.md section 4)"


EXTRA = {'C10': " Since round 5 the check also evaluates the complete solver-core bundle (rules/core.py: all structural rules of C01 and C02 - encoding completeness, clause registration, conflict signals, learnt-clause bookkeeping, watch lists, restart levels, cancellation-carrying Results never swallowed), because this property's statement contains 'a solution valid per C01' / 'the same verdict' and its scenario (reused solver, asynchronous provider, soft requirement, many candidates) is exactly what exposes a slip there.", 'C13': " Since round 5 the check also evaluates the complete solver-core bundle (rules/core.py: all structural rules of C01 and C02 - encoding completeness, clause registration, conflict signals, learnt-clause bookkeeping, watch lists, restart levels, cancellation-carrying Results never swallowed), because this property's statement contains 'a solution valid per C01' / 'the same verdict' and its scenario (reused solver, asynchronous provider, soft requirement, many candidates) is exactly what exposes a slip there. Nothing but the owning fetch function writes a persistent cache table (census by receiver type).", 'C14': " Since round 5 the check also evaluates the complete solver-core bundle (rules/core.py: all structural rules of C01 and C02 - encoding completeness, clause registration, conflict signals, learnt-clause bookkeeping, watch lists, restart levels, cancellation-carrying Results never swallowed), because this property's statement contains 'a solution valid per C01' / 'the same verdict' and its scenario (reused solver, asynchronous provider, soft requirement, many candidates) is exactly what exposes a slip there.", 'C15': " Since round 5 the check also evaluates the complete solver-core bundle (rules/core.py: all structural rules of C01 and C02 - encoding completeness, clause registration, conflict signals, learnt-clause bookkeeping, watch lists, restart levels, cancellation-carrying Results never swallowed), because this property's statement contains 'a solution valid per C01' / 'the same verdict' and its scenario (reused solver, asynchronous provider, soft requirement, many candidates) is exactly what exposes a slip there.", 'C05': ' Since round 5 the check also evaluates the verdict half of the solver-core bundle (rules/core.py: conflict signals, decision errors, learnt-clause bookkeeping, unit propagation, watch lists, restart levels, negative assertions, candidate lists of the cache): a restriction the solver adds although it does not follow from the problem changes which candidates are kept. An interrupted soft run is never presented as a solution.', 'C07': ' Since round 5 the check also evaluates the verdict half of the solver-core bundle (rules/core.py: conflict signals, decision errors, learnt-clause bookkeeping, unit propagation, watch lists, restart levels, negative assertions, candidate lists of the cache): a restriction the solver adds although it does not follow from the problem changes which candidates are kept. The sequence type unions are stored in appends at the end and exposes every element.', 'C08': ' Since round 5 the check also evaluates the verdict half of the solver-core bundle (rules/core.py: conflict signals, decision errors, learnt-clause bookkeeping, unit propagation, watch lists, restart levels, negative assertions, candidate lists of the cache): a restriction the solver adds although it does not follow from the problem changes which candidates are kept.', 'C17': ' Since round 5 also the shared-buffer protocol of resolvo::Vector / String in the C++ headers (clang AST) and of the Rust Vector (MIR): counted sharing behind refcount > 0, free only where the decrement produced zero with destructors first, move assignment exchanges handles, detach keeps a buffer only if unique and large enough and otherwise copies elements 0..size, clear edits in place only if unique, String handles come from and go back to the library, and on the Rust side only Clone / Drop / the two unique-buffer paths change a reference count.', 'C16': " Since round 5 also: the derived serde impls write every variant under its tag (or untagged variants have different serialised shapes) and every field under its name; stored values are not edited in place between the provider's answer and the table.", 'C12': ' Since round 5 also: a propagation round (walk over the unpropagated trail) exists only inside propagate behind the poll; a hand-written match with an arm for Err(Cancelled(..)) takes the payload out in that arm.', 'C09': " Since round 5 also: who may enter the cache's fetching entry points (encoder futures, the cache itself, snapshot capture, Conflict::graph) and who may write its tables (by receiver type).", 'C20': ' Since round 5 also: every insert into a memo table is dominated by the provider call whose answer it stores; the provider is not polled on a cache hit; tables are written only by their fetch function.', 'C18': ' Since round 5 also: the non-deduplicating intern functions allocate on every path; a union resolves to the members it was interned with (unconditional append, SmallVec append/exposure).'}
EXTRA['C03'] = " Since round 6 the check also evaluates the complete solver-core bundle (rules/core.py): a report is a proof only if every clause in it follows from the problem; and what Conflict::graph reads from the cache can neither fail nor be replaced by a default."
EXTRA['C04'] = " Since round 6 also: a recursion census (a function on the solve / rendering path that calls itself must be reviewed) and the verdict half of the solver-core bundle (the trail discipline behind the internal expect/assert sites)."
EXTRA_TECH = {k: '; solver-core rule bundle shared with C01/C02 (rules/core.py)' for k in ('C03','C04','C05','C07','C08','C10','C13','C14','C15')}
EXTRA_TECH['C17'] = '; clang-AST path facts (conditions known on the way to a call) for the reference-counting protocol of the C++ containers'


def main():
    props = [json.loads(l) for l in open(os.path.join(V, "properties.jsonl"))]
    checks = []
    na = []
    for p in props:
        pid = p["id"]
        if pid in CLAIMS and os.path.exists(os.path.join(V, "rules", pid.lower() + ".py")):
            tech, text, ref = CLAIMS[pid]
            text += EXTRA.get(pid, "")
            tech += EXTRA_TECH.get(pid, "")
            checks.append({
                "property_id": pid,
                "quick_cmd": "./check %s --tier quick" % pid,
                "thorough_cmd": "./check %s --tier thorough" % pid,
                "evidence_file": "/verif/evidence/%s.json" % pid,
                "replay_cmd_template": "./check %s --tier quick --replay {path}" % pid,
                "engine": "factdb+rules" + ("+cxxfacts" if pid == "C17" else ""),
                "level_claimed": {"category": "other", "text": text, "design_ref": ref},
                "level_note": TRUST,
                "technique": "static analysis: " + tech + "; plus per-function effect signatures (which state a branch may depend on / a function may modify) against a reviewed table (T-EFF)",
            })
        elif pid in NA:
            na.append({"property_id": pid, "reason": NA[pid]})
        else:
            na.append({"property_id": pid, "reason": PENDING})
    m = {
        "version": 1,
        "setup_cmd": "cd /verif/factdb && CARGO_NET_OFFLINE=true cargo +nightly build --offline",
        "hooks": {
            "guard": "resolvo_verif",
            "enable": "none needed: every check analyses the unmodified source (RUSTC_WORKSPACE_WRAPPER=/verif/factdb/target/debug/factdb under cargo +nightly check); no hook code exists in /repo",
            "baseline_off_cmd": "cd /repo && cargo test --workspace --no-fail-fast --offline",
            "source_commits": [],
            "add_only": True,
        },
        "engines": [
            {"name": "factdb", "path": "/verif/factdb", "serves_properties": sorted(CLAIMS),
             "kind_free_text": "rustc_private driver: serialises MIR (pre coroutine transform), ADT/impl/layout facts of every workspace crate"},
            {"name": "rules", "path": "/verif/rules", "serves_properties": sorted(CLAIMS),
             "kind_free_text": "python rule evaluators over the facts: dominators, post-dominators, loops, def-use, censuses; the facts are normalised first (lib/inline.py: functions outside the reviewed census are spliced into their callers; lib/thread.py: jump threading over boolean flags; moved / renamed items keep their reviewed path)"},
            {"name": "cxxfacts", "path": "/verif/lib/cxx.py", "serves_properties": ["C17"],
             "kind_free_text": "clang++ -fsyntax-only record layouts and filtered JSON AST of cpp/include/*.h + the cbindgen headers of the same build; private parameterless helper members are substituted at their call statements and scalar const locals folded before the protocol rules run"},
            {"name": "selftest", "path": "/verif/mutants", "serves_properties": sorted(CLAIMS),
             "kind_free_text": "scratch-copy mutants each rule must report (thorough tier; recorded in evidence)"},
        ],
        "checks": checks,
        "not_applicable": na,
        "notes": "Static analysis only. Genuine defects were repaired by 13 fix: commits in /repo (recorded as fixed: entries); D7 and D15 are listed known findings (see known_findings.json and DESIGN.md section 5); "
                 "exit 2 = checker could not run (tree does not compile), never a verdict.",
    }
    json.dump(m, open(os.path.join(V, "MANIFEST.json"), "w"), indent=1)
    print("MANIFEST.json: %d checks, %d not_applicable" % (len(checks), len(na)))


if __name__ == "__main__":
    main()
