#!/usr/bin/env python3
"""Debug aid: apply one benign refactoring (number or path) to a scratch copy and run the checks of the given properties, printing
only the failing obligations.  usage: tools/brun.py <n|diff> C01 C04 ..."""
import sys, os, subprocess, shutil
V = os.path.dirname(os.path.dirname(os.path.abspath(__file__)))
sys.path.insert(0, os.path.join(V, "lib"))
import selftest
d = sys.argv[1]
if d.isdigit():
    d = os.path.join(V, "benign", "refactor_%s.diff" % d)
sc = selftest.make_scratch(int(os.environ.get("BENIGN_SLOT", "71")), d)
try:
    for p in sys.argv[2:]:
        r = subprocess.run([sys.executable, os.path.join(V, "check"), p, "--repo", sc, "--no-evidence", "--list"],
                           stdout=subprocess.PIPE, stderr=subprocess.STDOUT, text=True, cwd=V)
        print(p, "exit", r.returncode)
        for l in r.stdout.split("\n"):
            if l.startswith("  FAIL") and "two-watch-distinct" not in l:
                print("   ", l.strip()[:700])
        if r.returncode == 2:
            print(r.stdout[-1500:])
finally:
    shutil.rmtree(sc, ignore_errors=True)
