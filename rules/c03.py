"""C03 - a conflict report is a truthful, self-contained proof of unsatisfiability (structural clause).

  antecedents      in the learnt-clause construction every clause whose literals are visited in the analysis loop was
                   recorded in the learnt clause's `why` list in the same iteration (same clause id)
  backward-walk    analyze_unsolvable: the conflicting clause and the reason of every involved decision are added to the
                   Conflict before that reason's literals extend the involved set; the walk covers the whole trail backwards;
                   learnt reasons are expanded through learnt_why recursively; Conflict::add_clause never drops a new id
  variant-map      Conflict::graph matches every Clause variant without wildcard and each arm builds the edge kind of its own
                   variant (Requires -> Requires, Constrains -> Constrains, Lock -> Locked from the root, ForbidMultiple ->
                   ForbidMultipleInstances, Excluded -> Excluded)
  attribution      the requirement / version set / solvables placed on an edge are the clause's own fields; the candidates of
                   a requires edge come from the cache lookup of that same requirement; no candidates -> the unresolved node
  reachability     the all-nodes-reachable assertion at the end of graph() is a plain assert (present without debug assertions)

Added after the second and third seeding rounds:
  arm:<kind>:edge-on-every-path  every reported clause yields its edge (no path through an arm of Conflict::graph skips add_edge;
                the ForbidMultiple chain's first node is the only exception); requires edges are added unconditionally per candidate

Added after the fifth and sixth seeding rounds:
  encoding / candidate-lists  the clauses the edges are read from say what the provider said (C03-13..15)
  core             all rules of C01 and C02 (rules/core.py): the report is a proof only if every clause in it follows from the problem (C03-16)
  cached-implies-ok / result-must-use  what Conflict::graph reads from the cache cannot fail or be replaced by a default after the solve (C03-17)
"""
from common import *
import q, enc
from enc import *

GRAPH = "resolvo::conflict::Conflict::graph"
EDGE = "resolvo::conflict::ConflictEdge"
CAUSE = "resolvo::conflict::ConflictCause"
NODE = "resolvo::conflict::ConflictNode"


def run(ctx):
    ctx.explanation = (
        "Static clause of C03: completeness of the antecedent bookkeeping (learnt_why) in the analysis loop, completeness and "
        "order of the backward walk that assembles the Conflict (reason recorded before its literals are followed; learnt reasons "
        "expanded recursively; no clause id dropped), exhaustive variant-to-edge correspondence in Conflict::graph, def-use "
        "attribution of every edge payload to the clause's own fields (and of requires-edge targets to the cache lookup of the "
        "same requirement), and presence of the reachability assertion in builds without debug assertions. Truth of each edge "
        "against provider data and joint contradiction of the reported facts are NOT decided.")
    ctx.assumptions += ["the cache returns the provider's answers (C20)", "petgraph add_edge / Bfs behave as documented"]
    for cfg in (["cfgA"] if ctx.tier == "quick" else ["cfgA", "cfgB", "cfgC"]):
        tag = "" if cfg == "cfgA" else "@" + cfg
        crate = lib(ctx, cfg)
        crs = crates(ctx, cfg)
        ctx.count("functions_analysed", len(crate.bodies))
        ctx.guard("antecedents" + tag, antecedents, ctx, crate, crs, tag)
        ctx.guard("backward-walk" + tag, backward_walk, ctx, crate, crs, tag)
        ctx.guard("variant-map" + tag, variant_map_rule, ctx, crate, crs, tag)
        ctx.guard("reachability" + tag, reachability, ctx, crate, crs, tag)
        # the edges of the report are read off the clauses, so "each edge is a true fact about the provider's data" needs the
        # clauses themselves to say what the provider said: the encoder rules of C01 (a Requires clause lists all candidates of
        # its requirement, Constrains clauses are built from the non-matching list, at-most-one clauses join candidates of one
        # package) and the candidate-list rules of the cache (matching / non-matching lists are not mixed up)
        import c01, mech
        ctx.guard("encoding" + tag, c01.encoding, ctx, crate, crs, tag)
        ctx.guard("candidate-lists" + tag, mech.memo_check, ctx, "candidate-lists", crate, crs, tag)
        ctx.guard("candidate-lists" + tag, mech.filter_siblings, ctx, crate, crs, tag, "candidate-lists")
        # the report is a proof only if every clause in it follows from the problem: a conflict report that was turned into a
        # permanent assertion, a learnt clause that lost a literal, a restart to the wrong level all yield reports whose facts are
        # true one by one but do not contradict each other (seed C03-16); and what Conflict::graph reads from the cache cannot be
        # replaced by a default when the provider asks to cancel after the solve (seed C03-17)
        import core, c04, c12
        ctx.guard("core" + tag, core.soundness, ctx, crate, crs, tag)      # see rules/core.py
        ctx.guard("cached-implies-ok" + tag, c04.cached_implies_ok, ctx, crate, crs, tag)
        ctx.guard("result-must-use" + tag, c12.results_used, ctx, crate, tag)


def antecedents(ctx, crate, crs, tag):
    R = "antecedents" + tag
    b = body_by_key(crate, SOLVER + "analyze")
    if b is None:
        ctx.ob(R, SOLVER + "analyze", "exists", False, "", "analyze not found")
        return
    visits = b.calls_to(CLAUSE + "::visit_literals")
    ctx.floor(R, "visit_literals in analyze", len(visits), 1)
    # the vector stored by learnt_why.insert
    wi = q.calls_on_field(b, "resolvo::internal::mapping::Mapping::insert", STATE_ADT, "learnt_why")
    why_local = b.origin(wi[0][1]["args"][2]).get("l") if wi else None
    pushes = [(i, t) for i, t in b.calls() if t.get("f") and t["f"]["name"] == "push" and
              b.origin(t["args"][0]).get("l") == why_local and why_local is not None]
    loops = b.loops()
    for vi, vt in visits:
        # the clause visited: kinds[clause_id.to_usize()]
        d, ch = q.origin_thru(b, vt["args"][0], transparent=q.TRANSPARENT | {"std::ops::Index::index"})
        idx = None
        if d["k"] == "call":
            pass
        cd = b.origin(vt["args"][0])
        cid = None
        if cd["k"] == "call" and cd["t"]["f"]["name"] == "index":
            cid, _ = q.origin_thru(b, cd["t"]["args"][1], transparent={"resolvo::internal::arena::ArenaId::to_usize"})
        ok = False
        why = "no push of the visited clause id into the `why` list dominating the visit in the same loop iteration"
        for pi, pt in pushes:
            pid, _ = q.origin_thru(b, pt["args"][1], transparent=set())
            same = cid is not None and (q.same_origin(pid, cid) or (pid.get("l") == cid.get("l") and pid["k"] == cid["k"]))
            inner = [body for h, body, _ in loops if vi in body]
            same_iter = b.dominates(pi, vi) and all(pi in body for body in inner)
            if same and same_iter:
                # no re-assignment of the clause id variable between push and visit is needed: same SSA-like local read
                ok = True
        ctx.ob(R, b.key, "visited-clause-is-recorded", ok, where_call(b, vi),
               "every clause whose literals feed the learnt clause is recorded as its antecedent in the same iteration" if ok else why)
    ctx.ob(R, b.key, "why-list-is-stored", bool(wi) and bool(pushes), b.loc(), "the collected antecedents are stored in learnt_why")
    # inside the literal visitor: a literal that is new (seen.insert == true) is either counted as a cause at the current
    # level or becomes a literal of the learnt clause - nothing is silently dropped (the report follows learnt literals)
    for cb in crate.bodies:
        if cb.parent != b.path or cb.kind != "Closure":
            continue
        ups = [u["name"] for u in (cb.d.get("upvars") or [])]
        if "seen" not in ups or "learnt" not in ups:
            continue
        ccs = q.conds(cb, crs)
        k_learnt = ups.index("learnt")
        acct = set()
        for i, t in cb.calls():
            if t.get("f") and t["f"]["name"] == "push":
                d = cb.origin(t["args"][0])
                if any(isinstance(e, dict) and e.get("f") == k_learnt for e in d.get("proj", [])):
                    acct.add(i)
        for i, j, st in cb.assigns():
            pr = [e for e in st["p"].get("p", []) if isinstance(e, dict) and "f" in e]
            if st["p"]["l"] == 1 and pr and pr[0]["f"] < len(ups) and ups[pr[0]["f"]] == "causes_at_current_level":
                acct.add(i)
        ok = False
        for c in ccs:
            if c.kind == "bool" and c.src and c.src.get("k") == "call" and c.src["t"]["f"]["name"] == "insert":
                tr = c.target(True)
                esc = cb.reachable([tr], avoid=acct)
                ok = bool(acct) and tr not in acct and not any(r in esc for r in cb.return_blocks())
                if tr in acct:
                    ok = True
        ctx.ob(R, cb.key, "every-new-literal-is-counted-or-learnt", ok, cb.loc(),
               "a newly seen literal is either a cause at the current level or is added to the learnt clause" if ok else
               "a visited literal can be dropped from the learnt clause: the clauses that falsified it never reach the conflict report")


def backward_walk(ctx, crate, crs, tag):
    R = "backward-walk" + tag
    b = body_by_key(crate, SOLVER + "analyze_unsolvable")
    if b is None:
        ctx.ob(R, SOLVER + "analyze_unsolvable", "exists", False, "", "not found")
        return
    adds = b.calls_to(SOLVER + "analyze_unsolvable_clause")
    visits = b.calls_to(CLAUSE + "::visit_literals")
    ctx.floor(R, "analyze_unsolvable_clause calls", len(adds), 2)
    ctx.floor(R, "visit_literals calls", len(visits), 2)
    loops = for_loops(b, crs)
    walk = [l for l in loops if "rev" in loop_adaptors(b, l) and "stack" in loop_adaptors(b, l)]
    ctx.ob(R, b.key, "walks-trail-backwards", bool(walk), b.loc(), "the reasons are collected by iterating decision_tracker.stack().rev()")
    # initial clause: recorded (outside the loop)
    first = [(i, t) for i, t in adds if not any(i in l[1] for l in loops)]
    okf = False
    for i, t in first:
        d = b.origin(t["args"][2])
        okf = d["k"] == "arg" and d["l"] == 2
    ctx.ob(R, b.key, "conflicting-clause-is-recorded", okf, b.loc(), "the clause that conflicted is itself part of the report")
    if walk:
        l = walk[0]
        inl = [(i, t) for i, t in adds if i in l[1]]
        vin = [(i, t) for i, t in visits if i in l[1]]
        ok = False
        for ai, at in inl:
            ad, _ = q.origin_thru(b, at["args"][2], transparent=set())
            derived = any(isinstance(e, dict) and e.get("n") == "derived_from" for e in ad.get("proj", []))
            for vi, vt in vin:
                cd = b.origin(vt["args"][0])
                same = False
                if cd["k"] == "call" and cd["t"]["f"]["name"] == "index":
                    cid, _ = q.origin_thru(b, cd["t"]["args"][1], transparent={"resolvo::internal::arena::ArenaId::to_usize"})
                    same = any(isinstance(e, dict) and e.get("n") == "derived_from" for e in cid.get("proj", [])) or q.same_origin(cid, ad)
                if derived and same:
                    ok = True
        ctx.ob(R, b.key, "reason-recorded-before-followed", ok, b.loc(l[0]),
               "for every involved decision its reason clause is added to the Conflict before that clause's literals extend `involved`")
        # skipping happens only on `!involved.contains(var)` and root: with exactly those two skip edges allowed, the
        # recording and the literal visit run for every remaining decision of the trail
        cs = q.conds(b, crs)
        skip_edges = []
        skip_kinds = set()
        for c in cs:
            if c.bb in l[1] and c.kind == "bool" and c.src and c.src.get("k") == "call":
                nm = c.src["t"]["f"]["name"]
                if nm == "is_root":
                    skip_edges.append((c.bb, c.target(True)))
                    skip_kinds.add(nm)
                elif nm == "contains":
                    skip_edges.append((c.bb, c.target(False)))
                    skip_kinds.add(nm)
        okall = bool(inl) and bool(vin) and all(unconditional_in_loop(b, crs, x[0], allowed_skip_edges=skip_edges)[0] for x in inl + vin) \
            and visits_all(b, l) or False
        # `rev` is in PARTIAL_ADAPTORS for encoder loops; here it is the intended direction
        okall = bool(inl) and bool(vin) and all(unconditional_in_loop(b, crs, x[0], allowed_skip_edges=skip_edges)[0] for x in inl + vin)
        if "is_root" not in skip_kinds and "filter" in loop_adaptors(b, l):
            # the root decision may equally be dropped by a `.filter(|d| !d.variable.is_root())` in front of the loop
            for c in crate.bodies:
                if c.kind == "Closure" and c.root and strip_generics(c.root) == strip_generics(b.key):
                    for ci, ct in c.calls():
                        if ct.get("f") and ct["f"]["name"] == "is_root" and any(
                                s_["p"]["l"] == 0 and s_["r"]["k"] == "un" and s_["r"]["op"] == "Not" and
                                (operand_place(s_["r"]["a"]) or {}).get("l") == ct["dest"]["l"] for _, _, s_ in c.assigns()):
                            skip_kinds.add("is_root")
        ctx.ob(R, b.key, "skips-only-uninvolved-or-root", okall and skip_kinds == {"contains", "is_root"}, b.loc(l[0]),
               "every decision that is not the root and is involved has its reason recorded and followed (skip tests: %s)" % sorted(skip_kinds))
    # recursive expansion of learnt clauses
    r = body_by_key(crate, SOLVER + "analyze_unsolvable_clause")
    if r is None:
        ctx.ob(R, SOLVER + "analyze_unsolvable_clause", "exists", False, "", "not found")
    else:
        cs = [c for c in q.conds(r, crs) if c.kind == "discr" and c.adt == CLAUSE]
        rec = r.calls_to(SOLVER + "analyze_unsolvable_clause")
        addc = r.calls_to("resolvo::conflict::Conflict::add_clause")
        ok = False
        if cs and rec and addc:
            c = cs[0]
            lt = c.target("Learnt")
            other = [t for v, t in c.edges.items() if v != "Learnt"] + [c.otherwise]
            ok = q.edge_dominates(r, c.bb, lt, rec[0][0]) and not any(rec[0][0] in r.reachable([o]) and not q.edge_dominates(r, c.bb, lt, rec[0][0]) for o in other if o is not None)
            # non-learnt variants all reach add_clause
            ok = ok and all(addc[0][0] in r.reachable([t]) for v, t in c.edges.items() if v not in ("Learnt",) and t is not None)
        ctx.ob(R, r.key, "learnt-expanded-others-recorded", ok, r.loc(), "Learnt clauses recurse into their antecedents; every other kind is added to the Conflict")
        # the recursion iterates the complete why list of that learnt clause
        okw = False
        for i, t in rec:
            lp = [l for l in for_loops(r, crs) if i in l[1]]
            if lp and visits_all(r, lp[0]) and "learnt_why" in "".join(loop_adaptors(r, lp[0]) + ["learnt_why"]):
                g = [tt for ii, tt in r.calls() if tt.get("f") and tt["f"]["name"] == "get" and "Mapping" in tt["f"]["path"]]
                okw = bool(g) and elem_of_loop(r, lp[0], t["args"][2])
        ctx.ob(R, r.key, "recurses-over-all-antecedents", okw, r.loc(), "the expansion visits every stored antecedent of the learnt clause")
    a = body_by_key(crate, "resolvo::conflict::Conflict::add_clause")
    if a is not None:
        cs = q.conds(a, crs)
        pushes = [(i, t) for i, t in a.calls() if t.get("f") and t["f"]["name"] == "push"]
        ok = False
        for c in cs:
            memb = c.kind == "bool" and c.src and c.src.get("k") == "call" and c.src["t"]["f"]["name"] in ("contains", "any")
            if memb and c.src["t"]["f"]["name"] == "any":
                # `iter().any(|&id| id == clause_id)`: the closure is an equality test
                memb = False
                cd = a.origin(c.src["t"]["args"][1]) if len(c.src["t"]["args"]) > 1 else {"k": "?"}
                if cd["k"] == "rvalue" and cd["r"].get("ak") == "closure":
                    cb = crate.by_path.get(cd["r"]["def"])
                    if cb is not None:
                        memb = any(t2.get("f") and t2["f"]["name"] == "eq" for _, t2 in cb.calls()) or \
                            any(s2["r"]["k"] == "bin" and s2["r"]["op"] == "Eq" for _, _, s2 in cb.assigns())
            if memb:
                # Not(contains) -> push on the `not contained` edge
                if pushes and q.edge_dominates(a, c.bb, c.target(False), pushes[0][0]):
                    d = a.origin(pushes[0][1]["args"][1])
                    ok = d["k"] == "arg" and d["l"] == 2
        ctx.ob(R, a.key, "adds-every-new-clause-id", ok, a.loc(), "a clause id not yet listed is always appended")


# ------------------------------------------------------------------------------------------------
ARM_EXPECT = {
    "Requires": {"edge": ("ConflictEdge", "Requires"), "payload_field": 1, "source_field": 0},
    "Constrains": {"edge": ("ConflictCause", "Constrains"), "payload_field": 2, "source_field": 0, "target_field": 1},
    "Lock": {"edge": ("ConflictCause", "Locked"), "payload_field": 0, "target_field": 1, "source": "root"},
    "ForbidMultipleInstances": {"edge": ("ConflictCause", "ForbidMultipleInstances")},
    "Excluded": {"edge": ("ConflictCause", "Excluded"), "source_field": 0},
}


def clause_field_of(b, op, max_depth=3):
    """Index of the Clause field an operand derives from (through as_solvable*/into/expect), or None."""
    d, ch = q.origin_thru(b, op, transparent=q.TRANSPARENT | {
        "std::option::Option::expect", "std::option::Option::unwrap",
        "resolvo::solver::variable_map::as_solvable", "resolvo::solver::variable_map::as_solvable_or_root"})
    fs = [e for e in d.get("proj", []) if isinstance(e, dict) and "f" in e and e.get("of") == CLAUSE]
    if fs:
        return fs[-1]["f"], d
    return None, d


def variant_map_rule(ctx, crate, crs, tag):
    R = "variant-map" + tag
    A = "attribution" + tag
    b = body_by_key(crate, GRAPH)
    if b is None:
        ctx.ob(R, GRAPH, "exists", False, "", "Conflict::graph not found")
        return
    cs = [c for c in q.conds(b, crs) if c.kind == "discr" and c.adt == CLAUSE]
    ctx.floor(R, "match on Clause in graph()", len(cs), 1)
    if not cs:
        return
    c = cs[0]
    wild = b.blocks[c.otherwise]["term"]["k"] != "unreachable" and c.otherwise not in c.edges.values()
    ctx.ob(R, b.key, "match-without-wildcard", (not wild) and len(c.edges) >= 7, b.loc(c.bb),
           "every Clause variant has its own arm in Conflict::graph (%d arms)" % len(c.edges))
    add_edges = [(i, t) for i, t in b.calls() if t.get("f") and t["f"]["name"] == "add_edge"]
    ctx.floor(R, "add_edge calls", len(add_edges), 6)
    # the loop iterates all of self.clauses
    lp = [l for l in for_loops(b, crs) if c.bb in l[1]]
    ok_all = bool(lp) and "clauses" in loop_source_fields(b, lp[-1]) and visits_all(b, lp[-1])
    ctx.ob(R, b.key, "all-reported-clauses-are-translated", ok_all, b.loc(), "graph() walks the complete clause list of the Conflict")
    for v, exp in ARM_EXPECT.items():
        tgt = c.edges.get(v)
        if tgt is None:
            ctx.ob(R, b.key, "arm:%s" % v, False, "", "no arm for Clause::%s" % v)
            continue
        others = [t for vv, t in c.edges.items() if vv != v and t is not None]
        region = {x for x in b.reachable([tgt], avoid=others) if q.edge_dominates(b, c.bb, tgt, x)}
        edges_here = [(i, t) for i, t in add_edges if i in region]
        kinds = set()
        for i, t in edges_here:
            w = b.origin(t["args"][3])
            if w["k"] == "rvalue" and w["r"]["k"] == "agg":
                adt = w["r"].get("adt", "").split("::")[-1]
                var = w["r"].get("variant")
                if adt == "ConflictEdge" and var == "Conflict":
                    cw = b.origin(w["r"]["ops"][0])
                    if cw["k"] == "rvalue" and cw["r"]["k"] == "agg":
                        kinds.add((cw["r"].get("adt", "").split("::")[-1], cw["r"].get("variant")))
                        _attr_payload(ctx, A, b, v, exp, cw["r"], i)
                    elif cw["k"] == "const":
                        kinds.add(("ConflictCause", "?const"))
                    else:
                        # local built earlier in the arm (e.g. `let conflict = ConflictCause::Locked(x)`)
                        kinds.add(("ConflictCause", "?"))
                else:
                    kinds.add((adt, var))
                    _attr_payload(ctx, A, b, v, exp, w["r"], i)
            _attr_endpoints(ctx, A, b, v, exp, t, i)
        # unit variants (ForbidMultipleInstances / Excluded) are constants in MIR: recover them from the operand text
        if not kinds or ("ConflictCause", "?const") in kinds or ("ConflictCause", "?") in kinds:
            for i, t in edges_here:
                w = b.origin(t["args"][3])
                txt = json_text(w)
                for name in ("ForbidMultipleInstances", "Excluded", "Locked", "Constrains"):
                    if name in txt:
                        kinds.add(("ConflictCause", name))
            kinds.discard(("ConflictCause", "?const"))
            kinds.discard(("ConflictCause", "?"))
        ok = kinds == {exp["edge"]}
        if v != "Requires" and lp and edges_here:
            hdr = lp[-1][0]
            cut = []
            if v == "ForbidMultipleInstances":
                # the nodes of one package form a chain: the first one has no predecessor to link to (None of the map insert)
                for cc in q.conds(b, crs):
                    if cc.bb in region and cc.kind == "discr" and cc.adt == "std::option::Option" and cc.src and cc.src.get("k") == "call" \
                            and cc.src["t"]["f"]["name"] == "insert" and cc.target("None") is not None:
                        cut.append((cc.bb, cc.target("None")))
            free = q.reach_cut(b, cut + [(pp, i) for i, t in edges_here for pp in b.preds()[i]], start=tgt)
            ctx.ob(R, b.key, "arm:%s:edge-on-every-path" % v, tgt not in [i for i, t in edges_here] and hdr not in free, b.loc(tgt),
                   "every reported %s clause yields its edge (no path through the arm skips add_edge)" % v)
        ctx.ob(R, b.key, "arm:%s->%s::%s" % (v, exp["edge"][0], exp["edge"][1]), ok, b.loc(tgt),
               "edges built in the %s arm: %s" % (v, sorted(kinds)))
    # Requires arm: candidates come from the cache lookup of the same requirement; empty -> unresolved node
    tgt = c.edges.get("Requires")
    if tgt is not None:
        region = b.reachable([tgt], avoid=[t for vv, t in c.edges.items() if vv != "Requires" and t is not None])
        look = [(i, t) for i, t in b.calls() if i in region and t.get("f") and t["f"]["name"] == "get_or_cache_sorted_candidates"]
        okl = False
        for i, t in look:
            fi, d = clause_field_of(b, t["args"][1])
            okl = fi == 1
        ctx.ob(A, b.key, "requires:candidates-of-the-same-requirement", okl, b.loc(tgt),
               "the targets of a requires edge are the cached candidates of the clause's own requirement")
        okt = False
        for i, t in add_edges:
            if i in region:
                d, _ = q.origin_thru(b, t["args"][2], transparent=set())
                if d["k"] == "call" and d["t"]["f"]["name"] == "add_node" and len(d["t"]["args"]) >= 3:
                    lps = [l for l in for_loops(b, crs) if i in l[1] and l[0] in region]
                    if lps and elem_of_loop(b, lps[0], d["t"]["args"][2]) and visits_all(b, lps[0]) and unconditional_in_loop(b, crs, i)[0]:
                        src = b.blocks[lps[0][2]]["term"]["args"][0]
                        sd, ch = q.origin_thru(b, src, transparent=q.TRANSPARENT | {"std::result::Result::unwrap_or_else", "resolvo::runtime::AsyncRuntime::block_on"})
                        okt = True
        ctx.ob(A, b.key, "requires:edge-targets-are-all-candidates", okt and bool(look), b.loc(tgt),
               "one requires edge per cached candidate of the requirement (loop over the whole lookup result, edge added unconditionally)")
        cs2 = q.conds(b, crs)
        oke = False
        for cc in cs2:
            if cc.bb in region and cc.kind == "bool" and cc.src and cc.src.get("k") == "call" and cc.src["t"]["f"]["name"] == "is_empty":
                for i, t in add_edges:
                    if q.edge_dominates(b, cc.bb, cc.target(True), i):
                        d, _ = q.origin_thru(b, t["args"][2], transparent=set())
                        if d["k"] == "call" and d["t"]["f"]["name"] == "add_node":
                            nd = b.origin(d["t"]["args"][1])
                            oke = "UnresolvedDependency" in json_text(nd)
        ctx.ob(A, b.key, "requires:no-candidates->unresolved-node", oke, b.loc(tgt),
               "a requirement without candidates points at the unresolved node")


def json_text(d):
    import json as _j
    try:
        return _j.dumps(d, default=str)
    except Exception:
        return str(d)


def _attr_payload(ctx, A, b, v, exp, agg, bb):
    if "payload_field" not in exp or not agg.get("ops"):
        return
    fi, d = clause_field_of(b, agg["ops"][0])
    ctx.ob(A, b.key, "%s:edge-payload-is-clause-field%d" % (v, exp["payload_field"]), fi == exp["payload_field"], where_call(b, bb),
           "the %s carried by the edge is the clause's own field (found field %s)" % (
               "requirement" if v == "Requires" else "version set" if v == "Constrains" else "locked solvable", fi))


def _attr_endpoints(ctx, A, b, v, exp, t, bb):
    def node_field(op):
        d, _ = q.origin_thru(b, op, transparent=set())
        if d["k"] == "call" and d["t"]["f"]["name"] == "add_node" and len(d["t"]["args"]) >= 3:
            fi, dd = clause_field_of(b, d["t"]["args"][2])
            return fi, d
        return None, d
    if "source_field" in exp:
        fi, d = node_field(t["args"][1])
        ctx.ob(A, b.key, "%s:edge-source-is-clause-field%d" % (v, exp["source_field"]), fi == exp["source_field"], where_call(b, bb),
               "the edge starts at the node of the clause's field %d (found %s)" % (exp["source_field"], fi))
    if exp.get("source") == "root":
        d, _ = q.origin_thru(b, t["args"][1], transparent=set())
        ok = d["k"] == "call" and d["t"]["f"]["name"] == "add_node" and "root" in json_text(b.origin(d["t"]["args"][2]))
        ctx.ob(A, b.key, "%s:edge-source-is-root" % v, ok, where_call(b, bb), "lock edges start at the root node")
    if "target_field" in exp:
        fi, d = node_field(t["args"][2])
        ctx.ob(A, b.key, "%s:edge-target-is-clause-field%d" % (v, exp["target_field"]), fi == exp["target_field"], where_call(b, bb),
               "the edge points at the node of the clause's field %d (found %s)" % (exp["target_field"], fi))


def reachability(ctx, crate, crs, tag):
    R = "reachability" + tag
    b = body_by_key(crate, GRAPH)
    if b is None:
        return
    asserts = [(i, t) for i, t in b.calls() if t.get("f") and t["f"]["name"] == "assert_failed" and
               any(e == "macro:assert_eq" for e in (t.get("exp") or []))]
    bfs = [(i, t) for i, t in b.calls() if t.get("f") and "Bfs" in t["f"]["path"] and t["f"]["name"] in ("new", "next")]
    nc = [(i, t) for i, t in b.calls() if t.get("f") and t["f"]["name"] == "node_count"]
    ctx.ob(R, b.key, "assert_eq(node_count, visited)", bool(asserts) and len(bfs) >= 2 and bool(nc), b.loc(),
           "a breadth-first walk from the root is compared with node_count() by a plain assert_eq! (active in every build)")
    # Bfs starts at the root node
    okr = False
    for i, t in bfs:
        if t["f"]["name"] == "new":
            d, _ = q.origin_thru(b, t["args"][1], transparent=set())
            okr = d["k"] == "call" and d["t"]["f"]["name"] == "add_node" and "root" in json_text(b.origin(d["t"]["args"][2]))
    ctx.ob(R, b.key, "bfs-starts-at-root", okr, b.loc(), "the walk starts at the root node")
