"""Shared anchors and small analyses used by several properties."""
from facts import callee_keys, callee_matches, strip_generics, operand_place, is_desugar, is_macro
import q, json, os

PROVIDER = "resolvo::DependencyProvider"
INTERNER = "resolvo::Interner"
CACHE_ADT = "resolvo::solver::cache::SolverCache"
SOLVER_ADT = "resolvo::solver::Solver"
STATE_ADT = "resolvo::solver::SolverState"
ENCODER_ADT = "resolvo::solver::encoding::Encoder"
CACHE = "resolvo::solver::cache::SolverCache::"
ENC = "resolvo::solver::encoding::Encoder::"
SOLVER = "resolvo::solver::Solver::"

# the shared "register a candidate with its package's at-most-one tracker" routine (introduced by the D11 fix)
AFMC = "resolvo::solver::SolverState::add_forbid_multiple_clauses"

P_GET_CANDIDATES = PROVIDER + "::get_candidates"
P_GET_DEPENDENCIES = PROVIDER + "::get_dependencies"
P_FILTER = PROVIDER + "::filter_candidates"
P_SORT = PROVIDER + "::sort_candidates"
P_CANCEL = PROVIDER + "::should_cancel_with_value"


def lib(ctx, cfg="cfgA"):
    return ctx.facts(cfg).crate("resolvo")


def crates(ctx, cfg="cfgA"):
    return list(ctx.facts(cfg).crates.values())


def body_by_key(crate, key, coroutine=False):
    """Find the body of `key` (generic-stripped path).  With coroutine=True returns the
    async body (`key::{closure#0}`) of an async fn."""
    want = key + "::{closure#0}" if coroutine else key
    for b in crate.bodies:
        if b.key == want:
            return b
    # a reviewed helper that no longer exists but had exactly one reviewed caller was most likely inlined into that caller by
    # hand: evaluate the rule on the caller (the mechanism must now be there); rules that cannot find it there still fail
    cm = _known_callers().get(crate.name, {})
    seen = set()
    cur = key
    for _ in range(3):
        cs = cm.get(cur) or []
        if len(cs) != 1 or cs[0] in seen:
            break
        seen.add(cs[0])
        w = cs[0] + "::{closure#0}" if coroutine else cs[0]
        for b in crate.bodies:
            if b.key == w:
                crate.anchor_moves = getattr(crate, "anchor_moves", set()) | {(key, cs[0])}
                return b
        cur = cs[0]
    return None


def view(crate, key, helpers):
    """See lib/inline.view: `key` with the named helper functions spliced in (or as is, if they were inlined by hand)."""
    import inline
    return inline.view(crate, key, [h for h in helpers])


_KC = None


def _known_callers():
    global _KC
    if _KC is None:
        try:
            _KC = json.load(open(os.path.join(os.path.dirname(os.path.abspath(__file__)), "known_callers.json")))
        except FileNotFoundError:
            _KC = {}
    return _KC


def provider_call(f, method):
    """Trait-method call on the provider (generic or concrete)."""
    return f.get("trait") == PROVIDER and f["name"] == method or \
        (strip_generics(f["path"]) == PROVIDER + "::" + method)


def is_await_loop(body, loop_blocks):
    """The poll loop of a single `.await`: every call/yield inside comes from the Await desugaring."""
    for b in loop_blocks:
        t = body.blocks[b]["term"]
        if t["k"] in ("call", "yield") and not is_desugar(t, "Await"):
            return False
    return True


def awaited_origin(body, ybb):
    """For a Yield block of an `.await`: origin descriptor of the awaited future
    (the operand of IntoFuture::into_future)."""
    # walk back: the loop polls `&mut _fut` where `_fut = move _x`, `_x = into_future(move _y)`
    for i, t in body.calls_to("std::future::IntoFuture::into_future"):
        if not is_desugar(t, "Await"):
            continue
        # does this into_future's loop contain ybb?  the loop follows the call block
        if ybb in body.reachable_after(i) and t.get("line") == body.blocks[ybb]["term"].get("line"):
            d, chain = q.origin_thru(body, t["args"][0])
            return d, i
    return None, None


def loc(body, bb):
    return body.loc(bb)


def where_call(body, bb):
    blk = body.blocks[bb]
    return "%s:%s" % (blk.get("file") or body.file, blk["term"].get("line"))


def is_error_exit(body, bb):
    """Block that is the `?` early-return plumbing (FromResidual::from_residual)."""
    t = body.blocks[bb]["term"]
    if t["k"] == "call" and t.get("f") and "std::ops::FromResidual::from_residual" in callee_keys(t["f"]):
        return True
    return False


def error_exit_blocks(body):
    out = {i for i in range(body.n) if is_error_exit(body, i)}
    # the `?` written out by hand: `Err(v) => return Err(v)` - a block that stores an Err(..) into the return place
    for i, j, s in body.assigns():
        if s["p"]["l"] == 0 and not s["p"].get("p") and s["r"]["k"] == "agg" and s["r"].get("variant") == "Err" and \
                str(s["r"].get("adt", "")).endswith("result::Result") and s["r"]["ops"]:
            # ... only when it hands on the error of a callee (`Err(v)` taken out of a matched Result).  A *new* error raised here
            # (a second cancellation poll after the provider answered - seeds C09-1, C09-7) is not propagation: the path it
            # leaves by still owes the bookkeeping
            import q as _q
            d, _ = _q.origin_thru(body, s["r"]["ops"][0], transparent=set())
            if any(isinstance(e, dict) and e.get("as") == "Err" for e in d.get("proj", [])):
                out.add(i)
    return out


def postdominated_modulo_errors(body, start_bb, must_blocks, extra_avoid=()):
    """True if every normal path from start_bb to a return that does not go through a `?`
    error exit passes through one of must_blocks."""
    avoid = set(must_blocks) | error_exit_blocks(body) | set(extra_avoid)
    reach = body.reachable_after(start_bb, avoid=avoid)
    return not any(r in reach for r in body.return_blocks())


def calls_in(body, pred, expansions=True):
    out = []
    for i, t in body.calls_to(pred):
        if not expansions and t.get("exp"):
            continue
        out.append((i, t))
    return out


def local_resolvo_call(f):
    return f["krate"].startswith("resolvo") or (f.get("resolved_krate") or "").startswith("resolvo")
