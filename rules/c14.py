"""C14 - soft requirements are best-effort and never harm the hard problem (necessary structural conditions only).

  soft-isolation     every undo / restart inside run_sat goes back to the run's own starting level (never below it by
                     construction of the code), and the run's solvable is decided at starting_level + 1
  soft-failure       a failing run above the root (starting_level != 0) undoes to its starting level, decides the soft
                     solvable false and returns Ok(false); Unsolvable is only constructed for the root run (shared with C02)
  soft-loop          solve() attempts each soft requirement only if it is still undecided at that moment, on the loop's own
                     element, after the hard problem has been solved; an Ok(false) result is ignored, an Err is propagated

Added after the second and third seeding rounds:
  backjump-cannot-go-below-starting-level  the decision loop is told the run's starting level, or run_sat compares the level it
                     gets back with it - fails on the current tree: known finding D15
  encoding / new-solvables / assertions / soft-solvables-registered  the C01 / C09 / C15 rules apply unchanged to soft runs

Added after the fifth seeding round:
  core           all rules of C01 and C02 (rules/core.py), incl. result-must-use: an interrupted soft run is not a solution
"""
from common import *
import q, enc, c02, c04
from enc import *


def run(ctx):
    ctx.explanation = (
        "Only necessary structural conditions of C14 are decided: (1) run_sat's restarts and the failure path undo to the run's "
        "own starting level (def-use: every undo_until argument in run_sat / run_sat_process_unsolvable originates from the "
        "starting_level local/parameter) and the run's solvable is decided at starting_level+1; (2) a failing soft run undoes, "
        "decides the solvable false and returns Ok(false), Unsolvable being constructed only for the root run; (3) solve() runs "
        "the soft loop after the hard run, per element, only for currently undecided solvables, and only propagates Err.  "
        "Whether backjumps triggered inside a soft run keep the hard solution intact, and the best-effort inclusion claim, depend "
        "on decision-level arithmetic at run time and are NOT decided.")
    ctx.assumptions += ["learnt clauses are implied by the clause database (so a soft run cannot make the root level inconsistent)"]
    for cfg in (["cfgA"] if ctx.tier == "quick" else ["cfgA", "cfgB", "cfgC"]):
        tag = "" if cfg == "cfgA" else "@" + cfg
        crate = lib(ctx, cfg)
        crs = crates(ctx, cfg)
        ctx.count("functions_analysed", len(crate.bodies))
        ctx.guard("soft-isolation" + tag, isolation, ctx, crate, crs, tag)
        ctx.guard("soft-failure" + tag, c02.unsolvable_at_root, ctx, crate, crs, tag)
        ctx.guard("soft-loop" + tag, c04.soft_precondition, ctx, crate, crs, tag)
        ctx.guard("soft-loop" + tag, soft_loop, ctx, crate, crs, tag)
        # "the returned set still satisfies C01 for the hard requirements and for every accepted soft solvable": the encoding
        # rules of C01 and the what-gets-encoded rules of C09 apply unchanged to soft runs
        import c01, c09
        ctx.guard("encoding" + tag, c01.encoding, ctx, crate, crs, tag)
        ctx.guard("new-solvables" + tag, c09.new_solvables, ctx, crate, crs, tag)
        ctx.guard("assertions" + tag, c01.assertions, ctx, crate, crs, tag)
        import c15
        ctx.guard("soft-solvables-registered" + tag, c15.soft_registered, ctx, crate, crs, tag)
        # "never turn a solvable problem into an error": a soft requirement may name a solvable whose package no requirement
        # ever asked for, so the id-indexed tables are not sized for it - every index into them is guarded (rule of C04)
        ctx.guard("guarded-index" + tag, c04.guarded_index, ctx, crate, crs, tag)
        ctx.guard("conflict-signal" + tag, c02.conflict_signal, ctx, crate, crs, tag)
        import core
        ctx.guard("core" + tag, core.soundness, ctx, crate, crs, tag)      # see rules/core.py
        # the candidate lists the clauses are built from are the provider's (filter flag / map agreement, memoised under the right key)
        import mech
        ctx.guard("candidate-lists" + tag, mech.memo_check, ctx, "candidate-lists", crate, crs, tag)
        ctx.guard("candidate-lists" + tag, mech.filter_siblings, ctx, crate, crs, tag, "candidate-lists")


def starting_level_local(b):
    """The local holding starting_level in run_sat: `stack().next_back().map(level).unwrap_or(0)` or `.map_or(0, level)`."""
    for i, t in b.calls():
        f = t.get("f")
        if not f or "p" in t["dest"]:
            continue
        zero = lambda a: a.get("k") == "const" and a.get("v") == 0
        chain = None
        if f["name"] == "unwrap_or" and zero(t["args"][1]):
            d, _ = q.origin_thru(b, t["args"][0], transparent=set())
            if d["k"] == "call" and d["t"]["f"]["name"] == "map":
                chain = d["t"]["args"][0]
        elif f["name"] == "map_or" and zero(t["args"][1]):
            chain = t["args"][0]
        if chain is not None:
            cd, _ = q.origin_thru(b, chain, transparent=set())
            if cd["k"] == "call" and cd["t"]["f"]["name"] in ("next_back", "last"):
                return t["dest"]["l"], i
    # the same as a `match stack().next_back() { Some(d) => level(d.variable), None => 0 }`: a local with exactly two definitions,
    # the constant 0 and the result of `level(..)`, selected by the Option that next_back() / last() returned
    for l in range(1, len(b.locals)):
        ds = b.defs_of(l)
        if len(ds) != 2:
            continue
        zero = [d for d in ds if d[1] != "term" and d[2]["k"] == "use" and d[2]["o"].get("k") == "const" and d[2]["o"].get("v") == 0]
        lvl = [d for d in ds if d[1] == "term" and d[2].get("f") and d[2]["f"]["name"] == "level"]
        if len(zero) == 1 and len(lvl) == 1:
            for c in q.conds(b, ()):
                if c.kind == "discr" and (c.adt or "").endswith("option::Option") and c.src and c.src.get("k") == "call" and \
                        c.src["t"]["f"]["name"] in ("next_back", "last") and c.target("Some") is not None and c.target("None") is not None:
                    if q.edge_dominates(b, c.bb, c.target("Some"), lvl[0][0]) and q.edge_dominates(b, c.bb, c.target("None"), zero[0][0]):
                        return l, lvl[0][0]
    return None, None


def derives_only_from(b, op, local, depth=0):
    """Operand is `local`, a copy of it, or `local + const`."""
    p = operand_place(op)
    if p is None:
        return False
    if "p" not in p and p["l"] == local:
        return True
    if depth > 6 or "p" in p:
        return False
    ds = b.defs_of(p["l"])
    if not ds:
        return False
    for bb, idx, r in ds:
        if idx == "term":
            return False
        if r["k"] == "use":
            if not derives_only_from(b, r["o"], local, depth + 1):
                return False
        elif r["k"] == "bin" and r["op"].replace("WithOverflow", "") == "Add" and r["b"].get("k") == "const":
            if not derives_only_from(b, r["a"], local, depth + 1):
                return False
        else:
            return False
    return True


def isolation(ctx, crate, crs, tag):
    R = "soft-isolation" + tag
    b = body_by_key(crate, SOLVER + "run_sat")
    if b is None:
        ctx.ob(R, SOLVER + "run_sat", "exists", False, "", "run_sat not found")
        return
    # a run propagates only inside its decision loop, after its solvable was encoded: the first level of a run holds the run's
    # solvable *and* everything its clauses force, so a conflict there is a clean rejection handled by run_sat_process_unsolvable.
    # An extra propagation before the first encode (seed C14-15) pushes those consequences one level up, where the same conflict
    # goes through analyze() and its backjump (see the known finding below) instead.
    props = [i for i, t in b.calls() if t.get("f") and SOLVER + "propagate" in callee_keys(t["f"])]
    encs = [i for i, t in b.calls() if t.get("f") and t["f"]["name"] == "block_on"]
    decs = [i for i, t in b.calls() if t.get("f") and t["f"]["name"] == "try_add_decision"]
    between = set()
    for d_ in decs:
        between |= b.reachable_after(d_, avoid=encs)
    ok_p = bool(props) and bool(encs) and bool(decs) and not (set(props) & between)
    ctx.ob(R, b.key, "no-propagation-between-the-run's-decision-and-its-encoding", ok_p, b.loc(),
           "no propagate call is reachable from the decision of the run's solvable without passing an encode first "
           "(%d propagate, %d encode, %d decision site(s) in run_sat)" % (len(props), len(encs), len(decs)))
    sl, slbb = starting_level_local(b)
    ctx.ob(R, b.key, "starting_level=level-of-last-decision-or-0", sl is not None, b.loc(),
           "starting_level is derived from the last decision on the trail (0 for an empty trail)")
    if sl is None:
        return
    # the value mapped is DecisionTracker::level of the last stack element
    und = b.calls_to(DT + "undo_until")
    ctx.floor(R, "undo_until calls in run_sat", len(und), 2)
    for n, (i, t) in enumerate(und):
        ok = derives_only_from(b, t["args"][1], sl) and operand_place(t["args"][1]) is not None and \
            not _adds_const(b, t["args"][1])
        ctx.ob(R, b.key, "restart-undoes-to-starting-level#%d" % (n + 1), ok, where_call(b, i),
               "a restart undoes exactly to the run's starting level")
    # the run's solvable is decided at starting_level + 1 (level = starting_level + 1 when level == starting_level)
    tads = b.calls_to(DT + "try_add_decision")
    for i, t in tads:
        lvl = t["args"][2]
        ok = derives_only_from(b, lvl, sl) or _level_var_from(b, lvl, sl)
        ctx.ob(R, b.key, "run-solvable-decided-above-starting-level", ok, where_call(b, i),
               "the run's solvable is decided at a level derived from starting_level")
    # the failure handler receives starting_level
    for i, t in b.calls_to(SOLVER + "run_sat_process_unsolvable"):
        ok = derives_only_from(b, t["args"][2], sl) and not _adds_const(b, t["args"][2])
        ctx.ob(R, b.key, "failure-handler-gets-starting-level", ok, where_call(b, i), "run_sat_process_unsolvable is told the run's starting level")
    # the conflict-driven backjump inside the run: analyze() undoes to a level computed from the learnt clause alone.  For the
    # run to stay on top of the solution it started from, the decision loop must know the run's starting level (and clamp /
    # give up), or run_sat must notice afterwards that the level fell below it.  Neither => a learnt clause whose literals all
    # sit at low levels pops decisions of the hard solution, and the later `level == starting_level + 1` / restart logic works
    # with a stale starting level.
    rd = b.calls_to(SOLVER + "resolve_dependencies")
    knows = False
    for i, t in rd:
        for a in t["args"][1:]:
            if derives_only_from(b, a, sl) and not _level_var_from(b, a, sl):
                knows = True
    notices = False
    for c in q.conds(b, crs):
        if c.kind == "cmp" and c.op in ("Lt", "Le", "Gt", "Ge"):
            la, lb = q.slice_locals(b, c.a), q.slice_locals(b, c.b)
            if (sl in la) != (sl in lb):
                other = lb if sl in la else la
                if any(any(i == bb for i, _ in rd) for l in other for bb, idx, r in b.defs_of(l) if idx == "term"):
                    notices = True
    ctx.floor(R, "resolve_dependencies calls in run_sat", len(rd), 1)
    ctx.ob(R, b.key, "backjump-cannot-go-below-starting-level", knows or notices, b.loc(),
           "the decision loop is told the run's starting level, or run_sat compares the level it gets back with it")
    pu = body_by_key(crate, SOLVER + "run_sat_process_unsolvable")
    if pu is not None:
        for i, t in pu.calls_to(DT + "undo_until"):
            d = pu.origin(t["args"][1])
            ctx.ob(R, pu.key, "failure-undoes-to-starting-level", d["k"] == "arg" and d["l"] == 3, where_call(pu, i),
                   "a failed soft run is undone to its own starting level")
        for i, t in pu.calls_to(DT + "try_add_decision"):
            d = pu.origin(t["args"][2])
            ok = d["k"] == "rvalue" and d["r"]["k"] == "bin" and d["r"]["op"].replace("WithOverflow", "") == "Add" and \
                d["r"]["b"].get("v") == 1 and pu.origin(d["r"]["a"])["k"] == "arg" and pu.origin(d["r"]["a"])["l"] == 3
            ctx.ob(R, pu.key, "false-decision-at-starting-level+1", ok, where_call(pu, i),
                   "the rejected soft solvable is decided false at starting_level + 1")


def _adds_const(b, op):
    d = b.origin(op)
    return d["k"] == "rvalue" and d["r"]["k"] == "bin"


def _level_var_from(b, op, sl):
    """`level` is a mutable local: all its definitions derive from starting_level (+const) or from calls returning a level."""
    p = operand_place(op)
    if p is None:
        return False
    cur = p["l"]
    for _ in range(3):
        ds = b.defs_of(cur)
        if len(ds) == 1 and ds[0][1] != "term" and ds[0][2]["k"] == "use" and operand_place(ds[0][2]["o"]) is not None:
            cur = operand_place(ds[0][2]["o"])["l"]
        else:
            break
    ds = b.defs_of(cur)
    if not ds:
        return False
    ok_any = False
    for bb, idx, r in ds:
        if idx == "term":
            continue
        if r["k"] == "use":
            if derives_only_from(b, r["o"], sl):
                ok_any = True
                continue
            d = b.origin(r["o"])
            if d["k"] == "call":      # level = self.resolve_dependencies(level)? etc.
                continue
            if d["k"] == "rvalue" and d["r"]["k"] == "bin":
                if derives_only_from(b, d["r"]["a"], sl):
                    ok_any = True
                    continue
            return False
        elif r["k"] == "bin":
            if derives_only_from(b, r["a"], sl):
                ok_any = True
                continue
            return False
    return ok_any


def _dead(b, local, depth=0):
    """The local's value is never looked at: it is only copied into locals that are dead themselves."""
    if depth > 5:
        return False
    for bb, j, how, p in q.uses_of_local(b, local):
        if how == "drop":
            continue
        if how == "use" and j != "term":
            st = b.blocks[bb]["stmts"][j]
            if "p" not in st["p"] and st["p"]["l"] != 0 and _dead(b, st["p"]["l"], depth + 1):
                continue
        return False
    return True


def soft_loop(ctx, crate, crs, tag):
    R = "soft-loop" + tag
    b = body_by_key(crate, SOLVER + "solve")
    if b is None:
        return
    runs = b.calls_to(SOLVER + "run_sat")
    loops = for_loops(b, crs)
    hard = [(i, t) for i, t in runs if not any(i in l[1] for l in loops)]
    soft = [(i, t) for i, t in runs if any(i in l[1] for l in loops)]
    ctx.ob(R, b.key, "hard-run-precedes-soft-runs", bool(hard) and bool(soft) and all(b.dominates(hard[0][0], i) for i, t in soft), b.loc(),
           "the root problem is solved before any soft requirement is tried")
    for i, t in soft:
        loop = [l for l in loops if i in l[1]][0]
        flds = loop_source_fields(b, loop)
        ctx.ob(R, b.key, "iterates-all-soft-requirements", "soft_requirements" in flds and visits_all(b, loop), where_call(b, i),
               "every soft requirement of the problem is considered, in the given order")
        # Ok(_) of the soft run is ignored (only Err is propagated): the Continue payload of its `?` is unused
        dl = t["dest"]["l"]
        br = [(bb, tt) for bb, tt in b.calls() if tt.get("f") and tt["f"]["name"] == "branch" and tt["args"] and
              (operand_place(tt["args"][0]) or {}).get("l") == dl]
        ok = bool(br)
        if not br:
            # the result is taken apart by hand (`match run_sat(..) { Ok(_) => .., Err(e) => return Err(e) }`): the `bool` inside Ok is
            # never looked at - the only reads of the Ok side may end in dead temporaries
            from facts import iter_places_read
            ok = True
            seen_match = False
            for bb2, j2, p2, kind2 in iter_places_read(b):
                if p2["l"] != dl:
                    continue
                if kind2 == "discr":
                    seen_match = True
                    continue
                if any(isinstance(e, dict) and e.get("as") == "Ok" for e in p2.get("p", [])):
                    if j2 == "term":
                        ok = False
                    else:
                        st2 = b.blocks[bb2]["stmts"][j2]
                        if st2["k"] != "assign" or st2["p"].get("p") or not _dead(b, st2["p"]["l"]):
                            ok = False
            ok = ok and seen_match
        for bb, tt in br:
            # no assert on the payload (unlike the hard run)
            # the Continue payload may be copied into a temporary, but that temporary must be dead (no assert / branch on it)
            used = False
            for ii, jj, ss in b.assigns():
                r = ss["r"]
                if r["k"] == "use":
                    p = operand_place(r["o"])
                    if p and p["l"] == tt["dest"]["l"] and any(isinstance(e, dict) and e.get("as") == "Continue" for e in p.get("p", [])):
                        if not _dead(b, ss["p"]["l"]):
                            used = True
            for bb2, t2 in b.terms("switch"):
                p = operand_place(t2["d"])
                if p and p["l"] == tt["dest"]["l"] and any(isinstance(e, dict) and e.get("as") == "Continue" for e in p.get("p", [])):
                    used = True
            ok = ok and not used
        ctx.ob(R, b.key, "soft-failure-is-ignored", ok, where_call(b, i),
               "Ok(false) of a soft run is ignored; only cancellation / errors are propagated")
