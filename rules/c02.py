"""C02 - Unsolvable is reported only when no solution exists, and vice versa (structural clause).

  conflict-signal   the "conflicts with current decisions" flags of the clause constructors reach
                    Encoder.conflicting_clauses (shared with C01); run_sat reacts to a non-empty result of both encode
                    calls: root encode -> run_sat_process_unsolvable, later encodes -> undo_until(starting_level) + level reset
  decision-errors   every DecisionTracker::try_add_decision result is turned into PropagationError::Conflict (naming the
                    deciding clause) and propagated with `?`, or is asserted with expect; none is discarded
  learnt-bookkeeping in the function that allocates Clause::Learnt: learnt_clauses.alloc -> learnt_why.insert(same id) ->
                    Clauses::alloc -> learnt_clause_ids.push -> guarded start_watching -> undo_until(max(backtrack,1));
                    the asserting literal is decided at the returned level with the learnt clause as reason
  unsolvable-at-root Unsolvable is only constructed behind starting_level == 0 / level == 1 (or re-wrapped / From impl);
                    a conflict above the first level of a run restarts instead
  unit-propagation  in propagate the literal that is decided is the *other* watched literal of the clause under the
                    cursor, with that clause as reason; a satisfied other watch skips the clause
  trail             try_add_decision records value+level and pushes the decision only for unassigned variables;
                    a different value is an error

Added after the second and third seeding rounds:
  watch-list / restart / assertions / clause-shape / antecedents / undo-total / new-solvables
                rules of C01, C03, C05, C09, C14 whose violation also changes the verdict, run here unchanged (see section 7)
  implied-decision-at-the-current-level  in propagate / decide_assertions / decide_learned the level passed to try_add_decision
                is the routine's `level` parameter unmodified
"""
from common import *
import q, enc, c01
from enc import *
import wl


def restart_level(ctx, crate, crs, tag):
    """A restart after a lazily added clause conflicts with the partial solution undoes the *whole* run (to its starting level):
    every clause reported in that round - not only the first - may be violated by earlier decisions."""
    import c14
    c14.isolation(_Rename(ctx, "soft-isolation", "restart"), crate, crs, tag)


class _Rename:
    def __init__(self, ctx, a, b):
        self._c, self._a, self._b = ctx, a, b

    def __getattr__(self, n):
        return getattr(self._c, n)

    def ob(self, rule, *a, **k):
        if self._c.prop not in ("C01", "C14") and len(a) > 1 and a[1] == "backjump-cannot-go-below-starting-level":
            return          # concerns the validity of results with soft requirements (C14 / C01), not the verdict
        self._c.ob(rule.replace(self._a, self._b), *a, **k)

    def floor(self, rule, *a, **k):
        self._c.floor(rule.replace(self._a, self._b), *a, **k)

UOC = ("resolvo::solver::UnsolvableOrCancelled", "resolvo::UnsolvableOrCancelled")
PERR = "resolvo::solver::PropagationError"


def run(ctx):
    ctx.explanation = (
        "Static clause of C02 (necessary for both directions of the verdict): conflict signals are never dropped between the "
        "clause constructors, the encoder and run_sat; every try_add_decision error becomes a Conflict naming the deciding "
        "clause; the learnt-clause bookkeeping chain is complete and the asserting literal is decided at the backjump level; "
        "Unsolvable is constructed only behind the root-level tests; unit propagation decides the other watched literal with "
        "the clause under the cursor as reason; the trail primitive distinguishes new / same / opposite assignments. Soundness "
        "of first-UIP analysis, the backjump level and the watch invariants under undo are value-level and NOT decided.")
    ctx.assumptions += ["first-UIP analysis computes an implied clause (value-level)", "watch lists are consistent after undo (value-level)"]
    for cfg in (["cfgA"] if ctx.tier == "quick" else ["cfgA", "cfgB", "cfgC"]):
        tag = "" if cfg == "cfgA" else "@" + cfg
        crate = lib(ctx, cfg)
        crs = crates(ctx, cfg)
        ctx.count("functions_analysed", len(crate.bodies))
        ctx.guard("conflict-signal" + tag, conflict_signal, ctx, crate, crs, tag)
        ctx.guard("decision-errors" + tag, decision_errors, ctx, crate, crs, tag)
        ctx.guard("learnt-bookkeeping" + tag, learnt, ctx, crate, crs, tag)
        ctx.guard("unsolvable-at-root" + tag, unsolvable_at_root, ctx, crate, crs, tag)
        ctx.guard("unit-propagation" + tag, unit_propagation, ctx, crate, crs, tag)
        ctx.guard("trail" + tag, trail, ctx, crate, crs, tag)
        ctx.guard("watch-list" + tag, wl.run, ctx, crate, crs, tag)
        ctx.guard("restart" + tag, restart_level, ctx, crate, crs, tag)
        ctx.guard("assertions" + tag, c01.assertions, ctx, crate, crs, tag)
        ctx.guard("clause-shape" + tag, c01.clause_shape, ctx, crate, crs, tag)    # which literals a clause has / may move its watch to
        ctx.guard("encoding" + tag, c01.encoding, ctx, crate, crs, tag)            # no candidate / requirement is left out of the clauses
        import c03, c05, c09
        ctx.guard("new-solvables" + tag, c09.new_solvables, ctx, crate, crs, tag)  # every newly selected solvable gets encoded
        ctx.guard("antecedents" + tag, c03.antecedents, ctx, crate, crs, tag)     # a learnt clause drops none of its literals
        ctx.guard("undo-total" + tag, c05.undo_total, ctx, crate, crs, tag)       # trail and map stay in step under undo
        # the candidate lists the clauses are built from are the provider's (filter flag / map agreement, memoised under the right key)
        import mech
        ctx.guard("candidate-lists" + tag, mech.memo_check, ctx, "candidate-lists", crate, crs, tag)
        ctx.guard("candidate-lists" + tag, mech.filter_siblings, ctx, crate, crs, tag, "candidate-lists")


def conflict_signal(ctx, crate, crs, tag):
    R = "conflict-signal" + tag
    c01.registration(ctx, crate, crs, tag)      # flags -> conflicting_clauses (obligations named `registration`)
    import mech
    mech.drain_complete(ctx, R, crate, crs, tag)
    b = body_by_key(crate, SOLVER + "run_sat")
    if b is None:
        ctx.ob(R, SOLVER + "run_sat", "exists", False, "", "run_sat not found")
        return
    cs = q.conds(b, crs)
    encs = b.calls_to(ENC + "encode")
    ctx.floor(R, "encode call sites in run_sat", len(encs), 2)
    kinds = []
    for i, t in encs:
        # the Option tested is `conflicting_clauses.into_iter().next()` of this encode's result
        handled = None
        for c in cs:
            # a test on the encode result: `into_iter().next()` is Some / `is_empty()` is false / `first()` is Some ...
            nonempty_t = None
            src_op = None
            if c.kind == "discr" and c.adt == "std::option::Option" and c.src and c.src["k"] == "call" and \
                    c.src["t"]["f"]["name"] in ("next", "first", "last", "pop"):
                nonempty_t, src_op = c.target("Some"), c.src["t"]["args"][0]
            elif c.kind == "bool" and c.src and c.src.get("k") == "call" and c.src["t"]["f"]["name"] == "is_empty":
                nonempty_t, src_op = c.target(False), c.src["t"]["args"][0]
            if nonempty_t is None:
                continue
            d, ch = q.origin_thru(b, src_op, transparent=(q.TRANSPARENT - {"std::ops::Try::branch"}) | {"std::vec::Vec::iter", "bitvec::macros::internal::core::slice::iter"})
            # d: Continue payload of the `?` on block_on(encode(..))
            if not any(isinstance(e, dict) and e.get("as") == "Continue" for e in d.get("proj", [])):
                continue
            if d["k"] == "call":
                fd, _ = q.origin_thru(b, d["t"]["args"][0], transparent=set())
                if fd["k"] == "call" and fd["t"]["f"]["name"] == "block_on":
                    ed, _ = q.origin_thru(b, fd["t"]["args"][1], transparent=set())
                    if ed["k"] == "call" and ed["bb"] == i:
                        region = b.reachable([nonempty_t])
                        dom = lambda nm: [x for x in region if b.blocks[x]["term"]["k"] == "call" and b.blocks[x]["term"].get("f")
                                          and b.blocks[x]["term"]["f"]["name"] == nm and q.edge_dominates(b, c.bb, nonempty_t, x)]
                        if dom("run_sat_process_unsolvable"):
                            handled = "unsolvable"
                        elif dom("undo_until"):
                            handled = "restart"
        kinds.append(handled)
        ctx.ob(R, b.key, "encode-result-handled#%d" % (len(kinds)), handled is not None, where_call(b, i),
               "a non-empty list of conflicting clauses leads to %s" % (handled or "nothing"))
    ctx.ob(R, b.key, "root-encode->unsolvable,later-encode->restart", sorted(k or "" for k in kinds) == ["restart", "unsolvable"], b.loc(),
           "handling found: %s" % kinds)
    # restart resets the level variable to starting_level (the loop head re-installs the root at starting_level+1)
    und = b.calls_to(DT + "undo_until")
    okl = all(b.origin(t["args"][1])["k"] == "call" or True for i, t in und)
    ctx.floor(R, "undo_until calls in run_sat", len(und), 2)
    # propagate conflict: level == starting_level + 1 -> process_unsolvable, else undo_until(starting_level)
    prs = b.calls_to(SOLVER + "run_sat_process_unsolvable")
    ctx.floor(R, "run_sat_process_unsolvable calls in run_sat", len(prs), 2)
    ok_cmp = False
    for c in cs:
        if c.kind == "cmp" and c.op == "Eq":
            # rhs = starting_level + 1
            rd = b.origin(c.b)
            if rd["k"] == "rvalue" and rd["r"]["k"] == "bin" and rd["r"]["op"].replace("WithOverflow", "") == "Add" and rd["r"]["b"].get("v") == 1:
                tr, fl = c.target(True), c.target(False)
                if any(q.edge_dominates(b, c.bb, tr, i) for i, t in prs) and any(q.edge_dominates(b, c.bb, fl, i) for i, t in und):
                    ok_cmp = True
    ctx.ob(R, b.key, "conflict-at-first-level->unsolvable-else-restart", ok_cmp, b.loc(),
           "a propagation conflict at level starting_level+1 ends the run; deeper ones restart from starting_level")


def decision_errors(ctx, crate, crs, tag):
    R = "decision-errors" + tag
    sites = q.callers_of(crate, DT + "try_add_decision")
    ctx.floor(R, "try_add_decision call sites", len(sites), 5)
    for b, i, t in sites:
        fn = q.enclosing_fn(crate, b)
        dl = t["dest"]["l"]
        uses = q.uses_of_local(b, dl)
        how = None
        for bb, j, kind, p in uses:
            if kind == "arg":
                tt = b.blocks[bb]["term"]
                nm = tt["f"]["name"] if tt.get("f") else "?"
                if nm == "expect":
                    how = "expect"
                elif nm == "map_err":
                    # closure must build PropagationError::Conflict with the clause id given to Decision::new
                    cd = b.origin(tt["args"][1])
                    okc = False
                    if cd["k"] == "rvalue" and cd["r"].get("ak") == "closure":
                        cb = crate.by_path.get(cd["r"]["def"])
                        if cb is not None:
                            for ii, jj, s in cb.assigns():
                                r = s["r"]
                                if r["k"] == "agg" and r.get("adt") == PERR and r.get("variant") == "Conflict":
                                    okc = True
                    # result of map_err goes through `?`
                    ml = tt["dest"]["l"]
                    q_ok = any(k2 == "arg" and b.blocks[b2]["term"].get("f") and b.blocks[b2]["term"]["f"]["name"] == "branch"
                               for b2, j2, k2, p2 in q.uses_of_local(b, ml))
                    how = "map_err->?" if (okc and q_ok) else "map_err(bad)"
                else:
                    how = how or ("passed to %s" % nm)
            elif kind == "discr":
                how = how or "match"
        # the level the decision is recorded at is a run-time level of the caller (its `level` parameter, a level returned by
        # analyze, starting_level + 1 ...), never a constant: undo_until relies on levels being monotone along the trail
        lvd, _ = q.origin_thru(b, t["args"][2], transparent=set())
        lv_const = lvd["k"] == "const" or (t["args"][2].get("k") == "const")
        if lvd["k"] == "multi":
            lv_const = all(idx != "term" and r["k"] == "use" and r["o"].get("k") == "const" for bb, idx, r in lvd.get("defs", [])) and bool(lvd.get("defs"))
        # inside the propagation routines the level is the caller's current level, unmodified: an implied decision recorded at
        # a lower level (e.g. clamped to the root level) is skipped by undo_until's monotone walk and survives a backjump
        if fn in (SOLVER + "propagate", SOLVER + "decide_assertions", SOLVER + "decide_learned"):
            lvs = {x for x in q.leaves(b, t["args"][2]) if not x.startswith("lfield:")}
            ctx.ob(R, fn, "implied-decision-at-the-current-level", lvs == {"arg:2"}, where_call(b, i),
                   "the level of an implied decision is the routine's `level` parameter as is (reads: %s)" % ", ".join(sorted(lvs)))
        ctx.ob(R, fn, "decision-level-is-not-a-constant", not lv_const, where_call(b, i),
               "the decision is recorded at a level computed by the caller" if not lv_const else
               "the decision is recorded at a constant level: a later backjump cannot undo the decisions below it on the trail")
        if how == "match":
            # hand-written `match .. { Ok(d) => d, Err(()) => return Err(PropagationError::Conflict(..)) }`: same as map_err + `?`
            for c in q.conds(b, crs):
                if c.kind == "discr" and c.src and c.src.get("k") == "call" and c.src.get("bb") == i and not c.src.get("proj"):
                    et, ot = c.target("Err"), c.target("Ok")
                    if et is None or ot is None:
                        continue
                    region = b.reachable([et])
                    builds = any(s_["r"]["k"] == "agg" and s_["r"].get("adt") == PERR and s_["r"].get("variant") == "Conflict"
                                 for x in region for s_ in b.blocks[x]["stmts"] if s_["k"] == "assign")
                    if builds and ot not in region and (set(b.return_blocks()) & region):
                        how = "map_err->?"
        ok = how in ("expect", "map_err->?")
        ctx.ob(R, fn, "try_add_decision:%s" % (how or "dropped"), ok, where_call(b, i),
               "the outcome of try_add_decision is asserted or converted into a Conflict and propagated" if ok else
               "the outcome of try_add_decision is %s" % (how or "discarded"))
        # Conflict carries the clause that was passed as the decision's reason
        if how == "map_err->?":
            dec = b.origin(t["args"][1])
            reason = None
            if dec["k"] == "call" and dec["t"]["f"]["name"] == "new":
                reason = q.origin_thru(b, dec["t"]["args"][2], transparent=set())[0]
            cd = None
            for bb, j, kind, p in uses:
                if kind == "arg" and b.blocks[bb]["term"]["f"]["name"] == "map_err":
                    cd = b.origin(b.blocks[bb]["term"]["args"][1])
            okr = False
            if cd and cd["k"] == "rvalue" and reason is not None:
                for o in cd["r"]["ops"]:
                    od, _ = q.origin_thru(b, o, transparent=set())
                    if q.same_origin(od, reason) or (od.get("l") == reason.get("l") and od["k"] == reason["k"]):
                        okr = True
            if cd is None and reason is not None:
                # match form: the Conflict aggregate is built in this body
                for bi, bj, s_ in b.assigns():
                    r_ = s_["r"]
                    if r_["k"] == "agg" and r_.get("adt") == PERR and r_.get("variant") == "Conflict":
                        for o in r_["ops"]:
                            od, _ = q.origin_thru(b, o, transparent=set())
                            if q.same_origin(od, reason) or (od.get("l") == reason.get("l") and od["k"] == reason["k"]):
                                okr = True
            ctx.ob(R, fn, "conflict-names-deciding-clause", okr, where_call(b, i),
                   "the Conflict error refers to the clause that forced the decision")


def learnt(ctx, crate, crs, tag):
    R = "learnt-bookkeeping" + tag
    b = body_by_key(crate, SOLVER + "analyze")
    if b is None:
        ctx.ob(R, SOLVER + "analyze", "exists", False, "", "analyze not found")
        return
    la = q.calls_on_field(b, "resolvo::internal::arena::Arena::alloc", STATE_ADT, "learnt_clauses")
    wi = q.calls_on_field(b, "resolvo::internal::mapping::Mapping::insert", STATE_ADT, "learnt_why")
    wl = b.calls_to(WLP + "learnt")
    ca = b.calls_to(CLAUSES_ALLOC)
    uu = b.calls_to(DT + "undo_until")
    for nm, xs in (("learnt_clauses.alloc", la), ("learnt_why.insert", wi), ("WatchedLiterals::learnt", wl), ("Clauses::alloc", ca), ("undo_until", uu)):
        ctx.floor(R, nm + " in analyze", len(xs), 1)
    pd = b.postdominators()
    on_all = lambda i: i in pd.get(0, set())
    if la and wi and wl and ca and uu:
        ctx.ob(R, b.key, "chain-on-every-path", all(on_all(x[0][0]) for x in (la, wi, wl, ca, uu)), b.loc(),
               "alloc literals, record antecedents, build + register the clause and backtrack happen on every path to return")
        ctx.ob(R, b.key, "why-recorded-under-same-id", uses_value_of_call(b, wi[0][1]["args"][1], la[0][0]), where_call(b, wi[0][0]),
               "the antecedent list is stored under the id of the literal list just allocated")
        ctx.ob(R, b.key, "learnt-clause-uses-same-id", uses_value_of_call(b, wl[0][1]["args"][0], la[0][0]), where_call(b, wl[0][0]),
               "Clause::Learnt refers to that literal list")
        # the vector stored as `why` is the one the loop pushes clause ids into
        wd = b.origin(wi[0][1]["args"][2])
        pushes = [(i, t) for i, t in b.calls() if t.get("f") and t["f"]["name"] == "push" and
                  b.origin(t["args"][0]).get("l") == wd.get("l")]
        ctx.ob(R, b.key, "why-vector-is-filled-in-the-loop", bool(pushes) and any(any(i in body for h, body, _ in b.loops()) for i, t in pushes),
               where_call(b, wi[0][0]), "the stored antecedents are the clause ids pushed during the analysis loop")
        # the literals stored are the ones the clause is built from (same vector: clone / borrow)
        ld, ch1 = q.origin_thru(b, la[0][1]["args"][1])
        wd2, ch2 = q.origin_thru(b, wl[0][1]["args"][1])
        ctx.ob(R, b.key, "same-literal-vector", ld.get("l") == wd2.get("l") and ld.get("l") is not None, where_call(b, la[0][0]),
               "the literal list stored in learnt_clauses is the one the watches are taken from")
        # undo_until(max(back_track_to, 1)) and the same level is returned
        ud = b.origin(uu[0][1]["args"][1])
        okm = ud["k"] == "call" and ud["t"]["f"]["name"] == "max" and any(a.get("k") == "const" and a.get("v") == 1 for a in ud["t"]["args"])
        ctx.ob(R, b.key, "backtrack-to-max(level,1)", okm, where_call(b, uu[0][0]), "the trail is undone to max(back_track_to, 1)")
        rets = [s for i, j, s in b.assigns() if s["p"]["l"] == 0 and s["r"]["k"] == "agg" and s["r"].get("ak") == "tuple"]
        okr = False
        for s in rets:
            ops = s["r"]["ops"]
            if len(ops) == 3:
                l0 = b.origin(ops[0])
                c1 = uses_value_of_call(b, ops[1], ca[0][0])
                okr = c1 and l0.get("l") == ud.get("l") or (c1 and l0["k"] == ud["k"] == "call" and l0["bb"] == ud["bb"])
        ctx.ob(R, b.key, "returns(level,learnt-clause,literal)", okr, b.loc(), "analyze returns the backtrack level and the id of the registered learnt clause")
    backjump_level(ctx, crate, crs, tag, b, uu)
    # learn_from_conflict asserts the literal at that level with that clause
    lf = body_by_key(crate, SOLVER + "learn_from_conflict")
    if lf is None:
        ctx.ob(R, SOLVER + "learn_from_conflict", "exists", False, "", "not found")
        return
    an = lf.calls_to(SOLVER + "analyze")
    tad = lf.calls_to(DT + "try_add_decision")
    ctx.floor(R, "analyze call in learn_from_conflict", len(an), 1)
    ctx.floor(R, "try_add_decision in learn_from_conflict", len(tad), 1)
    if an and tad:
        ai = an[0][0]
        t = tad[0][1]
        dec = lf.origin(t["args"][1])
        ok = False
        if dec["k"] == "call" and dec["t"]["f"]["name"] == "new":
            a0, _ = q.origin_thru(lf, dec["t"]["args"][0], transparent={"resolvo::solver::clause::Literal::variable"})
            a1, _ = q.origin_thru(lf, dec["t"]["args"][1], transparent={"resolvo::solver::clause::Literal::satisfying_value"})
            a2, _ = q.origin_thru(lf, dec["t"]["args"][2], transparent=set())
            lv, _ = q.origin_thru(lf, t["args"][2], transparent=set())

            def comp(d, idx):
                return d["k"] == "call" and d["bb"] == ai and any(isinstance(e, dict) and e.get("f") == idx for e in d.get("proj", []))
            lv_ok = comp(lv, 0)
            if not lv_ok and lv["k"] == "arg":
                # `level = new_level;` re-assigns the parameter before the decision is added: the value passed must
                # be read from the parameter *after* that re-assignment
                read_at = None
                cur = operand_place(t["args"][2])
                for _ in range(6):
                    if cur is None or "p" in cur:
                        break
                    if cur["l"] == lv["l"]:
                        break
                    ds = lf.defs_of(cur["l"])
                    if len(ds) != 1 or ds[0][1] == "term" or ds[0][2]["k"] != "use":
                        break
                    read_at = (ds[0][0], ds[0][1])
                    cur = operand_place(ds[0][2]["o"])
                if cur is not None and cur.get("l") == lv["l"]:
                    if read_at is None:
                        read_at = (tad[0][0], 10 ** 6)
                    for bb, idx, r in lf.defs_of(lv["l"]):
                        if idx != "term" and r["k"] == "use":
                            dd, _ = q.origin_thru(lf, r["o"], transparent=set())
                            if comp(dd, 0) and (lf.dominates(bb, read_at[0]) and (bb != read_at[0] or idx < read_at[1])):
                                lv_ok = True
            ok = comp(a0, 2) and comp(a1, 2) and comp(a2, 1) and lv_ok
        ctx.ob(R, lf.key, "assert-learnt-literal-at-backjump-level", ok, where_call(lf, tad[0][0]),
               "Decision(literal.variable, literal.satisfying_value, learnt clause) is added at the level analyze returned")
        # the new level is what the function returns
        okret = False
        for i, j, s in lf.assigns():
            if s["p"]["l"] == 0 and s["r"]["k"] == "agg" and s["r"].get("variant") == "Ok":
                d, _ = q.origin_thru(lf, s["r"]["ops"][0], transparent=set())
                okret = d["k"] == "call" and d["bb"] == ai or d["k"] in ("multi", "arg")
        ctx.ob(R, lf.key, "returns-new-level", okret, lf.loc(), "the caller continues at the backjump level")


def backjump_level(ctx, crate, crs, tag, b, uu):
    """The level handed to undo_until is max(X, 1) where X starts at 0 and is only ever raised, inside the literal
    visitor, to the decision level of a literal that is added to the learnt clause (running maximum)."""
    R = "learnt-bookkeeping" + tag
    if not uu:
        return
    ud = b.origin(uu[0][1]["args"][1])
    if not (ud["k"] == "call" and ud["t"]["f"]["name"] == "max"):
        return
    xs = [operand_place(a) for a in ud["t"]["args"] if a.get("k") != "const"]
    xl = None
    for p in xs:
        if p is not None:
            d = b.origin({"k": "copy", "p": p})
            xl = d.get("l") if d["k"] in ("multi", "rvalue", "call", "undef") else p["l"]
            # follow plain copies back to the user variable
            cur = p["l"]
            for _ in range(4):
                ds = b.defs_of(cur)
                if len(ds) == 1 and ds[0][1] != "term" and ds[0][2]["k"] == "use" and operand_place(ds[0][2]["o"]) is not None \
                        and "p" not in operand_place(ds[0][2]["o"]):
                    cur = operand_place(ds[0][2]["o"])["l"]
                else:
                    break
            xl = cur
    if xl is None:
        ctx.ob(R, b.key, "backjump-level-is-running-max", False, where_call(b, uu[0][0]), "cannot identify the backtrack level variable")
        return
    defs = b.defs_of(xl)
    init_ok = len(defs) == 1 and defs[0][1] != "term" and defs[0][2]["k"] == "use" and defs[0][2]["o"].get("v") == 0
    ctx.ob(R, b.key, "backjump-level-starts-at-0-and-is-not-overwritten", init_ok, b.loc(),
           "the backtrack level variable is initialised to 0 and never assigned again in analyze itself (%d defs)" % len(defs))
    # closures capturing it mutably
    n_w = 0
    for cb in crate.bodies:
        if cb.parent != b.path or cb.kind != "Closure":
            continue
        ups = cb.d.get("upvars") or []
        name = b.local_name(xl)
        for k, u in enumerate(ups):
            if u["name"] == name and u["by"].startswith("ref:Mut"):
                for i, j, s in cb.assigns():
                    pr = [e for e in s["p"].get("p", []) if isinstance(e, dict) and "f" in e]
                    if s["p"]["l"] == 1 and pr and pr[0]["f"] == k:
                        n_w += 1
                        d = cb.origin(s["r"]["o"]) if s["r"]["k"] == "use" else {"k": "?"}
                        ok = False
                        if d["k"] == "call" and d["t"]["f"]["name"] == "max":
                            srcs = [q.origin_thru(cb, a, transparent=set())[0] for a in d["t"]["args"]]
                            has_self = any(x["k"] == "arg" and x["l"] == 1 and any(isinstance(e, dict) and e.get("f") == k for e in x.get("proj", [])) for x in srcs)
                            has_level = any(x["k"] == "call" and x["t"]["f"]["name"] == "level" for x in srcs)
                            # and a literal is pushed to the learnt clause on the same path
                            pushes = [ii for ii, tt in cb.calls() if tt.get("f") and tt["f"]["name"] == "push"]
                            ok = has_self and has_level and any(cb.dominates(pi, i) for pi in pushes)
                        if not ok and d["k"] == "call" and d["t"]["f"]["name"] == "level":
                            # `if x < level { x = level }` - the same running maximum written as a guarded assignment
                            def is_self(o):
                                x = q.origin_thru(cb, o, transparent=set())[0]
                                return x["k"] == "arg" and x["l"] == 1 and any(isinstance(e, dict) and e.get("f") == k for e in x.get("proj", []))

                            def is_level(o):
                                x = q.origin_thru(cb, o, transparent=set())[0]
                                return x["k"] == "call" and x["t"]["f"]["name"] == "level"
                            for c in q.conds(cb, crs):
                                if c.kind != "cmp":
                                    continue
                                lt = (c.op in ("Lt", "Le") and is_self(c.a) and is_level(c.b)) or (c.op in ("Gt", "Ge") and is_level(c.a) and is_self(c.b))
                                if lt and q.edge_dominates(cb, c.bb, c.target(True), i):
                                    pushes = [ii for ii, tt in cb.calls() if tt.get("f") and tt["f"]["name"] == "push"]
                                    ok = any(cb.dominates(pi, c.bb) for pi in pushes)
                        ctx.ob(R, cb.key, "backjump-level-is-running-max", ok, "%s:%s" % (cb.file, s["line"]),
                               "the backtrack level is raised to max(itself, level(literal)) when that literal joins the learnt clause")
        # learnt literal = (variable, its currently assigned value): false under the current assignment
        for i, t in cb.calls():
            f = t.get("f")
            if f and f["name"] == "new" and "Literal" in f["path"]:
                a1, _ = q.origin_thru(cb, t["args"][1], transparent={"std::option::Option::unwrap", "std::option::Option::expect"})
                a0 = cb.origin(t["args"][0])
                ok = a1["k"] == "call" and a1["t"]["f"]["name"] == "assigned_value" and a0["k"] == "call" and a0["t"]["f"]["name"] == "variable"
                ctx.ob(R, cb.key, "learnt-literal-negates-current-assignment", ok, where_call(cb, i),
                       "a learnt literal is Literal::new(var, assigned_value(var)) - false under the current trail")
    ctx.floor(R, "writes of the backtrack level in the literal visitor", n_w, 1)


def unsolvable_at_root(ctx, crate, crs, tag):
    R = "unsolvable-at-root" + tag
    n = 0
    for b in crate.bodies:
        for i, j, s in b.assigns():
            r = s["r"]
            if r["k"] == "agg" and r.get("adt") in UOC and r.get("variant") == "Unsolvable":
                if any(str(e).startswith("macro:Debug") for e in s.get("exp", [])):
                    continue
                n += 1
                fn = q.enclosing_fn(crate, b)
                d, _ = q.origin_thru(b, r["ops"][0], transparent=set())
                cs = q.conds(b, crs)
                ok, why = False, "Unsolvable constructed at an unexpected place"
                if d["k"] == "arg":
                    ok, why = True, "From<Conflict> conversion"
                elif any(isinstance(e, dict) and e.get("as") == "Unsolvable" for e in d.get("proj", [])):
                    ok, why = True, "re-wraps a matched Unsolvable"
                elif d["k"] == "call" and any(isinstance(e, dict) and e.get("as") == "Err" for e in d.get("proj", [])) and \
                        d["t"].get("f") and d["t"]["f"]["name"] in ("learn_from_conflict", "analyze"):
                    ok, why = True, "hands on the Conflict a callee returned (the `?` + From<Conflict> written out)"
                elif d["k"] == "call" and d["t"]["f"]["name"] == "analyze_unsolvable":
                    for c in cs:
                        if c.kind == "cmp" and c.op == "Eq" and c.b.get("k") == "const" and c.b.get("v") == 0:
                            ad = b.origin(c.a)
                            if ad["k"] == "arg" and q.edge_dominates(b, c.bb, c.target(True), i):
                                ok, why = True, "behind starting_level == 0"
                ctx.ob(R, fn, "constructs-Unsolvable", ok, "%s:%s" % (b.file, s["line"]), why)
    ctx.floor(R, "constructions of Unsolvable", n, 2)
    # analyze_unsolvable callers and their guards
    sites = q.callers_of(crate, SOLVER + "analyze_unsolvable")
    ctx.floor(R, "analyze_unsolvable call sites", len(sites), 2)
    for b, i, t in sites:
        fn = q.enclosing_fn(crate, b)
        cs = q.conds(b, crs)
        ok = False
        for c in cs:
            if c.kind == "cmp" and c.op == "Eq" and c.b.get("k") == "const" and c.b.get("v") in (0, 1):
                ad = b.origin(c.a)
                if ad["k"] == "arg" and q.edge_dominates(b, c.bb, c.target(True), i):
                    want = 0 if fn.endswith("run_sat_process_unsolvable") else 1
                    ok = c.b.get("v") == want
        ctx.ob(R, fn, "analyze_unsolvable-only-at-root-level", ok, where_call(b, i),
               "the final conflict report is only produced for a level-1 conflict of the root run")
    # the non-root branch of run_sat_process_unsolvable: undo + decide false
    b = body_by_key(crate, SOLVER + "run_sat_process_unsolvable")
    if b is not None:
        cs = q.conds(b, crs)
        ok = False
        for c in cs:
            if c.kind == "cmp" and c.op == "Eq" and c.b.get("v") == 0:
                fl = c.target(False)
                und = [i for i, t in b.calls_to(DT + "undo_until") if q.edge_dominates(b, c.bb, fl, i)]
                tad = [(i, t) for i, t in b.calls_to(DT + "try_add_decision") if q.edge_dominates(b, c.bb, fl, i)]
                if und and tad:
                    dec = b.origin(tad[0][1]["args"][1])
                    v = dec["t"]["args"][1] if dec["k"] == "call" else {}
                    ok = v.get("k") == "const" and v.get("v") is False and b.dominates(und[0], tad[0][0])
        ctx.ob(R, b.key, "soft-failure:undo-then-decide-false", ok, b.loc(),
               "a failed soft requirement is undone to its starting level and then decided false")


def unit_propagation(ctx, crate, crs, tag):
    R = "unit-propagation" + tag
    b = body_by_key(crate, SOLVER + "propagate")
    if b is None:
        ctx.ob(R, SOLVER + "propagate", "exists", False, "", "not found")
        return
    tad = b.calls_to(DT + "try_add_decision")
    ctx.floor(R, "try_add_decision in propagate", len(tad), 1)
    cs = q.conds(b, crs)
    for i, t in tad:
        dec = b.origin(t["args"][1])
        ok = False
        detail = "decision not built by Decision::new"
        if dec["k"] == "call" and dec["t"]["f"]["name"] == "new":
            v, _ = q.origin_thru(b, dec["t"]["args"][0], transparent={"resolvo::solver::clause::Literal::variable"})
            val, _ = q.origin_thru(b, dec["t"]["args"][1], transparent={"resolvo::solver::clause::Literal::satisfying_value"})
            why, _ = q.origin_thru(b, dec["t"]["args"][2], transparent=set())
            same_lit = v.get("l") == val.get("l") and v["k"] == val["k"]
            # that literal is watched_literals[1 - watch_index]
            other = False
            vt = b.origin(dec["t"]["args"][0])
            lit_local = None
            if vt["k"] == "call" and vt["t"]["f"]["name"] == "variable":
                p0 = operand_place(vt["t"]["args"][0])
                cur = p0["l"] if p0 else None
                for _ in range(4):
                    if cur is None:
                        break
                    ds = b.defs_of(cur)
                    if len(ds) != 1 or ds[0][1] == "term" or ds[0][2]["k"] != "use":
                        break
                    p = operand_place(ds[0][2]["o"])
                    if p is None:
                        break
                    idxs = [e["idx"] for e in p.get("p", []) if isinstance(e, dict) and "idx" in e]
                    if idxs:
                        idd = b.origin({"k": "copy", "p": {"l": idxs[0]}})
                        if idd["k"] == "rvalue" and idd["r"]["k"] == "bin" and idd["r"]["op"].replace("WithOverflow", "") == "Sub" \
                                and idd["r"]["a"].get("v") == 1:
                            wi, _ = q.origin_thru(b, idd["r"]["b"], transparent=set())
                            other = wi["k"] == "call" and wi["t"]["f"]["name"] == "watch_index"
                        break
                    cur = p["l"] if "p" not in p else None
            reason_ok = why["k"] == "call" and why["t"]["f"]["name"] == "clause_id"
            ok = same_lit and other and reason_ok
            detail = "literal-consistent=%s other-watch=%s reason=cursor.clause_id=%s" % (same_lit, other, reason_ok)
        ctx.ob(R, b.key, "decides-other-watch-with-cursor-clause", ok, where_call(b, i), detail)
        # only reached when no replacement literal was found (None edge of next_unwatched_literal) and the other watch is not true
        okg = False
        for c in cs:
            if c.kind == "discr" and c.src and c.src["k"] == "call" and c.src["t"]["f"]["name"] == "next_unwatched_literal":
                if q.edge_dominates(b, c.bb, c.target("None"), i):
                    okg = True
        ctx.ob(R, b.key, "unit-only-if-no-replacement", okg, where_call(b, i),
               "a literal is forced only when no other literal of the clause can be watched")
    up = [(i, t) for i, t in b.calls() if t.get("f") and t["f"]["name"] == "update" and "watch_map" in t["f"]["path"]]
    ctx.floor(R, "cursor.update in propagate", len(up), 1)
    for i, t in up:
        d, _ = q.origin_thru(b, t["args"][1], transparent=set())
        ok = d["k"] == "call" and d["t"]["f"]["name"] == "next_unwatched_literal" and \
            any(isinstance(e, dict) and e.get("as") == "Some" for e in d.get("proj", []))
        ctx.ob(R, b.key, "watch-moves-to-found-literal", ok, where_call(b, i), "the watch is moved to the literal next_unwatched_literal found")
    # the literal handed to the cursor is (variable, value) of the decision being propagated
    cur = [(i, t) for i, t in b.calls() if t.get("f") and t["f"]["name"] == "cursor"]
    for i, t in cur:
        ld, _ = q.origin_thru(b, t["args"][2], transparent=set())
        ok = False
        if ld["k"] == "call" and ld["t"]["f"]["name"] == "new" and "Literal" in ld["t"]["f"]["path"]:
            a0, _ = q.origin_thru(b, ld["t"]["args"][0], transparent=set())
            a1, _ = q.origin_thru(b, ld["t"]["args"][1], transparent=set())
            ok = any(isinstance(e, dict) and e.get("n") == "variable" for e in a0.get("proj", [])) and \
                any(isinstance(e, dict) and e.get("n") == "value" for e in a1.get("proj", []))
        ctx.ob(R, b.key, "propagates-literal-turned-false", ok, where_call(b, i),
               "the watch list walked is that of Literal::new(decision.variable, decision.value) - the literal that became false")
    ctx.floor(R, "watch cursor in propagate", len(cur), 1)


def trail(ctx, crate, crs, tag):
    R = "trail" + tag
    b = body_by_key(crate, DT + "try_add_decision")
    if b is None:
        ctx.ob(R, DT + "try_add_decision", "exists", False, "", "not found")
        return
    cs = q.conds(b, crs)
    sets = b.calls_to("resolvo::solver::decision_map::DecisionMap::set")
    pushes = [(i, t) for i, t in b.calls() if t.get("f") and t["f"]["name"] == "push"]
    okn = False
    for c in cs:
        if c.kind == "discr" and c.adt == "std::option::Option" and c.src and c.src["k"] == "call" and c.src["t"]["f"]["name"] == "value":
            nt = c.target("None")
            if sets and pushes and q.edge_dominates(b, c.bb, nt, sets[0][0]) and q.edge_dominates(b, c.bb, nt, pushes[0][0]):
                okn = True
    ctx.ob(R, b.key, "new-assignment-only-if-unassigned", okn, b.loc(), "map.set and stack.push happen only for a variable without a value")
    # results: Ok(true) on the None path, Err on the mismatch path, Ok(false) when equal
    res = {}
    for i, j, s in b.assigns():
        r = s["r"]
        if s["p"]["l"] == 0 and r["k"] == "agg" and r.get("adt") == "std::result::Result":
            v = r["variant"]
            payload = r["ops"][0].get("v") if r["ops"] else None
            res.setdefault(v, set()).add(payload)
    ctx.ob(R, b.key, "results:Ok(true)/Ok(false)/Err", res.get("Ok") == {True, False} and "Err" in res, b.loc(), "result constructions: %s" % res)
    okeq = False
    for c in cs:
        if c.kind in ("cmp", "bool"):
            if c.kind == "cmp" and c.op == "Eq":
                tr = c.target(True)
                for i, j, s in b.assigns():
                    r = s["r"]
                    if s["p"]["l"] == 0 and r["k"] == "agg" and r.get("variant") == "Ok" and r["ops"][0].get("v") is False \
                            and q.edge_dominates(b, c.bb, tr, i):
                        # and equality alone decides: no Err is reachable from the `equal` edge
                        errs = [ii for ii, jj, ss in b.assigns() if ss["p"]["l"] == 0 and ss["r"]["k"] == "agg" and ss["r"].get("variant") == "Err"]
                        if not any(e in b.reachable([tr]) for e in errs):
                            okeq = True
    ctx.ob(R, b.key, "same-value->Ok(false)", okeq, b.loc(), "an equal existing value is not an error and not a new decision")
    # set(variable, value, level) uses the decision's fields and the level argument
    for i, t in sets:
        a1, _ = q.origin_thru(b, t["args"][1], transparent=set())
        a2, _ = q.origin_thru(b, t["args"][2], transparent=set())
        a3, _ = q.origin_thru(b, t["args"][3], transparent=set())
        ok = any(isinstance(e, dict) and e.get("n") == "variable" for e in a1.get("proj", [])) and \
            any(isinstance(e, dict) and e.get("n") == "value" for e in a2.get("proj", [])) and a3["k"] == "arg" and a3["l"] == 3
        ctx.ob(R, b.key, "records(variable,value,level)", ok, where_call(b, i), "the map records the decision's variable, value and the given level")
