"""Mechanism analyses over SolverCache / Encoder shared by C09, C10, C11, C13, C20."""
from common import *
import q

LOOKUPS = {"resolvo::internal::frozen_copy_map::FrozenCopyMap::get_copy", "elsa::FrozenMap::get"}
INSERTS = {"resolvo::internal::frozen_copy_map::FrozenCopyMap::insert_copy", "elsa::FrozenMap::insert"}

# (name, async fn holding it, provider call predicate, memo map field, key arg index of provider call or None)
MEMO = [
    ("candidates", CACHE + "get_or_cache_candidates", lambda f: provider_call(f, "get_candidates"),
     "package_name_to_candidates", 1),
    ("dependencies", CACHE + "get_or_cache_dependencies", lambda f: provider_call(f, "get_dependencies"),
     "solvable_to_dependencies", 1),
    ("matching", CACHE + "get_or_cache_matching_candidates", lambda f: provider_call(f, "filter_candidates"),
     "version_set_candidates", 2),
    ("non-matching", CACHE + "get_or_cache_non_matching_candidates", lambda f: provider_call(f, "filter_candidates"),
     "version_set_inverse_candidates", 2),
    ("sorted-single", CACHE + "get_or_cache_sorted_candidates_for_version_set", lambda f: provider_call(f, "sort_candidates"),
     "requirement_to_sorted_candidates", None),
    ("sorted-union", CACHE + "get_or_cache_sorted_candidates", "futures::future::try_join_all",
     "requirement_to_sorted_candidates", None),
]


def key_desc(body, op):
    d, chain = q.origin_thru(body, op)
    return d


def memo_check(ctx, rule, crate, crs, tag=""):
    """T-MEMO: provider call dominated by the miss edge of the lookup in its memo map (same key),
    and on every non-error path followed by the insert into that map (same key)."""
    for name, fn, pred, field, karg in MEMO:
        b = body_by_key(crate, fn, coroutine=True)
        if b is None:
            ctx.ob(rule + tag, fn, "memo:%s" % name, False, "", "async body of %s not found" % fn)
            continue
        sites = b.calls_to(pred)
        if not sites:
            ctx.ob(rule + tag, b.key, "memo:%s" % name, False, b.loc(), "no provider call of this kind left in the function")
            continue
        lookups = q.calls_on_field(b, LOOKUPS, CACHE_ADT, field)
        inserts = q.calls_on_field(b, INSERTS, CACHE_ADT, field)
        cs = q.conds(b, crs)
        for i, t in sites:
            ctx.count("call_sites")
            ok, why = False, "no lookup in %s whose miss edge dominates the provider call" % field
            for li, lt in lookups:
                for c in cs:
                    if c.kind != "discr" or not c.src or c.src["k"] != "call" or c.src["bb"] != li:
                        continue
                    miss = c.target("None")
                    if miss is None or not q.edge_dominates(b, c.bb, miss, i):
                        continue
                    # same key for lookup / insert
                    lk = key_desc(b, lt["args"][1])
                    ins_ok = [(ii, it) for ii, it in inserts if q.same_origin(lk, key_desc(b, it["args"][1]))]
                    if not ins_ok:
                        why = "no insert into %s with the key of the lookup" % field
                        continue
                    if karg is not None and not q.same_origin(lk, key_desc(b, t["args"][karg])):
                        why = "provider is called with a different key than the one looked up"
                        continue
                    if not postdominated_modulo_errors(b, i, [ii for ii, _ in ins_ok]):
                        why = "a non-error path from the provider call reaches return without inserting into %s" % field
                        continue
                    ok = True
            ctx.ob(rule + tag, b.key, "memo:%s" % name, ok, where_call(b, i),
                   ("provider result memoised in %s under the looked-up key" % field) if ok else why)


def choke_points(ctx, rule, crate, tag=""):
    """T-WHO: which functions call the four provider methods."""
    allowed = {
        "get_candidates": {CACHE + "get_or_cache_candidates"},
        "get_dependencies": {CACHE + "get_or_cache_dependencies"},
        "filter_candidates": {CACHE + "get_or_cache_matching_candidates", CACHE + "get_or_cache_non_matching_candidates"},
        "sort_candidates": {CACHE + "get_or_cache_sorted_candidates_for_version_set",
                            "resolvo::snapshot::DependencySnapshot::from_provider_async"},
    }
    found = {m: set() for m in allowed}
    for b in crate.bodies:
        for i, t in b.calls():
            f = t.get("f")
            if f is None:
                continue
            for m in allowed:
                if provider_call(f, m):
                    fn = q.enclosing_fn(crate, b)
                    found[m].add(fn)
                    ctx.count("call_sites")
                    ctx.ob(rule + tag, fn, "D::%s" % m, fn in allowed[m], where_call(b, i),
                           "provider method may only be called from its cache choke point" if fn in allowed[m]
                           else "provider method called outside the cache choke points %s" % sorted(allowed[m]))
    for m in allowed:
        ctx.floor(rule + tag, "choke point for %s" % m, len(found[m] & allowed[m]), 1)


def callers_exact(ctx, rule, crate, callee, allowed, tag="", min_sites=1):
    sites = q.callers_of(crate, callee)
    fns = set()
    for b, i, t in sites:
        fn = q.enclosing_fn(crate, b)
        fns.add(fn)
        ctx.count("call_sites")
        ctx.ob(rule + tag, fn, "calls:%s" % callee.split("::")[-1], fn in allowed, where_call(b, i),
               "caller is one of %s" % sorted(a.split("::")[-1] for a in allowed))
    ctx.floor(rule + tag, "call sites of %s" % callee.split("::")[-1], len(sites), min_sites)
    return sites


def dedup_guard(ctx, rule, crate, crs, fn, set_field, tag=""):
    """In queue_solvable / queue_package: FuturesUnordered::push dominated by the `true`
    result of HashSet::insert on the per-solve dedup set."""
    b = body_by_key(crate, fn)
    if b is None:
        ctx.ob(rule + tag, fn, "dedup:%s" % set_field, False, "", "function not found")
        return
    pushes = b.calls_to("futures::stream::FuturesUnordered::push")
    ins = q.calls_on_field(b, "std::collections::HashSet::insert", STATE_ADT, set_field)
    cs = q.conds(b, crs)
    ok, why = False, "no FuturesUnordered::push / HashSet::insert(%s) pair found" % set_field
    for pi, pt in pushes:
        for ii, it in ins:
            for c in cs:
                if c.kind == "bool" and c.src and c.src.get("k") == "call" and c.src.get("bb") == ii:
                    tr = c.target(True)
                    if q.edge_dominates(b, c.bb, tr, pi):
                        ok = True
                    else:
                        why = "push is not dominated by the `newly inserted` edge of %s.insert" % set_field
    ctx.ob(rule + tag, b.key, "dedup:%s" % set_field, ok, b.loc(),
           "future is only queued when the id was newly inserted into %s" % set_field if ok else why)


def availability_query(ctx, rule, crate, crs, tag=""):
    """are_dependencies_available_for returns true only (a) behind is_some() of the dependencies
    map lookup, or (b) as the hint bit (unwrap_or(false))."""
    fn = CACHE + "are_dependencies_available_for"
    b = body_by_key(crate, fn)
    if b is None:
        ctx.ob(rule + tag, fn, "availability", False, "", "function not found")
        return
    cs = q.conds(b, crs)
    lookups = q.calls_on_field(b, LOOKUPS, CACHE_ADT, "solvable_to_dependencies")
    n_true = 0
    for i, j, s in b.assigns():
        if s["p"]["l"] != 0 or "p" in s["p"]:
            continue
        r = s["r"]
        if r["k"] == "use" and r["o"].get("k") == "const":
            v = r["o"].get("v")
            if v is True:
                n_true += 1
                ok = False
                for c in cs:
                    if c.kind != "bool" or not c.src or c.src.get("k") != "call":
                        continue
                    t = c.src["t"]
                    if "std::option::Option::is_some" not in callee_keys(t["f"]):
                        continue
                    d, _ = q.origin_thru(b, t["args"][0])
                    if d["k"] == "call" and any(d["bb"] == li for li, _ in lookups):
                        if q.edge_dominates(b, c.bb, c.target(True), i):
                            ok = True
                ctx.ob(rule + tag, b.key, "const-true-return", ok, "%s:%s" % (b.file, s["line"]),
                       "`true` is returned only when the dependencies are already cached")
    # the other return value: unwrap_or(const false) of the hint bit
    n_hint = 0
    for i, t in b.calls_to("std::option::Option::unwrap_or"):
        if t["dest"]["l"] == 0 or True:
            n_hint += 1
            a1 = t["args"][1]
            ok = a1.get("k") == "const" and a1.get("v") is False
            d, chain = q.origin_thru(b, t["args"][0], transparent=q.TRANSPARENT | {"bitvec::slice::api::get", "std::option::Option::copied"})
            ok2 = q.mentions_field(d, CACHE_ADT, "hint_dependencies_available")
            ctx.ob(rule + tag, b.key, "hint-default-false", ok and ok2, where_call(b, i),
                   "missing hint bit defaults to false and the bit comes from hint_dependencies_available")
    ctx.floor(rule + tag, "cached-dependencies shortcut in availability query", n_true, 1)
    ctx.floor(rule + tag, "hint-bit read in availability query", n_hint, 1)
    # any other way to produce the return value?
    for i, j, s in b.assigns():
        if s["p"]["l"] == 0 and "p" not in s["p"]:
            r = s["r"]
            if not (r["k"] == "use" and r["o"].get("k") == "const"):
                ctx.ob(rule + tag, b.key, "other-return-source", False, "%s:%s" % (b.file, s["line"]),
                       "return value computed by something other than the cached-lookup / hint-bit reads")
    for i, t in b.calls():
        if "p" not in t["dest"] and t["dest"]["l"] == 0 and "std::option::Option::unwrap_or" not in callee_keys(t["f"]):
            ctx.ob(rule + tag, b.key, "other-return-source", False, where_call(b, i),
                   "return value produced by %s" % t["f"]["path"])


def hint_writers(ctx, rule, crate, tag=""):
    """Who mutably borrows hint_dependencies_available."""
    n = 0
    for b in crate.bodies:
        for i, t in q.calls_on_field(b, "std::cell::RefCell::borrow_mut", CACHE_ADT, "hint_dependencies_available"):
            n += 1
            fn = q.enclosing_fn(crate, b)
            ctx.ob(rule + tag, fn, "writes:hint_dependencies_available", fn == CACHE + "get_or_cache_candidates",
                   where_call(b, i), "hint bits are written only when a package's candidates arrive")
    ctx.floor(rule + tag, "writer of hint bits", n, 1)
