"""Mechanism analyses over SolverCache / Encoder shared by C09, C10, C11, C13, C20."""
from common import *
import q

LOOKUPS = {"resolvo::internal::frozen_copy_map::FrozenCopyMap::get_copy", "elsa::FrozenMap::get"}
INSERTS = {"resolvo::internal::frozen_copy_map::FrozenCopyMap::insert_copy", "elsa::FrozenMap::insert"}

# (name, async fn holding it, provider call predicate, memo map field, key arg index of provider call or None)
MEMO = [
    ("candidates", CACHE + "get_or_cache_candidates", lambda f: provider_call(f, "get_candidates"),
     "package_name_to_candidates", 1),
    ("dependencies", CACHE + "get_or_cache_dependencies", lambda f: provider_call(f, "get_dependencies"),
     "solvable_to_dependencies", 1),
    ("matching", CACHE + "get_or_cache_matching_candidates", lambda f: provider_call(f, "filter_candidates"),
     "version_set_candidates", 2),
    ("non-matching", CACHE + "get_or_cache_non_matching_candidates", lambda f: provider_call(f, "filter_candidates"),
     "version_set_inverse_candidates", 2),
    ("sorted-single", CACHE + "get_or_cache_sorted_candidates_for_version_set", lambda f: provider_call(f, "sort_candidates"),
     "requirement_to_sorted_candidates", None),
    ("sorted-union", CACHE + "get_or_cache_sorted_candidates", "futures::future::try_join_all",
     "requirement_to_sorted_candidates", None),
]


def key_desc(body, op):
    d, chain = q.origin_thru(body, op)
    return d


def memo_check(ctx, rule, crate, crs, tag=""):
    """T-MEMO: provider call dominated by the miss edge of the lookup in its memo map (same key),
    and on every non-error path followed by the insert into that map (same key)."""
    for name, fn, pred, field, karg in MEMO:
        b = body_by_key(crate, fn, coroutine=True)
        if b is None:
            ctx.ob(rule + tag, fn, "memo:%s" % name, False, "", "async body of %s not found" % fn)
            continue
        sites = b.calls_to(pred)
        if not sites:
            ctx.ob(rule + tag, b.key, "memo:%s" % name, False, b.loc(), "no provider call of this kind left in the function")
            continue
        lookups = q.calls_on_field(b, LOOKUPS, CACHE_ADT, field)
        inserts = q.calls_on_field(b, INSERTS, CACHE_ADT, field)
        cs = q.conds(b, crs)
        for i, t in sites:
            ctx.count("call_sites")
            ok, why = False, "no lookup in %s whose miss edge dominates the provider call" % field
            for li, lt in lookups:
                for c in cs:
                    if c.kind != "discr" or not c.src or c.src["k"] != "call" or c.src["bb"] != li:
                        continue
                    miss = c.target("None")
                    if miss is None or not q.edge_dominates(b, c.bb, miss, i):
                        continue
                    # same key for lookup / insert
                    lk = key_desc(b, lt["args"][1])
                    ins_ok = [(ii, it) for ii, it in inserts if q.same_origin(lk, key_desc(b, it["args"][1]))]
                    if not ins_ok:
                        why = "no insert into %s with the key of the lookup" % field
                        continue
                    if karg is not None and not q.same_origin(lk, key_desc(b, t["args"][karg])):
                        why = "provider is called with a different key than the one looked up"
                        continue
                    if not postdominated_modulo_errors(b, i, [ii for ii, _ in ins_ok]):
                        why = "a non-error path from the provider call reaches return without inserting into %s" % field
                        continue
                    ok = True
            # what is stored is the provider's answer: every insert into the table on the miss path comes after the provider call
            # (seed C20-15: sort_candidates skipped for locked packages, the unsorted list is cached)
            if len(sites) == 1:
                dom = b.dominators()
                for ii, it in inserts:
                    ctx.ob(rule + tag, b.key, "stored-value-comes-after-the-provider-call:%s" % name, i in dom.get(ii, set()) or i == ii, where_call(b, ii),
                           "the insert into %s is dominated by the provider call whose answer it stores" % field)
            ctx.ob(rule + tag, b.key, "memo:%s" % name, ok, where_call(b, i),
                   ("provider result memoised in %s under the looked-up key" % field) if ok else why)
    table_writers(ctx, rule, crate, tag)


TABLE_WRITERS = {
    "candidates": {"get_or_cache_candidates"},
    "package_name_to_candidates": {"get_or_cache_candidates"},
    "version_set_candidates": {"get_or_cache_matching_candidates"},
    "version_set_inverse_candidates": {"get_or_cache_non_matching_candidates"},
    "requirement_to_sorted_candidates": {"get_or_cache_sorted_candidates_for_version_set", "get_or_cache_sorted_candidates"},
    "solvable_dependencies": {"get_or_cache_dependencies"},
    "solvable_to_dependencies": {"get_or_cache_dependencies"},
}


def table_writers(ctx, rule, crate, tag=""):
    """Who may write a memo table of the cache, decided by the *type* of the table written to (so a reference to the table
    smuggled into another struct - a drop guard, a helper object - is seen too): every insert_copy / insert / alloc whose
    receiver has the type of a SolverCache table sits in the fetch function that owns that table.  The tables persist across
    solves; an entry that is not the provider's answer (seed C13-15: a placeholder stored for an abandoned request) poisons
    every later solve."""
    a = crate.adts.get(CACHE_ADT)
    if not a:
        ctx.ob(rule + tag, CACHE_ADT, "table-writers", False, "", "SolverCache not found")
        return
    by_type = {}
    for f in a["variants"][0]["fields"]:
        if f["name"] in TABLE_WRITERS:
            by_type.setdefault(f["ty"], set()).update(CACHE + x for x in TABLE_WRITERS[f["name"]])
    n = 0
    for b in crate.bodies:
        for i, t in b.calls():
            f = t.get("f")
            if f is None or f["name"] not in ("insert_copy", "insert", "alloc") or not t["args"]:
                continue
            p = operand_place(t["args"][0])
            if p is None:
                continue
            ty = b.local_ty(p["l"])
            while ty.startswith("&"):
                ty = ty[1:].lstrip()
                if ty.startswith("mut "):
                    ty = ty[4:]
                if ty.startswith("'"):
                    ty = ty.split(" ", 1)[1] if " " in ty else ty
            if ty not in by_type:
                continue
            n += 1
            fn = q.enclosing_fn(crate, b)
            ctx.ob(rule + tag, fn, "table-written-only-by-its-fetch-function:%s" % ty.split("<")[0].split("::")[-1], fn in by_type[ty], where_call(b, i),
                   "a %s is written here; its owner is %s" % (ty[:90], sorted(x.split("::")[-1] for x in by_type[ty])))
    ctx.floor(rule + tag, "writes to cache tables", n, 6)
    # what is allocated in the two answer arenas is the provider's answer itself (seed C20-17: an abandoned request is answered
    # with a freshly allocated, empty Candidates - the derived lists computed from it are cached for good)
    for fn, arena, call in (("get_or_cache_candidates", "candidates", "get_candidates"),
                            ("get_or_cache_dependencies", "solvable_dependencies", "get_dependencies")):
        b = body_by_key(crate, CACHE + fn, coroutine=True)
        if b is None:
            continue
        for i, t in q.calls_on_field(b, "resolvo::internal::arena::Arena::alloc", CACHE_ADT, arena):
            lv = q.leaves(b, t["args"][1]) if len(t["args"]) > 1 else set()
            ctx.ob(rule + tag, b.key, "allocated-answer-is-the-provider's:%s" % arena, ("call:" + call) in lv, where_call(b, i),
                   "the value allocated in %s is computed from D::%s (sources: %s)" % (arena, call, ", ".join(sorted(x for x in lv if x.startswith("call:")))[:120]))


def choke_points(ctx, rule, crate, tag=""):
    """T-WHO: which functions call the four provider methods."""
    allowed = {
        "get_candidates": {CACHE + "get_or_cache_candidates"},
        "get_dependencies": {CACHE + "get_or_cache_dependencies"},
        "filter_candidates": {CACHE + "get_or_cache_matching_candidates", CACHE + "get_or_cache_non_matching_candidates"},
        "sort_candidates": {CACHE + "get_or_cache_sorted_candidates_for_version_set",
                            "resolvo::snapshot::DependencySnapshot::from_provider_async"},
    }
    found = {m: set() for m in allowed}
    for b in crate.bodies:
        for i, t in b.calls():
            f = t.get("f")
            if f is None:
                continue
            for m in allowed:
                if provider_call(f, m):
                    fn = q.enclosing_fn(crate, b)
                    found[m].add(fn)
                    ctx.count("call_sites")
                    ctx.ob(rule + tag, fn, "D::%s" % m, fn in allowed[m], where_call(b, i),
                           "provider method may only be called from its cache choke point" if fn in allowed[m]
                           else "provider method called outside the cache choke points %s" % sorted(allowed[m]))
    for m in allowed:
        ctx.floor(rule + tag, "choke point for %s" % m, len(found[m] & allowed[m]), 1)


def callers_exact(ctx, rule, crate, callee, allowed, tag="", min_sites=1):
    sites = q.callers_of(crate, callee)
    fns = set()
    for b, i, t in sites:
        fn = q.enclosing_fn(crate, b)
        fns.add(fn)
        ctx.count("call_sites")
        ctx.ob(rule + tag, fn, "calls:%s" % callee.split("::")[-1], fn in allowed, where_call(b, i),
               "caller is one of %s" % sorted(a.split("::")[-1] for a in allowed))
    ctx.floor(rule + tag, "call sites of %s" % callee.split("::")[-1], len(sites), min_sites)
    return sites


def dedup_guard(ctx, rule, crate, crs, fn, set_field, tag=""):
    """In queue_solvable / queue_package: FuturesUnordered::push dominated by the `true`
    result of HashSet::insert on the per-solve dedup set."""
    b = body_by_key(crate, fn)
    if b is None:
        ctx.ob(rule + tag, fn, "dedup:%s" % set_field, False, "", "function not found")
        return
    pushes = b.calls_to("futures::stream::FuturesUnordered::push")
    ins = q.calls_on_field(b, "std::collections::HashSet::insert", STATE_ADT, set_field)
    cs = q.conds(b, crs)
    ok, why = False, "no FuturesUnordered::push / HashSet::insert(%s) pair found" % set_field
    for pi, pt in pushes:
        for ii, it in ins:
            for c in cs:
                if c.kind == "bool" and c.src and c.src.get("k") == "call" and c.src.get("bb") == ii:
                    tr = c.target(True)
                    if q.edge_dominates(b, c.bb, tr, pi):
                        ok = True
                    else:
                        why = "push is not dominated by the `newly inserted` edge of %s.insert" % set_field
    ctx.ob(rule + tag, b.key, "dedup:%s" % set_field, ok, b.loc(),
           "future is only queued when the id was newly inserted into %s" % set_field if ok else why)
    # ... and the converse: an id that was marked (newly inserted) is always queued - a return between the mark and the push leaves
    # a solvable / package that counts as encoded but never gets clauses (seed C02-17)
    conv = False
    for ii, it in ins:
        for c in cs:
            if c.kind == "bool" and c.src and c.src.get("k") == "call" and c.src.get("bb") == ii:
                tr = c.target(True)
                reach = b.reachable([tr], avoid=[pi for pi, _ in pushes])
                if pushes and not (set(b.return_blocks()) & reach):
                    conv = True
    ctx.ob(rule + tag, b.key, "marked-implies-queued:%s" % set_field, conv, b.loc(),
           "every path from the `newly inserted` edge of %s.insert to the return queues the future" % set_field)


def availability_query(ctx, rule, crate, crs, tag=""):
    """are_dependencies_available_for returns true only (a) behind is_some() of the dependencies
    map lookup, or (b) as the hint bit (unwrap_or(false))."""
    fn = CACHE + "are_dependencies_available_for"
    b = body_by_key(crate, fn)
    if b is None:
        ctx.ob(rule + tag, fn, "availability", False, "", "function not found")
        return
    cs = q.conds(b, crs)
    lookups = q.calls_on_field(b, LOOKUPS, CACHE_ADT, "solvable_to_dependencies")
    n_true = 0
    for i, j, s in b.assigns():
        if s["p"]["l"] != 0 or "p" in s["p"]:
            continue
        r = s["r"]
        if r["k"] == "use" and r["o"].get("k") == "const":
            v = r["o"].get("v")
            if v is True:
                n_true += 1
                ok = False
                for c in cs:
                    if c.kind != "bool" or not c.src or c.src.get("k") != "call":
                        continue
                    t = c.src["t"]
                    if "std::option::Option::is_some" not in callee_keys(t["f"]):
                        continue
                    d, _ = q.origin_thru(b, t["args"][0])
                    if d["k"] == "call" and any(d["bb"] == li for li, _ in lookups):
                        if q.edge_dominates(b, c.bb, c.target(True), i):
                            ok = True
                ctx.ob(rule + tag, b.key, "const-true-return", ok, "%s:%s" % (b.file, s["line"]),
                       "`true` is returned only when the dependencies are already cached")
    # the other return value: unwrap_or(const false) of the hint bit
    n_hint = 0
    for i, t in b.calls_to("std::option::Option::unwrap_or"):
        if t["dest"]["l"] == 0 or True:
            n_hint += 1
            a1 = t["args"][1]
            ok = a1.get("k") == "const" and a1.get("v") is False
            d, chain = q.origin_thru(b, t["args"][0], transparent=q.TRANSPARENT | {"bitvec::slice::api::get", "std::option::Option::copied"})
            ok2 = q.mentions_field(d, CACHE_ADT, "hint_dependencies_available")
            ctx.ob(rule + tag, b.key, "hint-default-false", ok and ok2, where_call(b, i),
                   "missing hint bit defaults to false and the bit comes from hint_dependencies_available")
    ctx.floor(rule + tag, "cached-dependencies shortcut in availability query", n_true, 1)
    # every other way to produce the return value reads the hint bits and nothing else (`.copied().unwrap_or(false)`, or a
    # `match bits.get(idx) { Some(&b) => b, None => false }` - the shape is not pinned, the data source is)
    for i, j, s in b.assigns():
        if s["p"]["l"] == 0 and "p" not in s["p"]:
            r = s["r"]
            if r["k"] == "use" and r["o"].get("k") == "const":
                continue
            lv = q.leaves(b, r["o"]) if r["k"] == "use" else (q.leaves(b, {"k": "copy", "p": r["p"]}) if r["k"] in ("ref", "copyderef") else {"unknown:rvalue"})
            flds = {x.split(":", 1)[1].split(".")[-1] for x in lv if x.startswith(("field:", "lfield:"))}
            okh = "hint_dependencies_available" in flds and flds <= {"hint_dependencies_available", "0"} and not any(x.startswith("unknown:") for x in lv)
            n_hint += 1 if okh else 0
            ctx.ob(rule + tag, b.key, "other-return-source", okh, "%s:%s" % (b.file, s["line"]),
                   "a non-constant answer is computed from the hint bits alone (reads: %s)" % ", ".join(sorted(flds)))
    for i, t in b.calls():
        if "p" not in t["dest"] and t["dest"]["l"] == 0:
            lv = set()
            for a_ in t["args"]:
                lv |= q.leaves(b, a_)
            flds = {x.split(":", 1)[1].split(".")[-1] for x in lv if x.startswith(("field:", "lfield:"))}
            okh = "hint_dependencies_available" in flds and flds <= {"hint_dependencies_available", "0"}
            n_hint += 1 if okh else 0
            if "std::option::Option::unwrap_or" not in callee_keys(t["f"]) or not okh:
                ctx.ob(rule + tag, b.key, "other-return-source", okh, where_call(b, i),
                       "the answer produced by %s is computed from the hint bits alone (reads: %s)" % (t["f"]["name"], ", ".join(sorted(flds))))
    ctx.floor(rule + tag, "hint-bit read in availability query", n_hint, 1)


def hint_writers(ctx, rule, crate, tag=""):
    """Who mutably borrows hint_dependencies_available."""
    n = 0
    for b in crate.bodies:
        for i, t in q.calls_on_field(b, "std::cell::RefCell::borrow_mut", CACHE_ADT, "hint_dependencies_available"):
            n += 1
            fn = q.enclosing_fn(crate, b)
            ctx.ob(rule + tag, fn, "writes:hint_dependencies_available", fn == CACHE + "get_or_cache_candidates",
                   where_call(b, i), "hint bits are written only when a package's candidates arrive")
    ctx.floor(rule + tag, "writer of hint bits", n, 1)
    # the bit vector only grows and bits are only ever set: a hint once recorded is never lost
    writer_roots = {strip_generics(b.root or b.key) for b in crate.bodies
                    if q.calls_on_field(b, "std::cell::RefCell::borrow_mut", CACHE_ADT, "hint_dependencies_available")}
    for b in crate.bodies:
        direct = bool(q.calls_on_field(b, "std::cell::RefCell::borrow_mut", CACHE_ADT, "hint_dependencies_available"))
        in_closure = b.kind == "Closure" and b.root and strip_generics(b.root) in writer_roots
        if not direct and not in_closure:
            continue
        crs_ = ()
        cs = q.conds(b, crs_)
        for i, t in b.calls():
            f = t.get("f")
            if not f or not t["args"] or f["name"] not in ("resize", "truncate", "clear", "pop", "set", "fill", "retain", "set_len",
                                                         "resize_with", "swap_remove", "remove", "drain", "split_off", "shrink_to_fit", "set_elements"):
                continue
            lv = q.leaves(b, t["args"][0])
            p0 = operand_place(t["args"][0])
            bitvec_recv = p0 is not None and ("BitVec" in b.local_ty(p0["l"]) or "BitSlice" in b.local_ty(p0["l"]))
            if not _reads_hint_bits(lv) and not (in_closure and (bitvec_recv or "bitvec" in f["path"])):
                continue
            nm = f["name"]
            if nm == "shrink_to_fit":
                continue
            if nm == "set":
                v = t["args"][2]
                vd = b.origin(v)
                is_true = (v.get("k") == "const" and v.get("v") is True) or (vd["k"] == "const" and vd["c"].get("v") is True)
                ctx.ob(rule + tag, b.key, "hint-bits-only-set-true", is_true, where_call(b, i), "hint bits are only ever switched on")
            elif nm in ("resize", "resize_with"):
                ok = False
                for c in cs:
                    if c.kind != "cmp" or c.op not in ("Le", "Lt", "Ge", "Gt"):
                        continue
                    la, lb = q.leaves(b, c.a), q.leaves(b, c.b)
                    a_len = "call:len" in la and (_reads_hint_bits(la) or in_closure)
                    b_len = "call:len" in lb and (_reads_hint_bits(lb) or in_closure)
                    if a_len == b_len:
                        continue
                    smaller = (c.op in ("Le", "Lt")) == a_len       # edge on which len is the smaller side
                    if q.edge_dominates(b, c.bb, c.target(smaller), i):
                        ok = True
                ctx.ob(rule + tag, b.key, "hint-bits-grow-only", ok, where_call(b, i),
                       "the hint bit vector is resized only when it is too short (a shrinking resize drops recorded hints)")
            else:
                ctx.ob(rule + tag, b.key, "hint-bits-grow-only", False, where_call(b, i), "%s() on the hint bit vector can drop recorded hints" % nm)

def _reads_hint_bits(lv):
    return any(x.split(":", 1)[0] in ("field", "lfield") and x.endswith("hint_dependencies_available") for x in lv)


USIZE_MAX = 18446744073709551615

def guard_locals(b):
    return [i for i, l in enumerate(b.locals) if l["ty"].startswith("std::cell::Ref<") or l["ty"].startswith("std::cell::RefMut<")]



def live_blocks(b, local):
    """Blocks in which `local` may be live: reachable from a definition without passing its drop /
    StorageDead (normal + resume edges)."""
    defs = [bb for bb, idx, r in b.defs_of(local)]
    kills = set()
    for i, t in b.terms("drop"):
        if t["p"]["l"] == local and "p" not in t["p"]:
            kills.add(i)
    for i, blk in enumerate(b.blocks):
        for s in blk["stmts"]:
            if s["k"] == "dead" and s["l"] == local:
                kills.add(i)
    # moved out: `_x = move _local` also ends the guard's life in this local
    out = set()
    for d in defs:
        out |= b.reachable_after(d, avoid=kills)
        t = b.blocks[d]["term"]
    return out, kills



def guards(ctx, crate, tag, rule="no-guard-across-await"):
    cos = [b for b in crate.bodies if b.coroutine]
    ctx.floor(rule + tag, "coroutines with suspension points",
              sum(1 for b in cos if b.yields()), 8)
    n = 0
    for b in cos:
        ys = set(b.yields())
        if not ys:
            continue
        ordinal = {}
        for l in guard_locals(b):
            n += 1
            fld = _guard_field(b, l)
            ordinal[fld] = ordinal.get(fld, 0) + 1
            live, kills = live_blocks(b, l)
            crossing = sorted(live & ys)
            ctx.ob(rule + tag, b.key, "guard:%s#%d" % (fld, ordinal[fld]), not crossing,
                   b.loc(crossing[0]) if crossing else b.loc(),
                   "RefCell guard dropped before every suspension point" if not crossing else
                   "RefCell guard %s is live across the .await at %s" % (b.local_ty(l)[:60], b.loc(crossing[0])))
    ctx.count("guard_locals", n)
    ctx.floor(rule + tag, "RefCell guard locals in coroutines", n, 3)



def _guard_field(b, l):
    for bb, idx, r in b.defs_of(l):
        if idx == "term" and r["args"]:
            d, _ = q.origin_thru(b, r["args"][0])
            fs = q.fields_of(d)
            if fs:
                return fs[-1][1]
    return "?"



def hand_off(ctx, crate, crs, tag, rule="hand-off"):
    b = body_by_key(crate, CACHE + "get_or_cache_candidates", coroutine=True)
    if b is None:
        ctx.ob(rule + tag, CACHE + "get_or_cache_candidates", "anchor", False, "", "async body not found")
        return
    F = "package_name_to_candidates_in_flight"
    regs = q.calls_on_field(b, "std::collections::HashMap::insert", CACHE_ADT, F)
    rems = q.calls_on_field(b, "std::collections::HashMap::remove", CACHE_ADT, F)
    pubs = q.calls_on_field(b, INSERTS, CACHE_ADT, "package_name_to_candidates")
    nots = b.calls_to("event_listener::Event::notify")
    ctx.floor(rule + tag, "in-flight registration", len(regs), 1)
    for ri, rt in regs:
        for what, sites in (("result-insert", pubs), ("marker-removal", rems), ("notify", nots)):
            ok = bool(sites) and postdominated_modulo_errors(b, ri, [i for i, _ in sites])
            ctx.ob(rule + tag, b.key, "after-register:%s" % what, ok, where_call(b, ri),
                   "%s happens on every completing path after the in-flight registration" % what)
        # same key for registration, publication and removal
        rk = key_desc(b, rt["args"][1])
        for what, sites in (("result-insert", pubs), ("marker-removal", rems)):
            for i, t in sites:
                ctx.ob(rule + tag, b.key, "same-key:%s" % what, q.same_origin(rk, key_desc(b, t["args"][1])),
                       where_call(b, i), "uses the package name that was registered")
    # no suspension between publishing the result and waking the listeners
    for pi, _ in pubs:
        for ni, _ in nots:
            mid = (q.between(b, [pi], ni) | q.between(b, [ni], pi))
            ys = [y for y in mid if b.blocks[y]["term"]["k"] == "yield"]
            ctx.ob(rule + tag, b.key, "no-yield-between-publish-and-notify", not ys, where_call(b, ni),
                   "listeners are woken in the same poll that published the result")
    for ni, nt in nots:
        a = nt["args"][1]
        ctx.ob(rule + tag, b.key, "notify-all", a.get("k") == "const" and a.get("v") == USIZE_MAX, where_call(b, ni),
               "notify(usize::MAX) wakes every listener (argument: %s)" % a.get("v"))
        # the notified event is the one removed from the in-flight map
        d, chain = q.origin_thru(b, nt["args"][0], transparent=q.TRANSPARENT | {"std::option::Option::expect", "std::option::Option::unwrap"})
        ctx.ob(rule + tag, b.key, "notify-removed-event", d["k"] == "call" and any(d["bb"] == i for i, _ in rems),
               where_call(b, ni), "the event notified is the one taken out of the in-flight map")
    # listener side: awaits listen() of the event found in the map, then reads the result map with the same key
    lis = b.calls_to("event_listener::Event::listen")
    ctx.floor(rule + tag, "listener branch", len(lis), 1)
    lookups = q.calls_on_field(b, LOOKUPS, CACHE_ADT, "package_name_to_candidates")
    for li, lt in lis:
        ys = [y for y in b.yields() if y in b.reachable_after(li)]
        awaited = False
        for y in ys:
            d, _ = awaited_origin(b, y)
            if d is not None and d["k"] == "call" and d["bb"] == li:
                awaited = True
                after = [i for i, t in lookups if i in b.reachable([b.blocks[y]["term"]["resume"]])]
                ctx.ob(rule + tag, b.key, "listener-rereads-result", bool(after), b.loc(y),
                       "after the event fires the listener reads the result map again")
        ctx.ob(rule + tag, b.key, "listener-awaits-event", awaited, where_call(b, li),
               "the listener future is awaited (not dropped)")



def cancel_safety(ctx, crate, crs, tag, rule="cancel-safety"):
    """Acquire = HashMap::insert into a RefCell<HashMap> field of SolverCache inside a coroutine;
    release = HashMap::remove on the same field."""
    cache = crate.adts.get(CACHE_ADT)
    fields = [f["name"] for f in cache["variants"][0]["fields"]
              if f["ty"].startswith("std::cell::RefCell<std::collections::HashMap<")] if cache else []
    ctx.floor(rule + tag, "RefCell<HashMap> fields of SolverCache", len(fields), 1)
    n_acq = 0
    for b in crate.bodies:
        if not b.coroutine or not b.key.startswith("resolvo::solver::"):
            continue
        for F in fields:
            acqs = q.calls_on_field(b, "std::collections::HashMap::insert", CACHE_ADT, F)
            rels = [i for i, _ in q.calls_on_field(b, "std::collections::HashMap::remove", CACHE_ADT, F)]
            for ai, at in acqs:
                n_acq += 1
                held = b.reachable_after(ai, avoid=rels)
                ys = sorted(y for y in b.yields() if y in held)
                guards = drop_guards(crate, b, F)
                # early exits (return / `?`) while the entry is held and no guard is live yet
                leaks = [r for r in b.return_blocks() if r in held and
                         not any(guard_live_at(b, gl, gdef, r, ai, via=held) for gl, gdef in guards)]
                ctx.ob(rule + tag, b.key, "acquire:%s:all-exits-release" % F, not leaks, where_call(b, ai),
                       "every return path after the registration removes the entry (or a live guard does)" if not leaks else
                       "a return path after the registration leaves the entry behind (exit at %s)" % b.loc(leaks[0]))
                if not ys:
                    ctx.ob(rule + tag, b.key, "acquire:%s" % F, True, where_call(b, ai),
                           "no suspension point while the entry is held")
                    continue
                uncovered = []
                for y in ys:
                    if not any(guard_live_at(b, gl, gdef, y, ai) for gl, gdef in guards):
                        uncovered.append(y)
                ctx.ob(rule + tag, b.key, "acquire:%s" % F, not uncovered, where_call(b, ai),
                       ("entry held across %d suspension point(s); a guard whose Drop removes it is live at each" % len(ys))
                       if not uncovered else
                       "entry is held across the .await at %s and released only by code after it: a dropped "
                       "(cancelled) future leaves the entry behind" % b.loc(uncovered[0]))
    ctx.floor(rule + tag, "manual acquire sites in SolverCache coroutines", n_acq, 1)



def drop_guards(crate, b, field):
    """Locals of b whose type is a crate ADT with a Drop impl that removes from `field`
    (the guard holds a reference to the RefCell; matched by type of that reference's origin)."""
    out = []
    for li, l in enumerate(b.locals):
        adt = q.adt_of_type(l["ty"])
        if adt not in crate.adts:
            continue
        db = None
        for c in crate.bodies:
            if c.d.get("impl_trait") == "std::ops::Drop" and c.d.get("impl_adt") == adt:
                db = c
        if db is None:
            continue
        removes = db.calls_to("std::collections::HashMap::remove")
        if not removes:
            continue
        # the guard aggregate in b must be built from a reference to CACHE.field
        for i, j, s in b.assigns():
            if s["p"]["l"] == li and "p" not in s["p"] and s["r"]["k"] == "agg" and s["r"].get("adt") == adt:
                for o in s["r"]["ops"]:
                    d, _ = q.origin_thru(b, o)
                    if q.mentions_field(d, CACHE_ADT, field):
                        # does the Drop impl also notify waiters?
                        out.append((li, i))
    return out



def guard_live_at(b, gl, gdef, y, acquire_bb, via=None):
    """Guard local gl (defined in block gdef) is live at block y: every path from the acquire to y (inside
    `via`, the region where the entry is held) passes gdef, and no drop/move of gl lies between gdef and y."""
    if via is not None:
        # y must be unreachable from the acquire (within the held region) when gdef is removed
        if y in b.reachable_after(acquire_bb, avoid=(set(range(b.n)) - set(via)) | {gdef}):
            return False
    elif not b.dominates(gdef, y):
        return False
    kills = set()
    for i, t in b.terms("drop"):
        if t["p"]["l"] == gl and "p" not in t["p"]:
            kills.add(i)
    for i, j, s in b.assigns():
        r = s["r"]
        if r["k"] == "use" and r["o"].get("k") == "move" and r["o"]["p"]["l"] == gl:
            kills.add(i)
    for i, t in b.calls():
        for a in t["args"]:
            if a.get("k") == "move" and a["p"]["l"] == gl and "p" not in a["p"]:
                kills.add(i)      # e.g. mem::forget(guard) / drop(guard)
    live = b.reachable_after(gdef, avoid=kills) | {gdef}
    if y not in live:
        return False
    # no yield between the acquire and the guard's creation (the entry would be unprotected there)
    mid = q.between(b, [acquire_bb], gdef)
    return not any(b.blocks[m]["term"]["k"] == "yield" for m in mid)




def drain_complete(ctx, rule, crate, crs, tag=""):
    """Encoder::encode returns Ok only after pending_futures reported exhaustion (`next()` gave None):
    every future that was queued (and whose solvable/package was marked as encoded) has been processed."""
    b = body_by_key(crate, ENC + "encode", coroutine=True)
    if b is None:
        ctx.ob(rule + tag, ENC + "encode", "anchor", False, "", "async body not found")
        return
    cs = q.conds(b, crs)
    none_edges = []
    for c in cs:
        if c.kind != "discr" or c.adt != "std::option::Option" or not c.src:
            continue
        # the tested Option is the Ready payload of awaiting StreamExt::next(pending_futures)
        d, chain = q.origin_thru(b, {"k": "copy", "p": c.src_place}, transparent=set())
        if d["k"] == "call" and d["t"].get("f") and "futures::Future::poll" in callee_keys(d["t"]["f"]) or \
                any(isinstance(e, dict) and e.get("as") == "Ready" for e in d.get("proj", [])):
            nt = c.target("None")
            if nt is not None:
                none_edges.append((c.bb, nt))
    oks = []
    for i, j, s in b.assigns():
        if s["p"]["l"] == 0 and s["r"]["k"] == "agg" and s["r"].get("variant") == "Ok":
            oks.append((i, s))
    ctx.floor(rule + tag, "Ok(..) return of encode", len(oks), 1)
    for i, s in oks:
        ok = bool(none_edges) and q.only_via_edges(b, none_edges, i)
        ctx.ob(rule + tag, b.key, "ok-only-after-queue-exhausted", ok, "%s:%s" % (b.file, s["line"]),
               "encode reports success only after pending_futures.next() returned None" if ok else
               "encode can return Ok while queued futures are still pending: their clauses are never added")
    # and the returned value is the accumulated conflicting_clauses
    for i, s in oks:
        d, _ = q.origin_thru(b, s["r"]["ops"][0])
        ctx.ob(rule + tag, b.key, "returns-conflicting-clauses", q.mentions_field(d, ENCODER_ADT, "conflicting_clauses"),
               "%s:%s" % (b.file, s["line"]), "encode hands the conflicting clause list to run_sat")

CAND_ADT = "resolvo::Candidates"

def hint_arms(ctx, crate, crs, tag, rule="availability"):
    """BitSlice::set(idx, true) on the hint bits: idx = to_usize(element of the slice selected by the
    HintDependenciesAvailable match)."""
    b = body_by_key(crate, CACHE + "get_or_cache_candidates", coroutine=True)
    if b is None:
        return
    TR = q.TRANSPARENT | {"resolvo::internal::arena::ArenaId::to_usize", "std::iter::Iterator::next",
                          "bitvec::macros::internal::core::slice::iter", "std::iter::Iterator::map", "std::iter::Iterator::copied",
                          "std::iter::Iterator::cloned"}
    sets = [(b, i, t, None) for i, t in b.calls() if t.get("f") and t["f"]["name"] == "set" and "bitvec" in t["f"]["path"]]
    # the same loop written as `slice.iter().map(to_usize).for_each(|idx| { .. set(idx, true) })`: the set sits in a closure of this
    # function and its index is the closure's parameter; the hinted slice is then the receiver of the for_each
    for cb in crate.bodies:
        if cb.kind == "Closure" and cb.root and strip_generics(cb.root) == strip_generics(b.root or b.key) and cb is not b:
            for i, t in cb.calls():
                if t.get("f") and t["f"]["name"] == "set" and "bitvec" in t["f"]["path"]:
                    recv = None
                    for pi, pt in b.calls():
                        if pt.get("f") and pt["f"]["name"] in ("for_each", "try_for_each") and len(pt["args"]) >= 2:
                            cd = b.origin(pt["args"][1])
                            if cd["k"] == "rvalue" and cd["r"].get("ak") == "closure" and crate.by_path.get(cd["r"]["def"]) is cb:
                                recv = pt["args"][0]
                    sets.append((cb, i, t, recv))
    ctx.floor(rule + tag, "hint bit set site", len(sets), 1)
    for sb, i, t, recv in sets:
        v = t["args"][2]
        ctx.ob(rule + tag, b.key, "hint-bit-set-true", v.get("k") == "const" and v.get("v") is True, where_call(sb, i),
               "hinted candidates are marked available")
        if sb is b:
            d, chain = q.origin_thru(b, t["args"][1], transparent=TR)
        elif recv is not None:
            d, chain = q.origin_thru(b, recv, transparent=TR)
        else:
            d, chain = {"k": "?"}, []
        # d should be the slice local assigned in the three arms
        ok = False
        detail = "index does not derive from an element of the hinted slice (%s)" % d["k"]
        if d["k"] in ("multi",):
            arms = d.get("defs", [])
            kinds = set()
            for bb, idx, r in arms:
                if idx == "term":
                    od = {"k": "call", "bb": bb, "t": r, "proj": []}
                else:
                    od, _ = q.origin_thru(b, {"k": "copy", "p": r["p"]} if "p" in r else r.get("o", {}))
                if od["k"] == "call" and od["t"].get("f") and od["t"]["f"]["name"] == "index":
                    rd, _ = q.origin_thru(b, od["t"]["args"][1], transparent=set())   # &candidates.candidates[0..0]
                    if rd["k"] == "rvalue" and rd["r"].get("ak") == "adt" and "Range" in rd["r"].get("adt", "") and \
                            all(o.get("k") == "const" and o.get("v") == 0 for o in rd["r"]["ops"]):
                        kinds.add("None:empty")
                elif any(isinstance(e, dict) and e.get("as") == "Some" for e in od.get("proj", [])):
                    kinds.add("Some:listed")
                elif q.mentions_field(od, CAND_ADT, "candidates"):
                    kinds.add("All:all")
            ok = kinds == {"None:empty", "Some:listed", "All:all"}
            detail = "arms found: %s" % sorted(kinds)
        ctx.ob(rule + tag, b.key, "hint-arms", ok, where_call(sb, i), detail)


def filter_siblings(ctx, crate, crs, tag, rule="filter-siblings"):
    table = [(CACHE + "get_or_cache_matching_candidates", False, "version_set_candidates"),
             (CACHE + "get_or_cache_non_matching_candidates", True, "version_set_inverse_candidates")]
    for fn, inverse, field in table:
        b = body_by_key(crate, fn, coroutine=True)
        if b is None:
            ctx.ob(rule + tag, fn, "anchor", False, "", "async body not found")
            continue
        sites = b.calls_to(lambda f: provider_call(f, "filter_candidates"))
        ctx.floor(rule + tag, "filter_candidates call in %s" % fn.split("::")[-1], len(sites), 1)
        for i, t in sites:
            inv = t["args"][3]
            ctx.ob(rule + tag, b.key, "inverse-flag", inv.get("k") == "const" and inv.get("v") is inverse,
                   where_call(b, i), "inverse = %s feeds %s" % (inv.get("v"), field))
            # result flows into the insert on `field`
            ins = q.calls_on_field(b, INSERTS, CACHE_ADT, field)
            flows = False
            for ii, it in ins:
                d, chain = q.origin_thru(b, it["args"][2], transparent=q.TRANSPARENT | {
                    "std::iter::Iterator::collect", "std::iter::IntoIterator::into_iter"})
                fut, _ = _await_source(b, d)
                if fut is not None and fut == i:
                    flows = True
            ctx.ob(rule + tag, b.key, "result-stored-in:%s" % field, flows, where_call(b, i),
                   "the provider's answer itself is what is stored in %s" % field)
            # version set passed = function's version set = lookup key
            lk = None
            for li, lt in q.calls_on_field(b, LOOKUPS, CACHE_ADT, field):
                lk = key_desc(b, lt["args"][1])
            same_vs = lk is not None and q.same_origin(lk, key_desc(b, t["args"][2]))
            ctx.ob(rule + tag, b.key, "same-version-set", same_vs, where_call(b, i),
                   "filter is asked about the queried version set")
            # candidate list = .candidates of get_or_cache_candidates(version_set_name(version_set))
            d, chain = q.origin_thru(b, t["args"][1])
            full = q.mentions_field(d, CAND_ADT, "candidates")
            src, _ = _await_source(b, d)
            pkg_ok = False
            if src is not None:
                st = b.blocks[src]["term"]
                if st.get("f") and CACHE + "get_or_cache_candidates" in callee_keys(st["f"]):
                    nd, _ = q.origin_thru(b, st["args"][1])
                    if nd["k"] == "call" and nd["t"]["f"]["name"] == "version_set_name" and \
                            lk is not None and q.same_origin(lk, key_desc(b, nd["t"]["args"][1])):
                        pkg_ok = True
            ctx.ob(rule + tag, b.key, "filters-full-package-list", full and pkg_ok, where_call(b, i),
                   "filter input is Candidates.candidates of the version set's own package")




def _await_source(b, d):
    """If the descriptor bottoms out in the Ready payload of an `.await`, return the block of the call that
    created the awaited future."""
    if d["k"] == "call" and d["t"].get("f") and "futures::Future::poll" in callee_keys(d["t"]["f"]):
        # poll(Pin::new_unchecked(&mut fut), cx): fut <- into_future(call)
        fd, chain = q.origin_thru(b, d["t"]["args"][0], transparent=q.TRANSPARENT | {"std::pin::Pin::new_unchecked"})
        if fd["k"] == "call":
            return fd["bb"], fd
    return None, None


