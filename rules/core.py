"""The solver-core rules of C01 (validity of what is returned) and C02 (the verdict), packaged so that every property whose
statement *contains* "a solution valid per C01" or "the same verdict" (C10, C13, C14) - or whose outcome changes as soon as the
solver adds a restriction that does not follow from the problem (C07, C08) - evaluates them too.  Seeds written against those
properties kept breaking exactly these mechanisms (C08-13, C08-15, C13-13, C13-14, C10-1 ...): a reused solver, an asynchronous
provider or a soft requirement merely drives the solver into states (eager encoding of undecided solvables, late results,
restarts above level 1) where a slip in the core shows.  Obligations keep their rule names; an obligation that was already
recorded under the same key by the property's own rules is not recorded twice (Ctx.ob de-duplicates)."""
from common import *


def verdict(ctx, crate, crs, tag):
    import c01, c02, c03, c05, c09, mech, wl
    G = ctx.guard
    G("conflict-signal" + tag, c02.conflict_signal, ctx, crate, crs, tag)
    G("decision-errors" + tag, c02.decision_errors, ctx, crate, crs, tag)
    G("learnt-bookkeeping" + tag, c02.learnt, ctx, crate, crs, tag)
    G("unsolvable-at-root" + tag, c02.unsolvable_at_root, ctx, crate, crs, tag)
    G("unit-propagation" + tag, c02.unit_propagation, ctx, crate, crs, tag)
    G("trail" + tag, c02.trail, ctx, crate, crs, tag)
    G("watch-list" + tag, wl.run, ctx, crate, crs, tag)
    if ctx.prop != "C14":       # C14 runs the same analysis as its own rule soft-isolation
        G("restart" + tag, c02.restart_level, ctx, crate, crs, tag)
    G("assertions" + tag, c01.assertions, ctx, crate, crs, tag)
    G("clause-shape" + tag, c01.clause_shape, ctx, crate, crs, tag)
    G("registration" + tag, c01.registration, ctx, crate, crs, tag)
    G("antecedents" + tag, c03.antecedents, ctx, crate, crs, tag)
    G("undo-total" + tag, c05.undo_total, ctx, crate, crs, tag)
    G("new-solvables" + tag, c09.new_solvables, ctx, crate, crs, tag)
    G("candidate-lists" + tag, mech.memo_check, ctx, "candidate-lists", crate, crs, tag)
    G("candidate-lists" + tag, mech.filter_siblings, ctx, crate, crs, tag, "candidate-lists")


def validity(ctx, crate, crs, tag):
    import c01, c15, mech
    G = ctx.guard
    G("encoding" + tag, c01.encoding, ctx, crate, crs, tag)
    G("registration" + tag, c01.registration, ctx, crate, crs, tag)
    G("extraction" + tag, c01.extraction, ctx, crate, crs, tag)
    G("encoding" + tag, mech.drain_complete, ctx, "encoding", crate, crs, tag)
    G("soft-solvables-registered" + tag, c15.soft_registered, ctx, crate, crs, tag)
    # an interrupted or failed run is never presented as a solution: every Result on the solver path that can carry Cancelled /
    # Unsolvable is propagated, and the soft loop only ignores Ok(false) (seed C15-12)
    import c12, c14
    G("result-must-use" + tag, c12.results_used, ctx, crate, tag)
    G("soft-loop" + tag, c14.soft_loop, ctx, crate, crs, tag)


def soundness(ctx, crate, crs, tag):
    validity(ctx, crate, crs, tag)
    verdict(ctx, crate, crs, tag)
