"""Effect-signature rule shared by all properties (see lib/effects.py): the functions a property is anchored in may not acquire
new control-flow dependencies on solver state, nor new writes to it, beyond the reviewed table rules/effects.json."""
from common import *
import effects

FAMILY = {
    "search": ["resolvo::solver::Solver::", "resolvo::solver::SolverState::"],
    "encoder": ["resolvo::solver::encoding::"],
    "cache": ["resolvo::solver::cache::"],
    "trail": ["resolvo::solver::decision_tracker::", "resolvo::solver::decision_map::", "resolvo::solver::decision::"],
    "watch": ["resolvo::solver::watch_map::", "resolvo::solver::clause::", "resolvo::solver::Clauses::"],
    "amo": ["resolvo::solver::binary_encoding::", "resolvo::solver::variable_map::"],
    "mapping": ["resolvo::internal::mapping::", "<resolvo::internal::mapping::"],
    "arena": ["resolvo::internal::arena::", "<resolvo::internal::arena::", "resolvo::internal::frozen_copy_map::", "resolvo::utils::pool::"],
    "snapshot": ["resolvo::snapshot::", "<resolvo::snapshot::"],
    "conflict": ["resolvo::conflict::", "<resolvo::conflict::"],
    "cpp": ["resolvo_cpp::", "<resolvo_cpp::", "<&resolvo_cpp::"],
}
PROP = {
    "C01": ["search", "encoder", "trail", "watch", "cache", "amo"],
    "C02": ["search", "encoder", "trail", "watch"],
    "C03": ["search", "conflict", "encoder", "cache"],
    "C04": ["search", "encoder", "trail", "watch", "conflict", "mapping"],
    "C05": ["search", "trail"],
    "C06": ["search", "encoder", "conflict"],
    "C07": ["search", "encoder", "cache"],
    "C08": ["search", "encoder"],
    "C09": ["search", "encoder", "cache"],
    "C10": ["encoder", "cache", "arena"],
    "C11": ["encoder", "cache"],
    "C12": ["search", "encoder", "cache"],
    "C13": ["search", "cache", "encoder"],   # the encoder is where metadata cached by an earlier solve short-cuts a later one
    "C14": ["search", "trail"],
    "C15": ["amo", "encoder"],
    "C16": ["snapshot", "mapping"],
    "C17": ["cpp"],
    "C18": ["arena"],
    "C19": ["mapping"],
    "C20": ["cache"],
}


def run(ctx, prop):
    fams = PROP.get(prop, [])
    if not fams:
        return
    prefixes = [p for f in fams for p in FAMILY[f]]
    cname = "resolvo_cpp" if prop == "C17" else "resolvo"
    for cfg in (["cfgA"] if ctx.tier == "quick" else ["cfgA", "cfgB", "cfgC"]):
        tag = "" if cfg == "cfgA" else "@" + cfg
        try:
            crate = ctx.facts(cfg).crate(cname)
        except Exception:
            continue
        ctx.guard("effect-signature" + tag, effects.check, ctx, crate, "effect-signature", prefixes, tag)
    ctx.assumptions.append("rules/effects.json lists, per reviewed function, the state its branches may depend on and the state it may modify")
