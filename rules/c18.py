"""C18 - pool interning is stable (structural clause).

  intern-memo     the three deduplicating intern functions look the value up first, allocate only on the miss
                  edge and record (value -> fresh id) afterwards; resolve_* index the arena paired with that map;
                  the two non-deduplicating ones only allocate
  append-only     through `&self` the arena's chunk table is only mutated by `alloc`, which only appends
                  (resize_with to grow the chunk table, push into the last chunk); everything else that forms a
                  mutable reference to the storage takes `&mut self`; Pool has no `&mut self` method
  chunk-stability inner chunks are created with capacity CHUNK_SIZE - the constant chunk_and_offset divides by -
                  and `alloc` pushes into chunk len/CHUNK_SIZE, so an inner Vec never reallocates (references stay valid);
                  ids are dense: id = len before the push, len += 1 after
  no-ref-escape   FrozenCopyMap hands out copies only (no method returns a reference into the rehashing map)
  guarded-index   Index/IndexMut of Arena assert index < len before the unchecked access

Added after the second and third seeding rounds:
  store-agreement   every storage field FrozenCopyMap::insert_copy can write is consulted on every path through get_copy

Added after the fifth seeding round:
  union-members     (C07's union rules) a union resolves to the members it was interned with, in order
"""
from common import *
import q

POOL = "resolvo::utils::pool::Pool"
ARENA = "resolvo::internal::arena::Arena"
FCM = "resolvo::internal::frozen_copy_map::FrozenCopyMap"
AP = ARENA + "::"
PP = POOL + "::"

INTERN = [  # (fn, lookup map, arena, insert key ~ value)
    ("intern_string", "string_to_ids", "strings"),
    ("intern_package_name", "names_to_ids", "package_names"),
    ("intern_version_set", "version_set_to_id", "version_sets"),
]
PLAIN = [("intern_solvable", "solvables"), ("intern_version_set_union", "version_set_unions")]
RESOLVE = [("resolve_string", "strings"), ("resolve_package_name", "package_names"), ("resolve_solvable", "solvables"),
           ("resolve_version_set", "version_sets"), ("resolve_version_set_package_name", "version_sets"),
           ("resolve_version_set_union", "version_set_unions")]


def run(ctx):
    ctx.explanation = (
        "Static clause of C18: lookup-before-alloc memoisation of the three deduplicating intern functions (miss-edge dominance, "
        "insert of the freshly allocated id under the looked-up value), resolve functions index the paired arena, who-may-"
        "mutate census on the arena's UnsafeCell (only alloc through &self, and only by appending), chunk-capacity agreement "
        "(inner Vec capacity = the constant chunk_and_offset divides by, so chunks never reallocate and references stay valid), "
        "dense id bookkeeping, copy-only FrozenCopyMap API, guarded unchecked indexing. Absence of UB under all histories "
        "(Miri territory) and re-entrancy through user Hash/Eq impls are NOT decided.")
    ctx.assumptions += ["Vec::push does not reallocate while len < capacity; Vec::with_capacity(n) gives capacity >= n (std)"]
    for cfg in (["cfgA"] if ctx.tier == "quick" else ["cfgA", "cfgB", "cfgC"]):
        tag = "" if cfg == "cfgA" else "@" + cfg
        crate = lib(ctx, cfg)
        crs = crates(ctx, cfg)
        ctx.count("functions_analysed", sum(1 for b in crate.bodies if b.d.get("impl_adt") in (POOL, ARENA, FCM)))
        intern_memo(ctx, crate, crs, tag)
        dedup_map_types(ctx, crate, tag)
        append_only(ctx, crate, crs, tag)
        chunk_stability(ctx, crate, crs, tag)
        no_ref_escape(ctx, crate, tag)
        guarded_index(ctx, crate, crs, tag)
        ctx.guard("store-agreement" + tag, store_agreement, ctx, crate, crs, tag)
        import c07
        # a union resolves to the members it was interned with, in order: the sequence type appends and exposes everything
        ctx.guard("union-members" + tag, c07.union_order, ctx, crate, crs, tag)
        ctx.guard("union-members" + tag, c07.smallvec_order, ctx, crate, crs, tag, "union-members")


def intern_memo(ctx, crate, crs, tag):
    for fn, mp, arena in INTERN:
        b = body_by_key(crate, PP + fn)
        if b is None:
            ctx.ob("intern-memo" + tag, PP + fn, "exists", False, "", "function not found")
            continue
        cs = q.conds(b, crs)
        lookups = q.calls_on_field(b, FCM + "::get_copy", POOL, mp)
        allocs = q.calls_on_field(b, AP + "alloc", POOL, arena)
        inserts = q.calls_on_field(b, FCM + "::insert_copy", POOL, mp)
        ok_dom = False
        for ai, at in allocs:
            for li, lt in lookups:
                for c in cs:
                    if c.kind == "discr" and c.src and c.src["k"] == "call" and c.src["bb"] == li:
                        miss = c.target("None")
                        hit = c.target("Some")
                        if miss is not None and q.edge_dominates(b, c.bb, miss, ai) and ai not in b.reachable([hit]):
                            ok_dom = True
        ctx.ob("intern-memo" + tag, b.key, "alloc-only-on-miss", ok_dom, b.loc(),
               "a value already in %s is never allocated again" % mp)
        # hit branch returns the looked-up id
        ok_hit = False
        for li, lt in lookups:
            for i, j, s in b.assigns():
                if s["p"]["l"] == 0 and s["r"]["k"] == "use":
                    d = b.origin(s["r"]["o"])
                    if d["k"] == "call" and d["bb"] == li and any(isinstance(e, dict) and e.get("as") == "Some" for e in d.get("proj", [])):
                        ok_hit = True
        ctx.ob("intern-memo" + tag, b.key, "hit-returns-stored-id", ok_hit, b.loc(), "the id found in %s is returned" % mp)
        # insert(value, id) with id = result of this alloc, on every path after *every* alloc of the function
        ok_ins = bool(allocs)
        for ai, at in allocs:
            this = False
            for ii, it in inserts:
                idd = b.origin(it["args"][2])
                if idd["k"] == "call" and idd["bb"] == ai and postdominated_modulo_errors(b, ai, [ii]):
                    this = True
            ok_ins = ok_ins and this
        # the map is keyed by the interned value itself (not by a digest of it): lookup and insert keys derive from the
        # function's value arguments through references / clones / tuples only
        ok_key = bool(lookups) and bool(inserts)
        for li, lt in lookups:
            ok_key = ok_key and _is_value_of_args(b, lt["args"][1])
        for ii, it in inserts:
            ok_key = ok_key and _is_value_of_args(b, it["args"][1])
        ctx.ob("intern-memo" + tag, b.key, "keyed-by-the-value-itself", ok_key, b.loc(),
               "the dedup map is probed and filled with the interned value itself")
        ctx.ob("intern-memo" + tag, b.key, "records-fresh-id", ok_ins, b.loc(),
               "the freshly allocated id is recorded in %s on every path" % mp)
        rets = [b.origin(s["r"]["o"]) for i, j, s in b.assigns() if s["p"]["l"] == 0 and s["r"]["k"] == "use"]
        ok_ret = any(d["k"] == "call" and any(d["bb"] == ai for ai, _ in allocs) for d in rets)
        ctx.ob("intern-memo" + tag, b.key, "miss-returns-fresh-id", ok_ret, b.loc(), "the id of the new allocation is returned")
        ctx.floor("intern-memo" + tag, "alloc in %s" % fn, len(allocs), 1)
    for fn, arena in PLAIN:
        b = body_by_key(crate, PP + fn)
        if b is None:
            ctx.ob("intern-memo" + tag, PP + fn, "exists", False, "", "function not found")
            continue
        allocs = q.calls_on_field(b, AP + "alloc", POOL, arena)
        ok = len(allocs) == 1 and allocs[0][1]["dest"]["l"] == 0
        if ok:
            # ... on every path: no early return hands out an id that exists already (seed C18-13)
            dom = b.dominators()
            ok = all(allocs[0][0] in dom.get(r, set()) for r in b.return_blocks())
        ctx.ob("intern-memo" + tag, b.key, "unique-id-per-call", ok, b.loc(), "every call allocates and returns a new id, on every path")
    for fn, arena in RESOLVE:
        b = body_by_key(crate, PP + fn)
        if b is None:
            ctx.ob("intern-memo" + tag, PP + fn, "exists", False, "", "function not found")
            continue
        idx = q.calls_on_field(b, "std::ops::Index::index", POOL, arena)
        ok = False
        for i, t in idx:
            d = b.origin(t["args"][1])
            if d["k"] == "arg" and d["l"] == 2:
                ok = True
        ctx.ob("intern-memo" + tag, b.key, "indexes:%s" % arena, ok, b.loc(), "resolves the id in the arena it was allocated from")


VALUE_PRESERVING = q.TRANSPARENT | {"std::clone::Clone::clone", "std::convert::AsRef::as_ref", "std::convert::Into::into",
                                    "std::borrow::ToOwned::to_owned", "std::string::ToString::to_string", "std::borrow::Borrow::borrow"}


def _is_value_of_args(b, op, depth=0):
    d, ch = q.origin_thru(b, op, transparent=VALUE_PRESERVING)
    if d["k"] == "arg" and d["l"] >= 2:
        return True
    if d["k"] == "rvalue" and d["r"]["k"] == "agg" and d["r"].get("ak") == "tuple" and depth < 3:
        return all(_is_value_of_args(b, o, depth + 1) for o in d["r"]["ops"])
    return False


def mutable_storage_access(b):
    """Sites in b that obtain mutable access to Arena.chunks: UnsafeCell::get / get_mut / raw_get on the field."""
    out = []
    for i, t in b.calls():
        f = t.get("f")
        if f is None or "UnsafeCell" not in f["path"]:
            continue
        if f["name"] in ("get", "get_mut", "raw_get", "as_ptr"):
            d, _ = q.origin_thru(b, t["args"][0])
            if q.mentions_field(d, ARENA, "chunks"):
                out.append((i, t, f["name"]))
    return out


def dedup_map_types(ctx, crate, tag):
    a = crate.adts.get(POOL)
    want = {"names_to_ids": "FrozenCopyMap<N, ", "string_to_ids": "FrozenCopyMap<std::string::String, ", "version_set_to_id": "FrozenCopyMap<(resolvo::internal::id::NameId, VS), "}
    for f in (a["variants"][0]["fields"] if a else []):
        if f["name"] in want:
            ok = want[f["name"]] in f["ty"].replace("resolvo::NameId", "resolvo::internal::id::NameId")
            ctx.ob("intern-memo" + tag, POOL, "map-key-type:%s" % f["name"], ok, "", "%s: %s" % (f["name"], f["ty"][:110]))


def append_only(ctx, crate, crs, tag):
    arena_fns = [b for b in crate.bodies if b.d.get("impl_adt") == ARENA and b.kind == "AssocFn"]
    ctx.floor("append-only" + tag, "Arena methods", len(arena_fns), 8)
    n = 0
    for b in arena_fns:
        sites = mutable_storage_access(b)
        if not sites:
            continue
        recv = (b.d.get("sig", {}).get("inputs") or [""])[0]
        shared = recv.startswith("&") and not recv.startswith("&mut")
        # which mutating Vec methods are applied to the storage?
        muts = [t["f"]["name"] for i, t in b.calls() if t.get("f") and t["f"]["krate"] in ("alloc", "core", "std") and
                t["f"]["name"] in ("push", "resize_with", "clear", "truncate", "pop", "remove", "swap_remove", "insert", "drain",
                                   "retain", "get_unchecked_mut", "index_mut", "iter_mut", "swap", "set_len", "reserve", "shrink_to_fit",
                                   "extend", "append", "split_off", "dedup", "resize")]
        n += 1
        name = b.key.split("::")[-1]
        if shared:
            if muts:
                ok = name == "alloc" and set(muts) <= {"push", "resize_with", "index_mut"}
                ctx.ob("append-only" + tag, b.key, "&self-mutation", ok, b.loc(),
                       "through &self only alloc mutates the storage, and only by appending (%s)" % sorted(set(muts)) if ok else
                       "&self method mutates the arena storage with %s: existing references can be invalidated" % sorted(set(muts)))
            else:
                ctx.ob("append-only" + tag, b.key, "&self-read-only", True, b.loc(), "shared access reads only")
        else:
            ctx.ob("append-only" + tag, b.key, "&mut-self", True, b.loc(), "mutation requires exclusive access (%s)" % sorted(set(muts)))
    ctx.floor("append-only" + tag, "Arena methods touching the UnsafeCell", n, 4)
    # who calls Arena::clear / get_two_mut / iter_mut on a Pool arena or through a shared reference
    for b in crate.bodies:
        for i, t in b.calls():
            f = t.get("f")
            if f is None:
                continue
            if any(k in (AP + "clear",) for k in callee_keys(f)):
                d, _ = q.origin_thru(b, t["args"][0])
                bad = q.mentions_field(d, POOL, "strings") or any(a == POOL for a, n_ in q.fields_of(d))
                ctx.ob("append-only" + tag, b.key, "clears-pool-arena", not bad, where_call(b, i), "pool arenas are never cleared")
    # Pool: no method takes &mut self
    n_pool = 0
    for b in crate.bodies:
        if b.d.get("impl_adt") == POOL and b.kind == "AssocFn":
            n_pool += 1
            recv = (b.d.get("sig", {}).get("inputs") or [""])[0]
            if recv.startswith("&mut ") and POOL.split("::")[-1] in recv:
                ctx.ob("append-only" + tag, b.key, "pool-&mut-method", False, b.loc(), "Pool method with exclusive receiver")
    ctx.ob("append-only" + tag, POOL, "no-&mut-self-methods", n_pool >= 12, "", "%d Pool methods, none takes &mut self" % n_pool)
    # alloc: chunk table grows only by one chunk when the target chunk does not exist; push goes to chunk_idx
    a = body_by_key(crate, AP + "alloc")
    if a is not None:
        # written against alloc with chunk_and_offset spliced in: holds whether alloc calls the helper or divides itself
        av = view(crate, AP + "alloc", [AP + "chunk_and_offset"])
        pushes = [(i, t) for i, t in av.calls() if t.get("f") and t["f"]["name"] == "push"]
        ok_idx = False
        for pi, pt in pushes:
            d, ch = q.origin_thru(av, pt["args"][0], transparent=set())
            if d["k"] == "call" and d["t"]["f"]["name"] == "index_mut":
                dv = _chunk_division(av, d["t"]["args"][1])
                if dv is not None:
                    num, den = dv
                    nd, _ = q.origin_thru(av, num, transparent=set())
                    if nd["k"] == "call" and nd["t"]["f"]["name"] == "get":       # the current len
                        ok_idx = True
        ctx.ob("append-only" + tag, a.key, "push-into-chunk(len/CHUNK)", ok_idx, a.loc(),
               "the new element goes into chunk number len / CHUNK_SIZE")
        # len bookkeeping: set(id + 1), returned id = from_usize(id) with id = len.get()
        sets = [(i, t) for i, t in a.calls() if t.get("f") and t["f"]["name"] == "set" and "Cell" in t["f"]["path"]]
        ok_len = False
        for si, st in sets:
            d = a.origin(st["args"][1])
            if d["k"] == "rvalue" and d["r"]["k"] == "bin" and d["r"]["op"].replace("WithOverflow", "") == "Add":
                c = d["r"]["b"]
                base = a.origin(d["r"]["a"])
                if c.get("k") == "const" and c.get("v") == 1 and base["k"] == "call" and base["t"]["f"]["name"] == "get":
                    ok_len = True
        ctx.ob("append-only" + tag, a.key, "len=len+1", ok_len, a.loc(), "ids are dense: len advances by one per allocation")
        fu = [(i, t) for i, t in a.calls() if t.get("f") and t["f"]["name"] == "from_usize"]
        ok_id = any(a.origin(t["args"][0])["k"] == "call" and a.origin(t["args"][0])["t"]["f"]["name"] == "get" for i, t in fu)
        ctx.ob("append-only" + tag, a.key, "id=old-len", ok_id, a.loc(), "the returned id is the length before the push")
    else:
        ctx.ob("append-only" + tag, AP + "alloc", "exists", False, "", "Arena::alloc not found")


def chunk_stability(ctx, crate, crs, tag):
    co = body_by_key(crate, AP + "chunk_and_offset")
    divs = {}
    if co is not None:
        for i, j, s in co.assigns():
            r = s["r"]
            if r["k"] == "bin" and r["op"] in ("Div", "Rem"):
                divs[r["op"]] = r["b"].get("v")
    ctx.ob("chunk-stability" + tag, AP + "chunk_and_offset", "div/rem-same-const", len(set(divs.values())) == 1 and len(divs) == 2
           and None not in divs.values(), "", "chunk = i / %s, offset = i %% %s" % (divs.get("Div"), divs.get("Rem")))
    size = divs.get("Div")
    # every creation of an inner chunk (a Vec<TValue>) in Arena::alloc / Arena::with_capacity or their closures:
    # Vec::with_capacity(CHUNK_SIZE)
    n = 0
    for b in crate.bodies:
        rootk = strip_generics(b.root) if b.root else b.key
        if rootk not in (AP + "alloc", AP + "with_capacity"):
            continue
        for i, t in b.calls():
            f = t.get("f")
            if f is None:
                continue
            if f["name"] in ("with_capacity", "new") and "Vec" in f["path"]:
                dty = b.local_ty(t["dest"]["l"]) if "p" not in t["dest"] else ""
                if dty != "std::vec::Vec<TValue>":
                    continue
                n += 1
                ok = f["name"] == "with_capacity" and t["args"] and t["args"][0].get("k") == "const" and t["args"][0].get("v") == size
                ctx.ob("chunk-stability" + tag, b.key, "chunk-capacity=CHUNK_SIZE", ok, where_call(b, i),
                       "inner chunk created with capacity %s" % (t["args"][0].get("v") if t["args"] else "none (Vec::new)"))
    # resize_with given a plain function item instead of a closure (e.g. Vec::new)
    for fn in (AP + "alloc", AP + "with_capacity"):
        fb = body_by_key(crate, fn)
        if fb is None:
            continue
        for i, t in fb.calls():
            if t.get("f") and t["f"]["name"] == "resize_with" and len(t["args"]) > 2:
                a2 = t["args"][2]
                if a2.get("k") == "const" and a2.get("fn"):
                    n += 1
                    ctx.ob("chunk-stability" + tag, fb.key, "chunk-capacity=CHUNK_SIZE", False, where_call(fb, i),
                           "inner chunks are created by %s, not with capacity CHUNK_SIZE" % a2["fn"]["path"])
    ctx.floor("chunk-stability" + tag, "inner chunk creation sites", n, 2)
    # alloc grows the chunk table by exactly one chunk, only when chunk_idx >= chunks.len()
    a = body_by_key(crate, AP + "alloc")
    if a is not None:
        rs = [(i, t) for i, t in a.calls() if t.get("f") and (t["f"]["name"] == "resize_with" or
              (t["f"]["name"] == "push" and "std::vec::Vec<TValue>" in " ".join(t.get("arg_tys") or [])[:200] and
               (t.get("arg_tys") or ["", ""])[1] == "std::vec::Vec<TValue>"))]
        cs = q.conds(a, crs)
        for i, t in rs:
            okg = False
            for c in cs:
                if c.kind == "cmp" and c.op == "Ge" and q.edge_dominates(a, c.bb, c.target(True), i):
                    okg = True
            ok1 = True
            if t["f"]["name"] == "resize_with":
                d = a.origin(t["args"][1])
                ok1 = d["k"] == "rvalue" and d["r"]["k"] == "bin" and d["r"]["op"].replace("WithOverflow", "") == "Add" and \
                    d["r"]["b"].get("v") == 1
            ctx.ob("chunk-stability" + tag, a.key, "grow-by-one-when-needed", okg and ok1, where_call(a, i),
                   "the chunk table grows by one chunk when the target chunk does not exist yet")
        ctx.floor("chunk-stability" + tag, "chunk-table growth site in alloc", len(rs), 1)
    # iterators and index use the same chunk_and_offset
    # alloc and index agree on the chunk arithmetic: both divide by the same constant (through chunk_and_offset or directly)
    dens = {}
    for key in (AP + "alloc", "<" + ARENA + "<TId, TValue> as std::ops::Index<TId>>::index"):
        vb = view(crate, key, [AP + "chunk_and_offset"])
        if vb is None:
            dens[key] = None
            continue
        found = set()
        for i, j, s2 in vb.assigns():
            r = s2["r"]
            if r["k"] == "bin" and r["op"].replace("WithOverflow", "") == "Div" and not s2.get("exp"):
                found.add(json_const(r["b"]))
        dens[key] = found
    vals = [v for v in dens.values() if v]
    ctx.ob("chunk-stability" + tag, AP + "chunk_and_offset", "shared-by-alloc-and-index", len(vals) == 2 and vals[0] == vals[1] and len(vals[0]) == 1, "",
           "alloc and index locate an element with the same chunk divisor (%s)" % {k.split("::")[-1]: sorted(v or []) for k, v in dens.items()})


def json_const(o):
    if o.get("k") == "const":
        return str(o.get("v") if o.get("v") is not None else o.get("def") or o.get("s") or o)
    return "?"


def _chunk_division(b, op):
    """(numerator operand, denominator text) if the operand is `x / C` (possibly through the spliced chunk_and_offset)."""
    d = b.origin(op)
    for _ in range(3):
        if d["k"] == "rvalue" and d["r"]["k"] == "bin" and d["r"]["op"].replace("WithOverflow", "") == "Div":
            return d["r"]["a"], json_const(d["r"]["b"])
        if d["k"] == "rvalue" and d["r"]["k"] == "use":
            d = b.origin(d["r"]["o"])
            continue
        break
    return None


def no_ref_escape(ctx, crate, tag):
    n = 0
    for im in crate.impls:
        if im.get("self_adt") != FCM:
            continue
        for it in im["items"]:
            if it["kind"].startswith("Fn") or "output" in it:
                n += 1
                out = it.get("output", "")
                bad = "&" in out or "Ref<" in out or "Iter" in out or "*const" in out or "*mut" in out
                ctx.ob("no-ref-escape" + tag, it["path"], "returns:%s" % out[:40], not bad, "",
                       "FrozenCopyMap returns owned copies only")
    ctx.floor("no-ref-escape" + tag, "FrozenCopyMap methods", n, 3)
    # insert_copy takes &self: the map may rehash, so no reference may ever have been handed out (checked above);
    # get_copy clones out of the map
    g = body_by_key(crate, FCM + "::get_copy")
    if g is not None:
        cl = [t for i, t in g.calls() if t.get("f") and t["f"]["name"] in ("cloned", "clone", "copied")]
        ctx.ob("no-ref-escape" + tag, g.key, "clones-out", bool(cl), g.loc(), "values leave the map by clone")


WRITE_CALLS = {"insert", "push", "extend", "entry", "push_back", "insert_copy", "try_insert", "replace"}
LOOKUP_CALLS = {"get", "find", "iter", "contains_key", "get_key_value", "binary_search", "binary_search_by", "binary_search_by_key",
                "position", "get_mut", "index", "find_map", "any", "into_iter", "raw_entry", "get_copy"}


def store_agreement(ctx, crate, crs, tag):
    """FrozenCopyMap: whatever storage field insert_copy can put an entry into is consulted by get_copy on *every* path
    (writer / reader agreement).  A tiered or sharded store whose reader skips a tier on some path forgets entries."""
    R = "store-agreement" + tag
    ins = body_by_key(crate, FCM + "::insert_copy")
    get = body_by_key(crate, FCM + "::get_copy")
    if ins is None or get is None:
        ctx.ob(R, FCM, "insert_copy/get_copy", False, "", "methods not found")
        return

    def fields_of_call(b, t):
        lv = q.leaves(b, t["args"][0]) if t["args"] else set()
        return {x.split(":", 1)[1].split(".")[-1] for x in lv if x.split(":", 1)[0] in ("field", "lfield")}
    own = set()
    a = crate.adts.get(FCM)
    if a:
        own = {f["name"] for f in a["variants"][0]["fields"]}

    _foc = fields_of_call

    def fields_of_call(b, t):          # noqa: F811  (restricted to the map's own storage fields)
        return _foc(b, t) & own if own else _foc(b, t)
    written = set()
    for i, t in ins.calls():
        f = t.get("f")
        if f and f["name"] in WRITE_CALLS:
            written |= fields_of_call(ins, t)
    ctx.ob(R, ins.key, "writes-a-storage-field", bool(written), ins.loc(), "storage fields insert_copy can write: %s" % sorted(written))
    rets = get.return_blocks()
    for fld in sorted(written):
        look = [i for i, t in get.calls() if t.get("f") and t["f"]["name"] in LOOKUP_CALLS and fld in fields_of_call(get, t)]
        free = get.reachable(0, avoid=look)
        ok = bool(look) and 0 not in look and not any(r in free for r in rets) or (0 in look)
        ctx.ob(R, get.key, "every-path-consults:%s" % fld, ok, get.loc(),
               "every path through get_copy looks the key up in `%s`, which insert_copy may have stored it in" % fld)


def guarded_index(ctx, crate, crs, tag):
    for b in crate.bodies:
        if b.d.get("impl_adt") != ARENA or b.d.get("impl_trait") not in ("std::ops::Index", "std::ops::IndexMut"):
            continue
        un = [(i, t) for i, t in b.calls() if t.get("f") and t["f"]["name"] in ("get_unchecked", "get_unchecked_mut")]
        cs = q.conds(b, crs)
        for i, t in un:
            ok = False
            for c in cs:
                if c.kind == "cmp" and c.op == "Lt":
                    bd, _ = q.origin_thru(b, c.b, transparent=set())
                    if bd["k"] == "call" and bd["t"]["f"]["name"] == "len" and q.edge_dominates(b, c.bb, c.target(True), i):
                        ok = True
            ctx.ob("guarded-index" + tag, b.key, "unchecked-after-assert(index<len)", ok, where_call(b, i),
                   "the unchecked access is dominated by index < len()")
        ctx.floor("guarded-index" + tag, "unchecked accesses in %s" % b.key.split("::")[-1], len(un), 2)
