"""C15 - one solvable per package for any number of candidates (necessary structural conditions only).

The at-most-one constraint of a package is a binary (log) encoding: candidate number k implies the bit pattern of k on a set
of helper variables.  What is decided here is the *bookkeeping* that every such encoding needs, independent of the arithmetic:

  dedup             a variable that is already tracked produces no clause, no helper and no second index
  first-variable    the first variable of a package is recorded (it owns index 0)
  index             the index whose bits are emitted for a new variable is its position in `variables` (len before the insert),
                    and the index used when a new helper is retro-fitted is the position of the existing variable (enumerate
                    over the whole set)
  every-bit         a new variable gets one clause per helper (loop over all helpers, unconditional), a new helper gets one
                    clause per existing variable (loop over all variables, unconditional); each clause relates the loop's own
                    variable / helper, and its polarity depends on both the index and the bit number
  helper            a new helper is obtained from alloc_var, pushed to `helpers` (its bit number is the length before the push)
                    under a test that reads both lengths
  encoder-closure   the encoder's clause callback turns the boolean into the polarity of the helper literal (true->positive,
                    false->negative), builds a ForbidMultiple clause on (a, helper literal) and registers it with the watch lists;
                    the variable callback allocates a fresh variable
  fresh-variables   every VariableMap allocator hands out `next_id` and increments it (helpers never alias solvable variables)
  registration      every candidate of every requirement reaches the tracker of its own package (shared with C01 `encoding`)

NOT decided: that the threshold `len > (1 << helpers) - 1` allocates enough bits and that the two bit expressions agree for
every n - an arithmetic fact about bit patterns (see DESIGN.md section 6).

Added after the fifth seeding round:
  core           all rules of C01 and C02 (rules/core.py): the forbid clauses exclude a pair only if they are propagated, and only if
                 a run interrupted after installing a second candidate is never handed out as a solution (seed C15-12)
"""
from common import *
import q, enc, c01
from enc import *

AMO = "resolvo::solver::binary_encoding::AtMostOnceTracker::add"
ISET = "indexmap::IndexSet::"


def run(ctx):
    ctx.explanation = (
        "Only necessary structural conditions of C15 are decided: the bookkeeping of the incremental binary at-most-one encoding "
        "(dedup of tracked variables; index = position in the tracked set; one clause per (new variable, every helper) and per "
        "(new helper, every existing variable), on the loop's own operands, with a polarity that is a function of index and bit; "
        "helpers allocated fresh and recorded), the encoder callbacks (boolean -> literal "
        "polarity, ForbidMultiple clause on the pair, registered with the watch lists) and the per-package keying of trackers.  "
        "The arithmetic of the encoding (enough bits for n candidates, bit expressions consistent for every n) is NOT decided.")
    ctx.assumptions += ["(idx & (1<<bit)) == (1<<bit) and ((idx >> bit) & 1) == 1 denote the same bit of idx; len > (1<<h)-1 allocates enough helpers (arithmetic, undecided)"]
    for cfg in (["cfgA"] if ctx.tier == "quick" else ["cfgA", "cfgB", "cfgC"]):
        tag = "" if cfg == "cfgA" else "@" + cfg
        crate = lib(ctx, cfg)
        crs = crates(ctx, cfg)
        ctx.count("functions_analysed", len(crate.bodies))
        ctx.guard("at-most-one" + tag, tracker, ctx, crate, crs, tag)
        ctx.guard("encoder-closure" + tag, closures, ctx, crate, crs, tag)
        ctx.guard("fresh-variables" + tag, fresh, ctx, crate, crs, tag)
        ctx.guard("registration" + tag, registration, ctx, crate, crs, tag)
        # the trackers and the variable map live exactly as long as the clause database (per solve): a tracker that outlives the
        # clauses it emitted reports "already tracked" for candidates whose forbid clauses no longer exist (shared with C13)
        import c13
        ctx.guard("state-reset" + tag, c13.state_reset, ctx, crate, tag)
        ctx.guard("soft-solvables-registered" + tag, soft_registered, ctx, crate, crs, tag)
        ctx.guard("tracker-table" + tag, tracker_table, ctx, crate, crs, tag)
        # the forbid clauses only exclude a pair if they are propagated and the verdict machinery is intact, and only if a run that
        # was interrupted after installing a second candidate is not handed out as a solution (seed C15-12)
        import core
        ctx.guard("core" + tag, core.soundness, ctx, crate, crs, tag)      # see rules/core.py


def _field_of_recv(b, t, argi=0):
    d, _ = q.origin_thru(b, t["args"][argi], transparent=set())
    names = [e.get("n") for e in d.get("proj", []) if isinstance(e, dict) and "f" in e]
    return names[-1] if names and d["k"] == "arg" and d["l"] == 1 else None


def _closure_calls(b, arg):
    """FnMut::call_mut / FnOnce / Fn calls whose callee object is argument `arg`."""
    out = []
    for i, t in b.calls():
        f = t.get("f")
        if f and f["name"] in ("call_mut", "call", "call_once") and t["args"]:
            d = b.origin(t["args"][0])
            if d["k"] == "arg" and d["l"] == arg and not d.get("proj"):
                out.append((i, t))
    return out


def _tuple_ops(b, t):
    d = b.origin(t["args"][1])
    if d["k"] == "rvalue" and d["r"]["k"] == "agg" and d["r"].get("ak") == "tuple":
        return d["r"]["ops"]
    return None


def tracker(ctx, crate, crs, tag):
    R = "at-most-one" + tag
    b = body_by_key(crate, AMO)
    if b is None:
        ctx.ob(R, AMO, "exists", False, "", "AtMostOnceTracker::add not found")
        return
    cs = q.conds(b, crs)
    clause_calls = _closure_calls(b, 3)
    var_calls = _closure_calls(b, 4)
    inserts = [(i, t) for i, t in b.calls_to(ISET + "insert") if _field_of_recv(b, t) == "variables"]
    pushes = [(i, t) for i, t in b.calls() if t.get("f") and t["f"]["name"] == "push" and _field_of_recv(b, t) == "helpers"]
    ctx.floor(R, "alloc_clause call sites", len(clause_calls), 2)
    ctx.floor(R, "alloc_var call sites", len(var_calls), 1)
    ctx.floor(R, "variables.insert call sites", len(inserts), 2)
    # ---- dedup
    ded = None
    for c in cs:
        if c.kind == "bool" and c.src and c.src["k"] == "call" and c.src["t"]["f"]["name"] == "contains" and \
                _field_of_recv(b, c.src["t"]) == "variables":
            key = b.origin(c.src["t"]["args"][1])
            if key["k"] == "arg" and key["l"] == 2:
                ded = c
    ok = ded is not None
    if ok:
        ft = ded.target(False)
        work = [i for i, t in clause_calls + var_calls + inserts + pushes]
        ok = all(q.edge_dominates(b, ded.bb, ft, i) for i in work)
    ctx.ob(R, b.key, "dedup-before-any-effect", ok, b.loc(), "a variable that is already tracked yields no clause, helper or second index")
    # ---- first variable recorded
    emp = None
    for c in cs:
        if c.kind == "bool" and c.src and c.src["k"] == "call" and c.src["t"]["f"]["name"] == "is_empty" and \
                _field_of_recv(b, c.src["t"]) == "variables":
            emp = c
    if emp is not None:
        tt = emp.target(True)
        first_ins = [i for i, t in inserts if q.edge_dominates(b, emp.bb, tt, i)]
        okf = False
        for i in first_ins:
            t = b.blocks[i]["term"]
            v, _ = q.origin_thru(b, t["args"][1], transparent={"std::clone::Clone::clone"})
            okf = v["k"] == "arg" and v["l"] == 2
        ctx.ob(R, b.key, "first-variable-recorded", okf, b.loc(), "the first variable of a package is inserted (index 0) even though it needs no clause")
    # with or without the is_empty shortcut: on every path from the dedup test's `new` side to return an insert of the variable happens
    if ded is not None:
        ft = ded.target(False)
        rets = [i for i in range(b.n) if b.blocks[i]["term"]["k"] == "return"]
        reach = b.reachable([ft], avoid=[i for i, t in inserts])
        ctx.ob(R, b.key, "new-variable-always-recorded", ft not in [i for i, t in inserts] and not any(r in reach for r in rets), b.loc(),
               "every path that found the variable untracked inserts it")
    # ---- the two clause loops
    loops = for_loops(b, crs)
    newvar_site = helper_site = None
    for i, t in clause_calls:
        okl, loop = unconditional_in_loop(b, crs, i)
        if loop is None:
            ctx.ob(R, b.key, "clause-emitted-in-loop", False, where_call(b, i), "an at-most-one clause is emitted outside the helper / variable loops")
            continue
        flds = loop_source_fields(b, loop)
        ops = _tuple_ops(b, t)
        if ops is None or len(ops) != 3:
            ctx.ob(R, b.key, "clause-arguments", False, where_call(b, i), "alloc_clause is not called with (variable, helper, polarity)")
            continue
        pol = q.leaves(b, ops[2])
        if "helpers" in flds:
            newvar_site = i
            a0, _ = q.origin_thru(b, ops[0], transparent={"std::clone::Clone::clone"})
            ok_a = a0["k"] == "arg" and a0["l"] == 2
            ok_h = elem_of_loop(b, loop, ops[1])
            # index = variables.len() read before the insert that records the variable
            lens = [(j, tt) for j, tt in b.calls_to(ISET + "len") if _field_of_recv(b, tt) == "variables"]
            idx_ok = False
            for j, tt in lens:
                if _uses_call(b, ops[2], j):
                    later_ins = [k for k, _ in inserts if k in b.reachable([j]) and b.dominates(j, k)]
                    no_ins_before = not any(j in b.reachable([k]) and k != j and not b.dominates(j, k) for k, _ in inserts if not (emp is not None and q.edge_dominates(b, emp.bb, emp.target(True), k)))
                    idx_ok = bool(later_ins) and no_ins_before and all(b.dominates(k, i) for k in later_ins[:1])
            bit_ok = _depends_on_loop_index(b, loop, ops[2])
            ctx.ob(R, b.key, "new-variable:one-clause-per-helper", okl and visits_all(b, loop) and ok_a and ok_h, where_call(b, i),
                   "for every helper (all of them, unconditionally) a clause relates the new variable and that helper")
            ctx.ob(R, b.key, "new-variable:polarity=bit(position,bit-number)", idx_ok and bit_ok, where_call(b, i),
                   "the polarity is a function of the variable's position (variables.len() before its insert) and of the helper's bit number")
        elif "variables" in flds:
            helper_site = i
            ok_v = elem_of_loop(b, loop, ops[0])
            h1, _ = q.origin_thru(b, ops[1], transparent={"std::clone::Clone::clone"})
            ok_h = h1["k"] == "call" and any(h1["bb"] == j for j, _ in var_calls)
            idx_ok = _depends_on_loop_index(b, loop, ops[2])
            hl = [(j, tt) for j, tt in b.calls() if tt.get("f") and tt["f"]["name"] == "len" and _field_of_recv(b, tt) == "helpers"]
            bit_ok = False
            for j, tt in hl:
                if _uses_call(b, ops[2], j):
                    # bit number = helpers.len() read before the push of this helper
                    bit_ok = any(b.dominates(j, k) and j != k for k, _ in pushes) and not any(b.dominates(k, j) and k in b.reachable([h1["bb"]] if ok_h else [0]) and b.dominates(h1["bb"], k) for k, _ in pushes if ok_h)
            ctx.ob(R, b.key, "new-helper:one-clause-per-existing-variable", okl and visits_all(b, loop) and ok_v and ok_h, where_call(b, i),
                   "for every variable already tracked (all of them, unconditionally) a clause relates that variable and the new helper")
            ctx.ob(R, b.key, "new-helper:polarity=bit(position,bit-number)", idx_ok and bit_ok, where_call(b, i),
                   "the polarity is a function of the existing variable's position (enumerate) and of the new helper's bit number (helpers.len() before the push)")
        else:
            ctx.ob(R, b.key, "clause-loop-source", False, where_call(b, i), "clause loop iterates neither helpers nor variables (%s)" % sorted(flds))
    ctx.ob(R, b.key, "both-clause-families-present", newvar_site is not None and helper_site is not None, b.loc(),
           "clauses are emitted for (new variable x helpers) and for (new helper x existing variables)")
    # ---- helper bookkeeping
    for j, tt in var_calls:
        pushed = False
        for k, pt in pushes:
            v, _ = q.origin_thru(b, pt["args"][1], transparent={"std::clone::Clone::clone"})
            if v["k"] == "call" and v["bb"] == j:
                pushed = True
        # under a test reading both lengths, before the new variable's insert
        guarded = False
        for c in cs:
            if c.kind in ("bool", "cmp") and b.dominates(c.bb, j):
                lv = q.leaves(b, b.blocks[c.bb]["term"]["d"])
                if "field:variables" in lv and "field:helpers" in lv and "call:len" in lv:
                    guarded = True
        # (whether the variable is inserted before or after the helpers are sized does not matter: inserting first only sizes earlier)
        ctx.ob(R, b.key, "helper-recorded-and-sized", pushed and guarded, where_call(b, j),
               "a new helper is pushed to `helpers` and is allocated under a test of variables.len() against helpers.len() "
               "(pushed=%s guarded=%s)" % (pushed, guarded))


def _uses_call(b, op, call_bb):
    """Does the backward slice of `op` contain the result of the call at call_bb?"""
    seen = set()

    def walk(o, d=0):
        p = operand_place(o)
        if p is None or d > 30:
            return False
        for e in p.get("p", []):
            if isinstance(e, dict) and "idx" in e and walk({"k": "copy", "p": {"l": e["idx"]}}, d + 1):
                return True
        if p["l"] in seen:
            return False
        seen.add(p["l"])
        for bb, idx, r in b.defs_of(p["l"]):
            if idx == "term":
                if bb == call_bb:
                    return True
                if any(walk(a, d + 1) for a in r.get("args", [])):
                    return True
                continue
            k = r["k"]
            if k in ("use", "cast", "un") and walk(r.get("o"), d + 1):
                return True
            if k in ("ref", "copyderef") and walk({"k": "copy", "p": r["p"]}, d + 1):
                return True
            if k == "bin" and (walk(r["a"], d + 1) or walk(r["b"], d + 1)):
                return True
            if k == "agg" and any(walk(x, d + 1) for x in r.get("ops", [])):
                return True
        return False
    return walk(op)


def _depends_on_loop_index(b, loop, op):
    """The operand's slice contains field .0 of the element of an `enumerate` loop (the running index)."""
    h, body, nbb, st, nt, c = loop
    if "enumerate" not in loop_adaptors(b, loop):
        return False
    seen = set()

    def walk(o, d=0):
        p = operand_place(o)
        if p is None or d > 30:
            return False
        if p["l"] in seen:
            return False
        seen.add(p["l"])
        for bb, idx, r in b.defs_of(p["l"]):
            if idx == "term":
                if any(walk(a, d + 1) for a in r.get("args", [])):
                    return True
                continue
            k = r["k"]
            if k in ("use", "cast", "un"):
                pl = operand_place(r.get("o"))
                if pl is not None and pl["l"] == b.blocks[nbb]["term"]["dest"]["l"]:
                    fs = [e["f"] for e in pl.get("p", []) if isinstance(e, dict) and "f" in e]
                    # (_next as Some).0 .0  -> tuple field 0 of the enumerate item
                    if fs[-1:] == [0] and len(fs) >= 2:
                        return True
                    continue
                if walk(r.get("o"), d + 1):
                    return True
            if k == "bin" and (walk(r["a"], d + 1) or walk(r["b"], d + 1)):
                return True
        return False
    return walk(op)


def closures(ctx, crate, crs, tag):
    R = "encoder-closure" + tag
    parent = ENC + "on_requirement_candidates_available"
    b = body_by_key(crate, parent)
    if b is None:
        ctx.ob(R, parent, "exists", False, "", "consumer not found")
        return
    vb = view(crate, parent, [AFMC])
    adds = vb.calls_to("resolvo::solver::binary_encoding::AtMostOnceTracker::add")
    ctx.floor(R, "AtMostOnceTracker::add call sites", len(adds), 1)
    cls = [cb for cb in crate.bodies if cb.kind == "Closure" and cb.root and strip_generics(cb.root) in (parent, AFMC)]
    clause_cl = var_cl = None
    for cb in cls:
        names = [t["f"]["name"] for i, t in cb.calls() if t.get("f")]
        if "forbid_multiple" in names:
            clause_cl = cb
        if "alloc_forbid_multiple_variable" in names:
            var_cl = cb
    ctx.ob(R, parent, "clause-callback-found", clause_cl is not None, b.loc(), "the callback that builds ForbidMultiple clauses")
    ctx.ob(R, parent, "variable-callback-found", var_cl is not None, b.loc(), "the callback that allocates helper variables")
    if clause_cl is not None:
        cb = clause_cl
        ccs = q.conds(cb, crs)
        # the boolean parameter (arg 4 of the closure body: self, a, b, positive) selects positive()/negative() on b
        okp = False
        for c in ccs:
            if c.kind != "bool":
                continue
            d = cb.origin(cb.blocks[c.bb]["term"]["d"])
            if d["k"] == "arg" and d["l"] == 4:
                tt, ft = c.target(True), c.target(False)
                pos = [i for i, t in cb.calls() if t.get("f") and t["f"]["name"] == "positive" and q.edge_dominates(cb, c.bb, tt, i)]
                neg = [i for i, t in cb.calls() if t.get("f") and t["f"]["name"] == "negative" and q.edge_dominates(cb, c.bb, ft, i)]
                on_b = all(cb.origin(cb.blocks[i]["term"]["args"][0])["k"] == "arg" and cb.origin(cb.blocks[i]["term"]["args"][0])["l"] == 3 for i in pos + neg)
                okp = bool(pos) and bool(neg) and on_b
        if not okp:
            # `Literal::new(helper, !positive)`: negate = not(positive) is the same selection (positive() is new(v, false))
            for i, t in cb.calls():
                f = t.get("f")
                if f and f["name"] == "new" and "Literal" in f["path"] and len(t["args"]) == 2:
                    a0 = cb.origin(t["args"][0])
                    nd, _ = q.origin_thru(cb, t["args"][1], transparent=set())
                    if a0["k"] == "arg" and a0["l"] == 3 and nd.get("k") == "rvalue" and nd["r"]["k"] == "un" and nd["r"]["op"] == "Not":
                        src = cb.origin(nd["r"]["a"])
                        okp = src["k"] == "arg" and src["l"] == 4
        ctx.ob(R, cb.key, "boolean-selects-helper-polarity", okp, cb.loc(), "positive=true -> helper.positive(), false -> helper.negative()")
        fm = [(i, t) for i, t in cb.calls() if t.get("f") and t["f"]["name"] == "forbid_multiple"]
        okc = False
        for i, t in fm:
            a0 = cb.origin(t["args"][0])
            l1, _ = q.origin_thru(cb, t["args"][1], transparent=set())
            okc = a0["k"] == "arg" and a0["l"] == 2 and (l1["k"] in ("multi", "call"))
        ctx.ob(R, cb.key, "clause-on-(a,helper-literal)", okc, cb.loc(), "forbid_multiple(a, <literal of b>, name)")
        names = [t["f"]["name"] for i, t in cb.calls() if t.get("f")]
        allocs = cb.calls_to(CLAUSES_ALLOC)
        sw = cb.calls_to(START_WATCHING)
        okr = bool(allocs) and bool(sw) and all(cb.dominates(allocs[0][0], i) for i, _ in sw)
        if okr:
            cid = cb.origin(sw[0][1]["args"][2])
            okr = cid["k"] == "call" and cid["bb"] == allocs[0][0]
        ctx.ob(R, cb.key, "clause-allocated-and-watched", okr, cb.loc(), "the clause is allocated and the same id starts being watched")
    if var_cl is not None:
        cb = var_cl
        ok = False
        for i, t in cb.calls():
            if t.get("f") and t["f"]["name"] == "alloc_forbid_multiple_variable":
                ok = "p" not in t["dest"] and t["dest"]["l"] == 0 or cb.origin({"k": "copy", "p": {"l": 0}}).get("bb") == i
        ctx.ob(R, cb.key, "variable-callback-returns-fresh-variable", ok, cb.loc(), "alloc_var returns VariableMap::alloc_forbid_multiple_variable(name)")


def fresh(ctx, crate, crs, tag):
    R = "fresh-variables" + tag
    n = 0
    for b in crate.bodies:
        if not b.key.startswith(VMAP) or b.kind == "Closure":
            continue
        fu = [(i, t) for i, t in b.calls() if t.get("f") and t["f"]["name"] == "from_usize" and "VariableId" in str(t["f"].get("full", "")) + str(t["f"].get("impl_self", "")) + str(t["f"].get("resolved", ""))]
        if not fu:
            continue
        n += 1
        ok = True
        for i, t in fu:
            lv = {x for x in q.leaves(b, t["args"][0]) if not x.startswith("lfield:")}
            ok = ok and lv == {"field:next_id"}
        inc = False
        for bb, j, s in b.assigns():
            names = [e.get("n") for e in s["p"].get("p", []) if isinstance(e, dict) and "f" in e]
            if not names and "*" in s["p"].get("p", []):
                # write through a `&mut usize` that points at the counter (helper taking the counter by reference)
                dref = b.origin({"k": "copy", "p": {"l": s["p"]["l"]}})
                names = [e.get("n") for e in dref.get("proj", []) if isinstance(e, dict) and "f" in e][-1:]
            if names == ["next_id"]:
                lv = q.leaves(b, s["r"]["o"]) if s["r"]["k"] == "use" else (q.leaves(b, s["r"]["a"]) | q.leaves(b, s["r"]["b"]) if s["r"]["k"] == "bin" else set())
                d = b.origin(s["r"]["o"]) if s["r"]["k"] == "use" else {"k": "rvalue", "r": s["r"]}
                r = d.get("r", {})
                if d["k"] == "rvalue" and r.get("k") == "bin" and r["op"].replace("WithOverflow", "") == "Add" and r["b"].get("k") == "const" and r["b"].get("v") == 1 \
                        and {x for x in q.leaves(b, r["a"]) if not x.startswith("lfield:")} == {"field:next_id"}:
                    inc = True
        ctx.ob(R, b.key, "id=next_id;next_id+=1", ok and inc, b.loc(), "the variable id is the counter value and the counter is advanced by one")
    ctx.floor(R, "VariableMap allocators", n, 2)


def soft_registered(ctx, crate, crs, tag):
    """Every solvable that run_sat installs by decree (the run's own solvable, i.e. a soft requirement) is registered with the
    at-most-one tracker of its package before the run: a soft requirement names a solvable directly, so it need not ever appear
    as a candidate of a requirement - the only other place where candidates are registered."""
    R = "soft-solvables-registered" + tag
    b = view(crate, SOLVER + "solve", [AFMC])
    if b is None:
        ctx.ob(R, SOLVER + "solve", "exists", False, "", "solve not found")
        return
    adds = b.calls_to("resolvo::solver::binary_encoding::AtMostOnceTracker::add")
    n = 0
    for i, t in b.calls_to(SOLVER + "run_sat"):
        lv = q.leaves(b, t["args"][1])
        if "call:root" in lv and not any(x.startswith("field:") for x in lv):
            continue            # the root is not a solvable of any package
        n += 1
        src = q.slice_locals(b, t["args"][1])
        ok = False
        for ai, at in adds:
            if not b.dominates(ai, i):
                continue
            var_locals = q.slice_locals(b, at["args"][1])
            d, _ = q.origin_thru(b, at["args"][0], transparent={"std::collections::hash_map::Entry::or_default", "std::collections::hash_map::Entry::or_insert_with"})
            keyed = False
            if d["k"] == "call" and d["t"]["f"]["name"] == "entry":
                kl = q.leaves(b, d["t"]["args"][1])
                keyed = "call:solvable_name" in kl and bool(q.slice_locals(b, d["t"]["args"][1]) & src)
            if (var_locals & src) and keyed:
                ok = True
        ctx.ob(R, b.key, "soft-run-solvable-is-registered-first", ok, where_call(b, i),
               "before a soft requirement is installed its solvable is added to the at-most-one tracker of solvable_name(solvable)")
    ctx.floor(R, "soft-requirement runs in solve", n, 1)


class _Only:
    """Proxy that keeps only the at-most-one obligations of C01's encoding rule."""
    def __init__(self, ctx):
        self._c = ctx

    def __getattr__(self, n):
        return getattr(self._c, n)

    def ob(self, rule, fn, inst, ok, where, detail):
        if str(inst).startswith("at-most-one"):
            self._c.ob(rule.replace("encoding", "registration"), fn, inst, ok, where, detail)

    def floor(self, rule, what, n, least):
        if "AtMostOnce" in what:
            self._c.floor(rule.replace("encoding", "registration"), what, n, least)


def registration(ctx, crate, crs, tag):
    # every candidate of a requirement reaches AtMostOnceTracker::add of its own package (C01's encoding rule, tracker instances only)
    c01.encoding(_Only(ctx), crate, crs, tag)


def tracker_table(ctx, crate, crs, tag):
    """A package's tracker is created once and lives for the whole solve: the per-package table is only reached through
    `entry(..).or_insert_with / or_default` in add_forbid_multiple_clauses; nothing inserts (overwrites), removes or clears an entry
    (seed C15-15: a pre-sized tracker *inserted* when the candidates arrive discards the tracker that already holds a soft
    requirement's candidate)."""
    R = "tracker-table" + tag
    n = 0
    for b in crate.bodies:
        if b.crate.is_test:
            continue
        for i, t in b.calls():
            f = t.get("f")
            if f is None or not t["args"]:
                continue
            d, _ = q.origin_thru(b, t["args"][0])
            if not q.mentions_field(d, STATE_ADT, "forbidden_clauses_added"):
                continue
            nm = f["name"]
            if nm in ("get", "contains_key", "len", "is_empty", "iter", "values", "keys", "deref", "borrow", "as_ref", "get_mut", "deref_mut"):
                continue
            n += 1
            fn = q.enclosing_fn(crate, b)
            ok = nm in ("entry",) and fn == AFMC
            ctx.ob(R, fn, "tracker-created-once:%s" % nm, ok, where_call(b, i),
                   "forbidden_clauses_added is only reached through entry(..) in add_forbid_multiple_clauses (found `%s`)" % nm)
    ctx.floor(R, "accesses to the tracker table", n, 1)
