"""Encoder / clause mechanism analyses shared by C01..C05."""
from common import *
import q

CLAUSE = "resolvo::solver::clause::Clause"
WL = "resolvo::solver::clause::WatchedLiterals"
WLP = WL + "::"
CLAUSES_ALLOC = "resolvo::solver::Clauses::alloc"
START_WATCHING = "resolvo::solver::watch_map::WatchMap::start_watching"
TRACKER = "resolvo::solver::decision_tracker::DecisionTracker"
DT = TRACKER + "::"
VMAP = "resolvo::solver::variable_map::VariableMap::"
POS = "resolvo::solver::clause::positive"
NEG = "resolvo::solver::clause::negative"


def for_loops(b, crs):
    """[(header, body, next_call_bb, some_target, none_target)] for `for` loops (Iterator::next + Option switch)."""
    out = []
    cs = q.conds(b, crs)
    for h, body, _ in b.loops():
        for c in cs:
            if c.bb in body and c.kind == "discr" and c.adt == "std::option::Option" and c.src and c.src["k"] == "call" \
                    and c.src["t"]["f"]["name"] == "next" and c.src["bb"] in body and not c.src.get("proj"):
                st, nt = c.target("Some"), c.target("None")
                if st in body and (nt not in body or nt is None):
                    out.append((h, body, c.src["bb"], st, nt, c))
    return out


def unconditional_in_loop(b, crs, call_bb, allowed_skip_edges=()):
    """The call at call_bb runs for every element of the innermost `for` loop containing it.
    Returns (ok, loop) ; allowed_skip_edges: (src,dst) edges that may bypass the call (frozen exceptions)."""
    cands = [l for l in for_loops(b, crs) if call_bb in l[1]]
    if not cands:
        return False, None
    cands.sort(key=lambda l: len(l[1]))
    h, body, nbb, st, nt, c = cands[0]
    S = b.succs()
    cut = set(allowed_skip_edges)
    seen = {st}
    stack = [st]
    while stack:
        x = stack.pop()
        if x == call_bb:
            continue
        for y in S[x]:
            if (x, y) in cut or y not in body:
                continue
            if y == h:
                return False, cands[0]
            if y not in seen:
                seen.add(y)
                stack.append(y)
    return True, cands[0]


def loop_source_fields(b, loop, extra_transparent=()):
    """Names of ADT fields the iterated collection of a for loop derives from (backward slice of the iterator)."""
    h, body, nbb, st, nt, c = loop
    t = b.blocks[nbb]["term"]
    names = set()
    seen = set()

    def walk(op, depth=0):
        p = operand_place(op)
        if p is None or depth > 60:
            return
        for e in p.get("p", []):
            if isinstance(e, dict) and "n" in e:
                names.add(e["n"])
        l = p["l"]
        if l in seen:
            return
        seen.add(l)
        if l == 1 and b.d.get("upvars"):
            pr = [e for e in p.get("p", []) if isinstance(e, dict) and "f" in e]
            if pr and str(pr[0].get("of", "")).startswith("closure:") and pr[0]["f"] < len(b.d["upvars"]):
                for sg in b.d["upvars"][pr[0]["f"]]["name"].lstrip("*&").split("."):
                    names.add(sg)
        for bb, idx, r in b.defs_of(l):
            if idx == "term":
                for a in r["args"]:
                    walk(a, depth + 1)
                    # closures passed to adaptors: include what they capture
                    ad = b.origin(a)
                    if ad["k"] == "rvalue" and ad["r"].get("ak") == "closure":
                        for o in ad["r"]["ops"]:
                            walk(o, depth + 1)
            else:
                k = r["k"]
                if k in ("use", "cast"):
                    walk(r["o"], depth + 1)
                elif k in ("ref", "copyderef", "rawptr", "discr"):
                    walk({"k": "copy", "p": r["p"]}, depth + 1)
                elif k == "agg":
                    for o in r["ops"]:
                        walk(o, depth + 1)
    walk(t["args"][0])
    return names


PARTIAL_ADAPTORS = {"skip", "take", "step_by", "filter", "skip_while", "take_while", "filter_map", "rev", "nth", "peekable_skip",
                    "dedup", "unique", "zip"}


def loop_adaptors(b, loop):
    """Names of iterator adaptor calls in the backward slice of a for loop's iterator."""
    h, body, nbb, st, nt, c = loop
    t = b.blocks[nbb]["term"]
    names = []
    seen = set()

    def walk(op, depth=0):
        p = operand_place(op)
        if p is None or depth > 40:
            return
        l = p["l"]
        if l in seen:
            return
        seen.add(l)
        for bb, idx, r in b.defs_of(l):
            if idx == "term":
                f = r.get("f")
                if f:
                    names.append(f["name"])
                if r["args"]:
                    walk(r["args"][0], depth + 1)
            else:
                k = r["k"]
                if k in ("use", "cast"):
                    walk(r["o"], depth + 1)
                elif k in ("ref", "copyderef"):
                    walk({"k": "copy", "p": r["p"]}, depth + 1)
    walk(t["args"][0])
    return names


def early_exits(b, loop):
    """Normal edges that leave the loop other than the iterator's `None` edge and `?` error exits / diverging blocks:
    a `break` (or a `return` of a non-error value) ends the loop before every element was visited."""
    h, body, nbb, st, nt, c = loop
    S = b.succs()
    rets = set(b.return_blocks())
    can_ret = q.can_reach(b, rets) if rets else set()
    out = []
    for x in body:
        for y in S[x]:
            if y in body:
                continue
            if x == c.bb and y == nt:
                continue
            if y not in can_ret:            # panics / unreachable: not a way to finish early
                continue
            # `?`: the path leaves through FromResidual::from_residual before anything else happens
            if is_error_exit(b, y) or is_error_exit(b, x):
                continue
            cur, hops, err = y, 0, False
            while hops < 6:
                if is_error_exit(b, cur):
                    err = True
                    break
                nx = [z for z in S[cur]]
                if len(nx) != 1:
                    break
                cur = nx[0]
                hops += 1
            if err:
                continue
            out.append((x, y))
    return out


def visits_all(b, loop):
    return not (set(loop_adaptors(b, loop)) & PARTIAL_ADAPTORS) and not early_exits(b, loop)


def elem_of_loop(b, loop, op):
    """Does operand `op` derive from the element yielded by this loop's next()?"""
    h, body, nbb, st, nt, c = loop
    seen = set()

    def walk(o, depth=0):
        p = operand_place(o)
        if p is None or depth > 40:
            return False
        l = p["l"]
        if l in seen:
            return False
        seen.add(l)
        for bb, idx, r in b.defs_of(l):
            if idx == "term":
                if bb == nbb:
                    return True
                f = r.get("f")
                if f and (any(k in q.TRANSPARENT for k in callee_keys(f)) or f["name"] in ("into", "from", "clone", "copied")):
                    if r["args"] and walk(r["args"][0], depth + 1):
                        return True
            else:
                k = r["k"]
                if k in ("use", "cast") and walk(r["o"], depth + 1):
                    return True
                if k in ("ref", "copyderef") and walk({"k": "copy", "p": r["p"]}, depth + 1):
                    return True
        return False
    return walk(op)


def wl_constructor_of_alloc(b, alloc_term):
    """Which WatchedLiterals::<ctor> produced the (watched, kind) pair passed to Clauses::alloc."""
    for ai in (2, 1):
        d = b.origin(alloc_term["args"][ai])
        if d["k"] == "call" and d["t"].get("f") and d["t"]["f"]["path"].startswith("resolvo::solver::clause::WatchedLiterals::"):
            return d["t"]["f"]["name"], d["bb"], d["t"]
    return None, None, None


def uses_value_of_call(b, op, call_bb, transparent=()):
    d, _ = q.origin_thru(b, op, transparent=set(transparent) | {"resolvo::internal::arena::ArenaId::to_usize"})
    return d["k"] == "call" and d["bb"] == call_bb


def sinks_after(b, alloc_bb):
    """Classify what happens with the clause id returned by the alloc at alloc_bb."""
    out = {"start_watching": [], "negative_assertions": [], "learnt_clause_ids": [], "requires_clauses": [],
           "conflicting_clauses": []}
    reach = b.reachable_after(alloc_bb) | {alloc_bb}
    for i, t in b.calls():
        if i not in reach or not t.get("f"):
            continue
        ks = callee_keys(t["f"])
        if START_WATCHING in ks:
            if uses_value_of_call(b, t["args"][2], alloc_bb):
                out["start_watching"].append(i)
        elif t["f"]["name"] == "push" and "Vec" in t["f"]["path"]:
            r, _ = q.origin_thru(b, t["args"][0], transparent=q.TRANSPARENT | {"indexmap::map::Entry::or_default", "indexmap::IndexMap::entry"})
            flds = [n for a, n in q.fields_of(r)]
            val = b.origin(t["args"][1])
            ids = []
            if val["k"] == "rvalue" and val["r"]["k"] == "agg":
                ids = val["r"]["ops"]
            else:
                ids = [t["args"][1]]
            if any(uses_value_of_call(b, o, alloc_bb) for o in ids):
                for k in out:
                    if k in flds:
                        out[k].append(i)
    return out


def visits_all_except_equal(b, crate, loop):
    """Like visits_all, but one `filter(|x| x != <captured value>)` in front of the loop is accepted: it is the same skip as an
    `if x == locked { continue }` at the top of the body."""
    if early_exits(b, loop):
        return False
    ads = set(loop_adaptors(b, loop)) & PARTIAL_ADAPTORS
    if not ads:
        return True
    if ads != {"filter"}:
        return False
    locs = q.slice_locals(b, b.blocks[loop[2]]["term"]["args"][0])
    n = 0
    for i, j, s_ in b.assigns():
        r = s_["r"]
        if r["k"] == "agg" and r.get("ak") == "closure" and s_["p"]["l"] in locs:
            cb = crate.by_path.get(r["def"])
            if cb is None:
                return False
            n += 1
            names = [t["f"]["name"] for ii, t in cb.calls() if t.get("f")]
            bins = [x["r"]["op"] for ii, jj, x in cb.assigns() if x["r"]["k"] == "bin"]
            if not ((names == ["ne"] and not bins) or (not names and bins == ["Ne"])):
                return False
    return n == 1
