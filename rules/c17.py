"""C17 - the C++ binding computes what the Rust API computes, memory-safely (ABI / protocol clause).

  layout-agreement   T-SIB rustc <-> clang: VectorHeader vs Vector<T>::Header, Vector<T>, String, Slice<T> and every value type
                     that crosses the boundary have equal size, alignment and field offsets; the element area starts at
                     sizeof(Header) on both sides and alignof(T) <= alignof(Header) for every instantiated T
  transmute-layout   every transmute in resolvo_cpp converts between slices whose element types have identical layouts
                     (one u32 at offset 0)
  ffi-safe           every type in an extern "C" signature or in the callback table is a primitive, pointer/reference/NonNull,
                     or a #[repr(C)]/transparent ADT of the binding crate
  callback-table     C++: the aggregate initialiser of cbindgen_private::DependencyProvider lists `data` and then
                     private_api::bridge_<field> in the field order of the Rust struct; each bridge_<m> calls the virtual
                     method <m> on the DependencyProvider* made from `data` and stores through the out-parameter when there
                     is one.  Rust: each trait method of the bridge calls the callback field of the same name
  alloc-symmetry     the size/alignment expressions given to resolvo_vector_allocate and resolvo_vector_free are equal
                     (modulo capacity <-> inner->capacity) and agree with Rust's compute_inner_layout; every Rust dealloc
                     uses compute_inner_layout(header.capacity); the static empty vector (refcount < 0) is never counted or freed
  provider-mapping   the Rust bridge maps the C structs field by field onto the resolvo types (candidates/favored/locked/
                     hints/excluded; requirements/constrains; problem fields) and forwards `inverse` and the version set

Added after the second and third seeding rounds:
  C++ header protocol (alloc-symmetry): with_capacity is exact while a constructor derives size from capacity; every non-const
                     accessor returning T* / T& detaches; push_back takes the element out of its reference parameter before
                     detach (D12); String copy assignment is self-safe (D13)
  Rust side: relocated-elements-are-marked-moved (Vector::from_iter growth path); raw-pointer-read-before-vectors-are-consumed
                     (get_candidates bridge, D14); *result is overwritten with the solution; Problem fields forwarded in caller order
Added after the fourth round:
  foreign-slices     a pointer that comes from C++ (raw-pointer parameter of an extern "C" function, pointer field of Slice) reaches
                     slice::from_raw_parts only behind a length / null test: (nullptr, 0) is a legal empty range in C++ (D16)
  callback-table     no `static` / `thread_local` local of a header function is initialised from its arguments
  alloc-symmetry     relocated-elements-are-marked-moved also covers a growth path without the IntoIter guard

Added after the fifth seeding round (shared-buffer protocol; C++ header via clang AST, Rust via MIR):
  sharing-a-buffer-increments-its-count   copy constructor / copy assignment take `other.inner` and increment, behind refcount > 0
  free-only-when-the-count-reaches-zero / elements-destroyed-before-the-buffer-is-freed / destructor-releases-its-share /
  copy-assignment-releases-the-old-buffer   drop(): free only where the decrement produced zero, destructors first; no leak
  move-assignment-keeps-one-owner-per-buffer (Vector and String)   handles are exchanged, never duplicated
  detach: keeps-the-buffer-only-if-unique-and-large-enough (C++ and Rust), copies-every-element-and-adopts-the-copy
  clear: in-place-edit-only-if-unique;  Rust Drop: buffer-released-only-by-the-last-owner
  String: handle-comes-from-the-library (every constructor), destructor-releases-the-handle, dropped-handle-is-replaced-at-once
"""
from common import *
import q, cxx

CPP = "resolvo_cpp"
DP = "resolvo_cpp::DependencyProvider"
VH = "resolvo_cpp::vector::VectorHeader"
ELEMS = {  # rust element type -> clang spelling inside template args
    "resolvo_cpp::SolvableId": "struct resolvo::cbindgen_private::SolvableId",
    "resolvo_cpp::VersionSetId": "struct resolvo::cbindgen_private::VersionSetId",
    "resolvo_cpp::Requirement": "struct resolvo::cbindgen_private::Requirement",
    "resolvo_cpp::ExcludedSolvable": "struct resolvo::cbindgen_private::ExcludedSolvable",
    "u8": "unsigned char",
}
VALUE_TYPES = ["SolvableId", "VersionSetId", "VersionSetUnionId", "NameId", "StringId", "ExcludedSolvable", "Requirement",
               "Candidates", "Dependencies", "Problem", "DependencyProvider"]
CALLBACKS = ["display_solvable", "display_solvable_name", "display_merged_solvables", "display_name", "display_version_set",
             "display_string", "version_set_name", "solvable_name", "version_sets_in_union", "get_candidates",
             "sort_candidates", "filter_candidates", "get_dependencies"]


def run(ctx):
    ctx.explanation = (
        "ABI and protocol agreement across the FFI, decided from two type-checked views of the same tree: rustc's layout_of and "
        "MIR of resolvo_cpp, and clang's record layouts and AST of cpp/include/*.h together with the cbindgen headers generated "
        "by the same build.  Equal layouts of every shared record (including the hand-written Vector<T>/Header, String, Slice), "
        "element offset = sizeof(Header), layout-equal transmutes, FFI-safe signatures, callback table order and bridge bodies, "
        "allocation size/alignment symmetry on both sides, and the field-by-field mapping of the Rust bridge.  Result equality with "
        "the Rust API and absence of memory errors over all container operation sequences (sanitizer/Miri territory) are NOT decided.")
    ctx.assumptions += ["clang 14 record layouts = the Itanium ABI the library is built with", "cbindgen emits the field order of the Rust structs"]
    cfg = "cfgA"
    F = ctx.facts(cfg)
    crate = F.crate(CPP)
    crs = crates(ctx, cfg)
    ctx.count("functions_analysed", len(crate.bodies))
    cx = None
    try:
        cx = cxx.cxx_facts(F.dir, ctx.repo)
    except Exception as e:
        if isinstance(e, gen_error()):
            # clang cannot parse the headers of this tree: report as a violation of the agreement rule (not a checker error):
            ctx.ob("layout-agreement", "cpp/include/resolvo.h", "headers-parse", False, "", "clang could not parse the binding headers: %s" % str(e)[-400:])
        else:
            raise
    if cx is not None:
        ctx.count("clang_records", len(cx["layouts"]))
        ctx.guard("layout-agreement", layout_agreement, ctx, crate, cx)
        ctx.guard("callback-table", callback_table_cxx, ctx, crate, cx)
        ctx.guard("alloc-symmetry", alloc_symmetry_cxx, ctx, crate, cx)
        ctx.guard("alloc-symmetry", string_assignment, ctx, cx)
        ctx.guard("alloc-symmetry", refcount_protocol_cxx, ctx, crate, cx)
        ctx.guard("alloc-symmetry", string_lifecycle_cxx, ctx, cx)
    ctx.guard("transmute-layout", transmute_layout, ctx, crate)
    ctx.guard("ffi-safe", ffi_safe, ctx, crate)
    ctx.guard("callback-table", callback_table_rust, ctx, crate, crs)
    ctx.guard("alloc-symmetry", alloc_symmetry_rust, ctx, crate, crs)
    ctx.guard("alloc-symmetry", refcount_protocol_rust, ctx, crate, crs)
    ctx.guard("alloc-symmetry", refcount_writers_rust, ctx, crate, crs)
    ctx.guard("provider-mapping", provider_mapping, ctx, crate, crs)
    ctx.guard("foreign-slices", foreign_slices, ctx, crate, crs)


def gen_error():
    import gen
    return gen.CheckerError


# ------------------------------------------------------------------------------------------------
def rl(crate, ty):
    return crate.layouts.get(ty)


def layout_agreement(ctx, crate, cx):
    R = "layout-agreement"
    L = cx["layouts"]
    rh = rl(crate, VH)
    ctx.ob(R, VH, "rust-layout-known", rh is not None, "", "rustc layout of VectorHeader: %s" % ((rh["size"], rh["align"]) if rh else None,))
    if rh is None:
        return
    rfields = [(f["name"], f["offset"], f.get("size")) for f in rh["fields"]]
    n_inst = 0
    for rt, ct in ELEMS.items():
        hn = "resolvo::Vector<%s>::Header" % ct
        ch = L.get(hn)
        if ch is None:
            ctx.ob(R, hn, "clang-layout-known", False, "", "no clang record layout for %s" % hn)
            continue
        n_inst += 1
        cfields = [(f["name"], f["offset"] , None) for f in ch["fields"]]
        same = ch["size"] == rh["size"] and ch["align"] == rh["align"] and \
            [(n, o) for n, o, _ in rfields] == [(n, o) for n, o, _ in cfields]
        ctx.ob(R, "Vector<%s>::Header" % rt.split("::")[-1], "header-fields-size-align", same, "",
               "rust %s size %d align %d  vs  c++ %s size %d align %d" % ([(n, o) for n, o, _ in rfields], rh["size"], rh["align"],
                                                                      [(n, o) for n, o, _ in cfields], ch["size"], ch["align"]))
        # element area: rustc's offset of VectorInner<T>.data == clang's sizeof(Header); alignof(T) <= alignof(Header)
        ri = rl(crate, "resolvo_cpp::vector::VectorInner<%s>" % rt)
        et = rl(crate, rt) if rt != "u8" else {"size": 1, "align": 1}
        ok = ri is not None and et is not None
        off = None
        if ok:
            off = [f["offset"] for f in ri["fields"] if f["name"] == "data"][0]
            ok = off == ch["size"] and et["align"] <= ch["align"]
        ctx.ob(R, "Vector<%s>" % rt.split("::")[-1], "data-offset==sizeof(Header)&&alignof(T)<=alignof(Header)", ok, "",
               "rust data offset %s, c++ sizeof(Header) %s, alignof(T) %s" % (off, ch["size"], et and et["align"]))
        # the handle itself: one pointer
        rv = rl(crate, "resolvo_cpp::vector::Vector<%s>" % rt)
        cv = L.get("resolvo::Vector<%s>" % ct)
        okv = rv is not None and cv is not None and (rv["size"], rv["align"]) == (cv["size"], cv["align"]) == (8, 8) and \
            len(cv["fields"]) == 1 and cv["fields"][0]["offset"] == 0
        ctx.ob(R, "Vector<%s>" % rt.split("::")[-1], "handle-is-one-pointer", okv, "", "rust %s c++ %s" % (
            rv and (rv["size"], rv["align"]), cv and (cv["size"], cv["align"], [(f["name"], f["offset"]) for f in cv["fields"]])))
        # element size agreement (C++ uses sizeof(T) in the allocation size)
        ce = L.get(ct.replace("struct ", "")) if rt != "u8" else {"size": 1, "align": 1}
        oke = et is not None and ce is not None and (et["size"], et["align"]) == (ce["size"], ce["align"])
        ctx.ob(R, "Vector<%s>" % rt.split("::")[-1], "sizeof/alignof(T)-agree", oke, "", "rust %s c++ %s" % (
            et and (et["size"], et["align"]), ce and (ce["size"], ce["align"])))
    ctx.floor(R, "Vector<T> instantiations compared", n_inst, 5)
    # String, Slice<T>
    rs, cs = rl(crate, "resolvo_cpp::string::String"), L.get("resolvo::String")
    ctx.ob(R, "String", "size-align-fields", rs is not None and cs is not None and (rs["size"], rs["align"]) == (cs["size"], cs["align"]) and
           len(cs["fields"]) == 1 and cs["fields"][0]["offset"] == 0, "", "rust %s c++ %s" % (rs and (rs["size"], rs["align"]), cs and (cs["size"], cs["align"])))
    n_sl = 0
    for rt, ct in ELEMS.items():
        rsl = rl(crate, "resolvo_cpp::slice::Slice<'_, %s>" % rt)
        csl = L.get("resolvo::Slice<%s>" % ct)
        if rsl is None or csl is None:
            continue
        n_sl += 1
        rf = [(f["name"], f["offset"]) for f in rsl["fields"] if f.get("size", 1) != 0]
        cf = [(f["name"], f["offset"]) for f in csl["fields"]]
        ctx.ob(R, "Slice<%s>" % rt.split("::")[-1], "ptr@0,len@8", (rsl["size"], rsl["align"]) == (csl["size"], csl["align"]) and rf == cf, "",
               "rust %s c++ %s" % (rf, cf))
    ctx.floor(R, "Slice<T> instantiations compared", n_sl, 3)
    # value types generated by cbindgen
    for vt in VALUE_TYPES:
        rn = "resolvo_cpp::%s" % vt + ("<'_>" if vt == "Problem" else "")
        r_, c_ = rl(crate, rn), L.get("resolvo::cbindgen_private::%s" % vt)
        if r_ is None or c_ is None:
            ctx.ob(R, vt, "layouts-known", False, "", "rust %s clang %s" % (r_ is not None, c_ is not None))
            continue
        rf = [(f["name"], f["offset"]) for f in r_.get("fields", []) if f.get("size", 1) != 0]
        cf = [(f["name"], f["offset"]) for f in c_["fields"]]
        same = (r_["size"], r_["align"]) == (c_["size"], c_["align"]) and (rf == cf or not rf)
        ctx.ob(R, vt, "size-align-fields", same, "", "rust (%d,%d) %s  c++ (%d,%d) %s" % (r_["size"], r_["align"], rf[:6], c_["size"], c_["align"], cf[:6]))


# ------------------------------------------------------------------------------------------------
def transmute_layout(ctx, crate):
    R = "transmute-layout"
    n = 0
    def elem(t):
        t = t.strip()
        if t.startswith("&") and "[" in t and t.endswith("]"):
            return t[t.index("[") + 1:-1]
        return None
    sites = []
    for b in crate.bodies:
        for i, j, s in b.assigns():
            r = s["r"]
            if r["k"] == "cast" and r["ck"] == "Transmute" and not s.get("exp"):
                sites.append((b, "%s:%s" % (b.file, s["line"]), r["from"], r["ty"]))
        for i, t in b.calls():
            f = t.get("f")
            if f and f["name"] == "transmute" and ("intrinsics" in f["path"] or "mem::transmute" in f["path"]) and len(f.get("targs", [])) >= 2:
                sites.append((b, where_call(b, i), f["targs"][0], f["targs"][1]))
    for b, where, fr, to in sites:
        n += 1
        ef, et = elem(fr), elem(to)
        lf = crate.layouts.get(ef) if ef else None
        lt = crate.layouts.get(et) if et else None
        ok = lf is not None and lt is not None and (lf["size"], lf["align"]) == (lt["size"], lt["align"]) == (4, 4) and \
            len(lf.get("fields", [])) == 1 and len(lt.get("fields", [])) == 1 and \
            lf["fields"][0]["offset"] == lt["fields"][0]["offset"] == 0 and lf["fields"][0].get("size") == lt["fields"][0].get("size") == 4
        ctx.ob(R, q.enclosing_fn(crate, b), "transmute:%s->%s" % ((ef or fr).split("::")[-1], (et or to).split("::")[-1]), ok, where,
               "element layouts %s -> %s" % ((lf["size"], lf["align"]) if lf else None, (lt["size"], lt["align"]) if lt else None))
    ctx.floor(R, "transmute sites in resolvo_cpp", n, 3)
    # all five id pairs used by the value conversions have equal layouts too
    for nm in ("SolvableId", "VersionSetId", "VersionSetUnionId", "NameId", "StringId"):
        a = crate.layouts.get("resolvo_cpp::%s" % nm)
        b_ = crate.layouts.get("resolvo::%s" % nm) or crate.layouts.get("resolvo::internal::id::%s" % nm)
        ok = a is not None and b_ is not None and (a["size"], a["align"]) == (b_["size"], b_["align"]) == (4, 4)
        ctx.ob(R, nm, "ffi-id==resolvo-id-layout", ok, "", "resolvo_cpp %s resolvo %s" % (a and (a["size"], a["align"]), b_ and (b_["size"], b_["align"])))


# ------------------------------------------------------------------------------------------------
PRIMS = {"bool", "u8", "u16", "u32", "u64", "usize", "i8", "i16", "i32", "i64", "isize", "f32", "f64", "()", "std::ffi::c_void"}


def ffi_type_ok(crate, t, depth=0):
    t = t.strip()
    if t in PRIMS or depth > 6:
        return True
    for pre in ("*const ", "*mut ", "&mut ", "&"):
        if t.startswith(pre):
            rest = t[len(pre):]
            if rest.startswith("'"):
                rest = rest.split(" ", 1)[1] if " " in rest else rest
            return ffi_type_ok(crate, rest, depth + 1)
    if t.startswith("std::ptr::NonNull<") and t.endswith(">"):
        return ffi_type_ok(crate, t[len("std::ptr::NonNull<"):-1], depth + 1)
    if t.startswith("unsafe extern \"C\" fn(") or t.startswith("extern \"C\" fn("):
        return True
    adt = q.adt_of_type(t)
    a = crate.adts.get(adt)
    if a is not None:
        return "C" in a["repr"] or "transparent" in a["repr"]
    return False


def ffi_safe(ctx, crate):
    R = "ffi-safe"
    n = 0
    for path, d in crate.decls.items():
        sig = d.get("sig", {})
        if not str(sig.get("abi", "")).startswith("C"):
            continue
        n += 1
        bad = [t for t in sig.get("inputs", []) + [sig.get("output", "()")] if not ffi_type_ok(crate, t)]
        ctx.ob(R, path, "extern-C-signature", not bad, "%s:%s" % (d.get("file"), d.get("line")),
               "all parameter/return types are FFI-safe" if not bad else "not FFI-safe: %s" % bad[:2])
    ctx.floor(R, "extern \"C\" functions", n, 9)
    a = crate.adts.get(DP)
    if a is None:
        ctx.ob(R, DP, "exists", False, "", "callback table struct not found")
        return
    for f in a["variants"][0]["fields"]:
        ty = f["ty"]
        if ty.startswith("for<"):
            ty = ty[ty.index(">") + 1:].strip()
        ok = ty.startswith("unsafe extern \"C\" fn(") or ty == "*mut std::ffi::c_void"
        if ok and "fn(" in ty:
            inner = ty[ty.index("fn(") + 3:]
            args = inner.rsplit(")", 1)[0]
            ret = inner.rsplit(")", 1)[1].replace("->", "").strip() if "->" in inner.rsplit(")", 1)[1] else "()"
            parts = split_top(args) + [ret]
            bad = [p for p in parts if p and not ffi_type_ok(crate, p)]
            ok = not bad
        ctx.ob(R, DP, "callback:%s" % f["name"], ok, "", ty[:100])
    for nm in VALUE_TYPES + ["vector::Vector", "vector::VectorHeader", "vector::VectorInner", "string::String", "slice::Slice"]:
        ad = crate.adts.get("resolvo_cpp::%s" % nm)
        ctx.ob(R, "resolvo_cpp::%s" % nm, "repr(C)", ad is not None and "C" in ad["repr"], "", "repr: %s" % (ad and ad["repr"]))


def split_top(s):
    out, depth, cur = [], 0, ""
    for ch in s:
        if ch in "<([":
            depth += 1
        elif ch in ">)]":
            depth -= 1
        if ch == "," and depth == 0:
            out.append(cur.strip())
            cur = ""
        else:
            cur += ch
    if cur.strip():
        out.append(cur.strip())
    return out


# ------------------------------------------------------------------------------------------------
def refs(node):
    return [(x.get("referencedDecl") or {}).get("name") for x in cxx.walk(node, lambda m: m.get("kind") == "DeclRefExpr")]


def callback_table_cxx(ctx, crate, cx):
    R = "callback-table"
    a = crate.adts.get(DP)
    rust_fields = [f["name"] for f in a["variants"][0]["fields"]] if a else []
    ctx.ob(R, DP, "rust-field-order", rust_fields == ["data"] + CALLBACKS, "", "fields: %s" % rust_fields)
    solve = [o for o in cx["ast"]["solve"] if o.get("kind") == "FunctionDecl" and o.get("name") == "solve"]
    if not solve:
        ctx.ob(R, "resolvo::solve", "exists", False, "", "resolvo::solve not found in the clang AST")
        return
    il = [n for n in cxx.walk(solve[0], lambda n: n.get("kind") == "InitListExpr")
          if "DependencyProvider" in (n.get("type", {}).get("qualType", ""))]
    tv = [v for v in cxx.walk(solve[0], lambda n: n.get("kind") == "VarDecl")
          if "DependencyProvider" in v.get("type", {}).get("qualType", "") and "cbindgen_private" in v.get("type", {}).get("qualType", "")]
    ctx.floor(R, "aggregate initialiser of the callback table", len(il) or len(tv), 1)
    if il or tv:
        names = refs(il[0]) if il else []
        want = ["provider"] + ["bridge_" + f for f in rust_fields[1:]]
        ok_tab = names == want
        detail = "initialiser lists %s" % names
        if not names:
            # value-initialised table filled field by field: `bridge.<field> = private_api::bridge_<field>;` - agreement is then by name
            locals_ = {v.get("name"): refs(v) for v in cxx.walk(solve[0], lambda n: n.get("kind") == "VarDecl")}
            got = {}
            for bo in cxx.walk(solve[0], lambda n: n.get("kind") == "BinaryOperator" and n.get("opcode") == "="):
                ks = [x for x in bo.get("inner", []) if isinstance(x, dict)]
                if len(ks) != 2:
                    continue
                lhs = ks[0]
                while lhs.get("kind") in ("ImplicitCastExpr", "ParenExpr") and lhs.get("inner"):
                    lhs = lhs["inner"][0]
                if lhs.get("kind") == "MemberExpr" and "DependencyProvider" in str(((lhs.get("inner") or [{}])[0]).get("type", {}).get("qualType", "")):
                    r_ = refs(ks[1])
                    r_ = [y for x in r_ for y in (locals_.get(x, [x]) if x in locals_ else [x])]
                    got.setdefault(lhs.get("name"), []).append(r_)
            ok_tab = set(got) == set(rust_fields) and all(len(v) == 1 for v in got.values()) and \
                all(got[f][0] == (["provider"] if f == "data" else ["bridge_" + f]) for f in rust_fields if f in got)
            detail = "field-wise assignments %s" % {k: v for k, v in sorted(got.items())}
        ctx.ob(R, "resolvo::solve", "initialiser-order==field-order", ok_tab, "cpp/include/resolvo.h",
               detail if not ok_tab else "data + 13 bridge functions, each in the slot of the Rust field of the same name")
    # the table (and anything else computed from the arguments) is rebuilt on every call: a `static` / `thread_local` local
    # initialised from a parameter is initialised once, by the first call, and silently serves every later provider
    nvars = 0
    for group in cx["ast"].values():
        for o in group:
            for fn in cxx.walk(o, lambda n: n.get("kind") in ("FunctionDecl", "CXXMethodDecl")):
                params = {p_.get("name") for p_ in cxx.walk(fn, lambda n: n.get("kind") == "ParmVarDecl")}
                for v in cxx.walk(fn, lambda n: n.get("kind") == "VarDecl"):
                    nvars += 1
                    if v.get("storageClass") == "static" or v.get("tls"):
                        used = sorted(x for x in set(refs(v)) if x in params)
                        ctx.ob(R, "resolvo::" + str(fn.get("name")), "no-static-local-initialised-from-arguments:%s" % v.get("name"),
                               not used, "cpp/include", "a local with static storage duration is initialised from %s: only the first call's value is ever used" % ", ".join(used) if used else "static local does not depend on the arguments")
    ctx.floor(R, "local variables in the header functions", nvars, 1)
    # the call passes &bridge, &problem, &error, &result in that order
    calls = [n for n in cxx.walk(solve[0], lambda n: n.get("kind") == "CallExpr") if "resolvo_solve" in refs(n)]
    if calls:
        args = [x for x in refs(calls[0]) if x != "resolvo_solve"]
        ctx.ob(R, "resolvo::solve", "resolvo_solve(&bridge,&problem,&error,&result)", args == ["bridge", "problem", "error", "result"],
               "cpp/include/resolvo.h", "arguments: %s" % args)
    else:
        ctx.ob(R, "resolvo::solve", "calls-resolvo_solve", False, "cpp/include/resolvo.h", "no call of resolvo_solve")
    # bridge bodies
    fns = {}
    for o in cx["ast"]["bridge"]:
        for f in cxx.walk(o, lambda n: n.get("kind") == "FunctionDecl" and str(n.get("name", "")).startswith("bridge_")):
            if any(x.get("kind") == "CompoundStmt" for x in f.get("inner", [])):
                fns[f["name"]] = f
    ctx.floor(R, "bridge functions with bodies", len(fns), 13)
    for m in CALLBACKS:
        f = fns.get("bridge_" + m)
        if f is None:
            ctx.ob(R, "private_api::bridge_" + m, "exists", False, "", "bridge function missing")
            continue
        params = [p.get("name") for p in f.get("inner", []) if p.get("kind") == "ParmVarDecl"]
        mcs = cxx.walk(f, lambda n: n.get("kind") == "CXXMemberCallExpr")
        called = [x.get("name") for mc in mcs for x in cxx.walk(mc, lambda n: n.get("kind") == "MemberExpr")]
        okm = called[:1] == [m]
        # receiver is reinterpret_cast<DependencyProvider*>(data)
        # (or a static_cast / a small helper function returning DependencyProvider* applied to `data`)
        casts = cxx.walk(f, lambda n: n.get("kind") in ("CXXReinterpretCastExpr", "CXXStaticCastExpr", "CStyleCastExpr"))
        okr = any("DependencyProvider" in c.get("type", {}).get("qualType", "") and "data" in refs(c) for c in casts)
        if not okr:
            for ce in cxx.walk(f, lambda n: n.get("kind") == "CallExpr"):
                if "DependencyProvider" in ce.get("type", {}).get("qualType", "") and "data" in refs(ce):
                    okr = True
        # arguments are the middle parameters in order
        argrefs = [x for mc in mcs[:1] for x in refs(mc) if x != "data" and x in params]
        has_out = params[-1:] == ["result"]
        mids = params[1:-1] if has_out else params[1:]
        oka = argrefs == mids
        # out-parameter is assigned
        oko = True
        if has_out:
            assigns = cxx.walk(f, lambda n: n.get("kind") in ("CXXOperatorCallExpr", "BinaryOperator"))
            oko = any("result" in refs(a) for a in assigns)
        else:
            ret_ty = f.get("type", {}).get("qualType", "").split("(")[0].strip()
            # a void callback (sort_candidates) has nothing to hand back: `return p->sort(..);` and `p->sort(..);` are the same
            oko = bool(cxx.walk(f, lambda n: n.get("kind") == "ReturnStmt")) or ret_ty == "void"
        ctx.ob(R, "private_api::bridge_" + m, "calls-%s-with-params-in-order" % m, okm and okr and oka and oko, "cpp/include/resolvo_dependency_provider.h",
               "calls %s on %s with %s; out/return ok=%s" % (called[:1], "data-cast" if okr else "?", argrefs, oko))


def callback_table_rust(ctx, crate, crs):
    R = "callback-table"
    n = 0
    for b in crate.bodies:
        tr = b.d.get("impl_trait") or ""
        root = crate.by_path.get(b.root) if b.root else b
        troot = (root.d.get("impl_trait") if root else None) or tr
        if troot not in ("resolvo::Interner", "resolvo::DependencyProvider"):
            continue
        if "resolvo_cpp::DependencyProvider" not in ((root.d.get("impl_self") if root else "") or ""):
            continue
        meth = (root.path if root else b.path).rsplit("::", 1)[-1]
        if meth not in CALLBACKS:
            continue
        for i, t in b.calls():
            if t.get("f") is not None or "fo" not in t:
                continue
            p = operand_place(t["fo"])
            d = b.origin(t["fo"])
            fld = [e.get("n") for e in d.get("proj", []) if isinstance(e, dict) and e.get("of") == DP]
            if not fld and p is not None:
                fld = [e.get("n") for e in p.get("p", []) if isinstance(e, dict) and e.get("of") == DP]
            if not fld:
                continue
            n += 1
            ctx.ob(R, "<&DependencyProvider as %s>::%s" % (troot.split("::")[-1], meth), "calls-callback:%s" % meth, fld[-1] == meth,
                   where_call(b, i), "the trait method invokes callback field `%s`" % fld[-1])
            # first argument is self.data
            a0 = b.origin(t["args"][0]) if t["args"] else {"proj": []}
            okd = any(isinstance(e, dict) and e.get("n") == "data" for e in a0.get("proj", []))
            ctx.ob(R, "<&DependencyProvider as %s>::%s" % (troot.split("::")[-1], meth), "passes-self.data", okd, where_call(b, i),
                   "the opaque provider pointer is passed as first argument")
    ctx.floor(R, "indirect callback invocations in the Rust bridge", n, 13)


# ------------------------------------------------------------------------------------------------
def expr_str(n):
    k = n.get("kind")
    inner = [x for x in n.get("inner", []) if isinstance(x, dict)]
    if k in ("ImplicitCastExpr", "ParenExpr", "ExprWithCleanups", "MaterializeTemporaryExpr", "CXXFunctionalCastExpr", "CStyleCastExpr",
             "CXXStaticCastExpr", "ConstantExpr"):
        return expr_str(inner[0]) if inner else "?"
    if k == "BinaryOperator":
        return "(%s %s %s)" % (expr_str(inner[0]), n.get("opcode"), expr_str(inner[1]))
    if k == "UnaryExprOrTypeTraitExpr":
        at = n.get("argType", {}).get("qualType", "?")
        return "%s(%s)" % (n.get("name"), at.replace("resolvo::Vector<T>::", "").replace("resolvo::Vector::", "").replace("typename ", ""))
    if k == "MemberExpr":
        return n.get("name", "?")       # inner->capacity  => capacity
    if k == "CXXDependentScopeMemberExpr":
        return n.get("member", "?")
    if k == "DeclRefExpr":
        return (n.get("referencedDecl") or {}).get("name", "?")
    if k == "IntegerLiteral":
        return n.get("value", "?")
    if k == "CXXReinterpretCastExpr":
        return "reinterpret(%s)" % (expr_str(inner[0]) if inner else "?")
    return k or "?"


def alloc_symmetry_cxx(ctx, crate, cx):
    R = "alloc-symmetry"
    tmpl = [o for o in cx["ast"]["vector"] if o.get("kind") == "ClassTemplateDecl"]
    if not tmpl:
        ctx.ob(R, "resolvo::Vector", "template-found", False, "", "Vector template not in the AST dump")
        return
    rec = [x for x in tmpl[0].get("inner", []) if x.get("kind") == "CXXRecordDecl"][0]
    calls = {}
    for m in cxx.walk(rec, lambda n: n.get("kind") in ("CXXMethodDecl",) and not n.get("verif_inlined_helper")):
        for c in cxx.walk(m, lambda n: n.get("kind") == "CallExpr"):
            callee = None
            for x in cxx.walk(c, lambda n: n.get("kind") in ("DeclRefExpr", "UnresolvedLookupExpr", "DependentScopeDeclRefExpr")):
                nm = (x.get("referencedDecl") or {}).get("name") or x.get("name")
                if nm in ("resolvo_vector_allocate", "resolvo_vector_free"):
                    callee = nm
            if callee:
                args = [a for a in c.get("inner", [])[1:]]
                calls.setdefault(callee, []).append((m.get("name"), [expr_str(a) for a in args]))
    al, fr = calls.get("resolvo_vector_allocate", []), calls.get("resolvo_vector_free", [])
    ctx.ob(R, "resolvo::Vector", "allocate-and-free-sites", len(al) == 1 and len(fr) == 1, "cpp/include/resolvo_vector.h",
           "allocate in %s, free in %s" % ([m for m, _ in al], [m for m, _ in fr]))
    if al and fr:
        asz, aal = al[0][1][0], al[0][1][1]
        fsz, fal = fr[0][1][1], fr[0][1][2]
        ctx.ob(R, "resolvo::Vector", "same-size-expression", asz == fsz, "cpp/include/resolvo_vector.h", "allocate(%s) free(%s)" % (asz, fsz))
        ctx.ob(R, "resolvo::Vector", "same-align-expression", aal == fal, "cpp/include/resolvo_vector.h", "allocate(%s) free(%s)" % (aal, fal))
        want = "(sizeof(Header) + (capacity * sizeof(T)))"
        ctx.ob(R, "resolvo::Vector", "size==sizeof(Header)+capacity*sizeof(T)", asz == want, "cpp/include/resolvo_vector.h",
               "size expression %s (Rust: Layout::new::<VectorHeader>().extend(Layout::array::<T>(capacity)))" % asz)
        ctx.ob(R, "resolvo::Vector", "align==alignof(Header)", aal == "alignof(Header)", "cpp/include/resolvo_vector.h", "align expression %s" % aal)
        ctx.ob(R, "resolvo::Vector", "free-passes-inner", "inner" in fr[0][1][0], "cpp/include/resolvo_vector.h", "freed pointer: %s" % fr[0][1][0])
    sets_size_to_cap = False
    for m in cxx.walk(rec, lambda n: n.get("kind") in ("CXXConstructorDecl", "CXXMethodDecl", "FunctionTemplateDecl")):
        for bo in cxx.walk(m, lambda n: n.get("kind") == "BinaryOperator" and n.get("opcode") == "="):
            inner = [x for x in bo.get("inner", []) if isinstance(x, dict)]
            if len(inner) == 2 and expr_str(inner[0]) == "size" and "capacity" in expr_str(inner[1]):
                sets_size_to_cap = True
    ctx.notes.append("a Vector constructor sets size = capacity: %s (this is why with_capacity must be exact)" % sets_size_to_cap)
    # with_capacity is exact: the range constructor sets `size = capacity` after copying distance(first,last) elements, and
    # detach() relies on capacity >= expected; so the parameter must reach the header and the allocation size unmodified
    for m in cxx.walk(rec, lambda n: n.get("kind") == "CXXMethodDecl" and n.get("name") == "with_capacity"):
        if not [x for x in m.get("inner", []) if x.get("kind") == "CompoundStmt"]:
            continue
        params = [x.get("name") for x in m.get("inner", []) if x.get("kind") == "ParmVarDecl"]
        reassigned = []
        for bo in cxx.walk(m, lambda n: n.get("kind") in ("BinaryOperator", "CompoundAssignOperator", "UnaryOperator")):
            op = bo.get("opcode", "")
            inner = [x for x in bo.get("inner", []) if isinstance(x, dict)]
            if not inner:
                continue
            is_assign = (bo["kind"] != "UnaryOperator" and (op == "=" or op.endswith("=") and op not in ("==", "!=", "<=", ">="))) or \
                (bo["kind"] == "UnaryOperator" and op in ("++", "--"))
            if is_assign and expr_str(inner[0]) in params:
                reassigned.append(expr_str(inner[0]))
        inits = cxx.walk(m, lambda n: n.get("kind") in ("InitListExpr", "CXXNewExpr"))
        hdr_cap = None
        for il in cxx.walk(m, lambda n: n.get("kind") == "InitListExpr"):
            items = [x for x in il.get("inner", []) if isinstance(x, dict)]
            if len(items) == 3:
                hdr_cap = (expr_str(items[1]), expr_str(items[2]))
        # rounding the capacity up is harmless by itself; it is wrong as long as some constructor derives `size` from `capacity`
        ok = hdr_cap is not None and hdr_cap[0] == "0" and hdr_cap[1] in params and not (reassigned and sets_size_to_cap)
        ctx.ob(R, "resolvo::Vector::with_capacity", "capacity-is-exact", ok, "cpp/include/resolvo_vector.h",
               "the requested capacity is stored and allocated unmodified, size starts at 0 (header init: %s; parameter reassigned: %s)" %
               (hdr_cap, reassigned or "no"))
    # copy-on-write protocol of the mutable accessors: a non-const method handing out `T*` / `T&` into the buffer makes the
    # buffer unique first (calls detach, or goes through another mutable accessor that does)
    n_acc = 0
    mutable_ok = {}
    meths = [m for m in cxx.walk(rec, lambda n: n.get("kind") == "CXXMethodDecl") if [x for x in m.get("inner", []) if x.get("kind") == "CompoundStmt"]]
    for _round in range(3):
        for m in meths:
            qt = m.get("type", {}).get("qualType", "")
            ret = qt.split("(")[0].strip()
            is_const_method = qt.rstrip().endswith("const") or ") const" in qt
            import re as _re
            if is_const_method or not _re.match(r"^T\s*[\*&]$", ret):
                continue
            names = []
            for x in cxx.walk(m, lambda n: n.get("kind") in ("MemberExpr", "UnresolvedMemberExpr", "CXXDependentScopeMemberExpr", "DeclRefExpr", "UnresolvedLookupExpr")):
                names.append(x.get("member") or x.get("name") or (x.get("referencedDecl") or {}).get("name"))
            calls_detach = "detach" in names
            via = [k for k, v in mutable_ok.items() if v and k in names and k != m.get("name")]
            # a call of an overloaded member (begin / end) is an UnresolvedMemberExpr without a name in clang's JSON; in a
            # non-const method it binds to the non-const overload, which is fine once some other mutable accessor (begin) detaches itself
            if not via and cxx.walk(m, lambda n: n.get("kind") == "UnresolvedMemberExpr") and \
                    any(v for k, v in mutable_ok.items() if k != m.get("name")):
                via = ["<overloaded accessor>"]
            mutable_ok[m.get("name")] = calls_detach or bool(via)
    for name, ok in sorted(mutable_ok.items()):
        n_acc += 1
        ctx.ob(R, "resolvo::Vector::%s" % name, "mutable-accessor-detaches", ok, "cpp/include/resolvo_vector.h",
               "the non-const accessor makes the shared buffer unique before handing out a mutable pointer / reference")
    ctx.floor(R, "mutable accessors of Vector", n_acc, 2)
    # aliasing: push_back's argument may refer to an element of this very vector (`v.push_back(v[0])`, as std::vector allows).
    # detach() can release the old buffer, so the parameter must not be read after it - it has to be copied / moved into a
    # local first
    for m in cxx.walk(rec, lambda n: n.get("kind") == "CXXMethodDecl" and n.get("name") == "push_back"):
        body = [x for x in m.get("inner", []) if x.get("kind") == "CompoundStmt"]
        if not body:
            continue
        params = [p_.get("name") for p_ in m.get("inner", []) if p_.get("kind") == "ParmVarDecl"]
        stmts = [x for x in body[0].get("inner", []) if isinstance(x, dict)]
        det_idx = None
        last_use = None
        for k, st in enumerate(stmts):
            names_ = [x.get("member") or x.get("name") or (x.get("referencedDecl") or {}).get("name")
                      for x in cxx.walk(st, lambda n: n.get("kind") in ("MemberExpr", "UnresolvedMemberExpr", "CXXDependentScopeMemberExpr", "DeclRefExpr", "UnresolvedLookupExpr"))]
            if det_idx is None and "detach" in names_:
                det_idx = k
            if any(p_ in names_ for p_ in params):
                last_use = k
        # `push_back(std::move(copy))` is a call of an overloaded member: an UnresolvedMemberExpr without a name in clang's JSON
        delegates = det_idx is None and not cxx.walk(m, lambda n: n.get("kind") == "CXXNewExpr") and \
            bool(cxx.walk(m, lambda n: n.get("kind") == "UnresolvedMemberExpr"))
        ok = delegates or (det_idx is not None and last_use is not None and last_use < det_idx)
        sig = m.get("type", {}).get("qualType", "")
        ctx.ob(R, "resolvo::Vector::push_back", "argument-not-read-after-detach:%s" % ("rvalue" if "&&" in sig else "const-ref"), ok,
               "cpp/include/resolvo_vector.h",
               "the element to append is copied / moved out of the reference parameter before detach() may release the buffer it points into")
    # the same for every other member that takes an element by reference (an `emplace_back(Args&&...)` both overloads forward to, an
    # `insert`, ...): in source order no mention of such a parameter follows the first call of detach()
    for m in cxx.walk(rec, lambda n: n.get("kind") == "CXXMethodDecl" and n.get("name") != "push_back"):
        body = [x for x in m.get("inner", []) if x.get("kind") == "CompoundStmt"]
        if not body:
            continue
        params = [p_.get("name") for p_ in m.get("inner", []) if p_.get("kind") == "ParmVarDecl" and p_.get("name") and
                  "&" in p_.get("type", {}).get("qualType", "") and "Vector" not in p_.get("type", {}).get("qualType", "")]
        if not params:
            continue
        seq = []

        def flat(n):
            if isinstance(n, dict):
                seq.append(n)
                for x in n.get("inner", []) or []:
                    flat(x)
        flat(body[0])
        nm_of = lambda x: x.get("member") or x.get("name") or (x.get("referencedDecl") or {}).get("name")
        det = [k for k, x in enumerate(seq) if x.get("kind") in ("MemberExpr", "UnresolvedMemberExpr", "CXXDependentScopeMemberExpr") and nm_of(x) == "detach"]
        use = [k for k, x in enumerate(seq) if x.get("kind") in ("DeclRefExpr",) and nm_of(x) in params]
        if not det:
            continue
        ctx.ob(R, "resolvo::Vector::%s" % m.get("name"), "argument-not-read-after-detach", not use or max(use) < min(det),
               "cpp/include/resolvo_vector.h",
               "a reference parameter (%s) may refer to an element of this very vector: it is not read after detach() may have released the buffer" % ", ".join(params))
    # copy-on-write protocol of push_back: detach(size + 1) before the placement new at end()
    n_pb = 0
    for m in cxx.walk(rec, lambda n: n.get("kind") == "CXXMethodDecl" and n.get("name") == "push_back"):
        body = [x for x in m.get("inner", []) if x.get("kind") == "CompoundStmt"]
        if not body:
            continue
        n_pb += 1
        stmts = [x for x in body[0].get("inner", []) if isinstance(x, dict)]
        new_idx = det_idx = None
        det_args = None
        for k, st in enumerate(stmts):
            if new_idx is None and cxx.walk(st, lambda n: n.get("kind") == "CXXNewExpr"):
                new_idx = k
            for c in cxx.walk(st, lambda n: n.get("kind") in ("CallExpr", "CXXMemberCallExpr")):
                nm = [x.get("member") or x.get("name") or (x.get("referencedDecl") or {}).get("name")
                      for x in cxx.walk(c, lambda n: n.get("kind") in ("MemberExpr", "UnresolvedMemberExpr", "CXXDependentScopeMemberExpr", "DeclRefExpr", "UnresolvedLookupExpr"))]
                if det_idx is None and "detach" in nm:
                    det_idx = k
                    det_args = [expr_str(a) for a in c.get("inner", [])[1:]]
        if new_idx is None:
            # an overload that constructs nothing itself hands the element to the other overload
            ok = det_idx is None and bool(cxx.walk(m, lambda n: n.get("kind") == "UnresolvedMemberExpr"))
            detail = "delegates to the other overload"
        else:
            ok = det_idx is not None and det_idx < new_idx and det_args == ["(size + 1)"]
            detail = "detach%s precedes the placement new" % (det_args,)
        ctx.ob(R, "resolvo::Vector::push_back", "detach(size+1)-before-placement-new#%d" % n_pb, ok, "cpp/include/resolvo_vector.h",
               "push_back makes the buffer unique with room for size+1 elements before it constructs at end() (%s)" % detail)
    ctx.floor(R, "push_back overloads", n_pb, 2)
    # static_assert(alignof(T) <= alignof(Header)) present
    sa = cxx.walk(rec, lambda n: n.get("kind") == "StaticAssertDecl")
    ok_sa = any("alignof" in expr_str(x.get("inner", [{}])[0]) and "<=" in expr_str(x.get("inner", [{}])[0]) for x in sa)
    ctx.ob(R, "resolvo::Vector", "static_assert(alignof(T)<=alignof(Header))", ok_sa, "cpp/include/resolvo_vector.h", "C++ side guards the element alignment")
    # refcount guard in drop(): `inner->refcount > 0 && --inner->refcount == 0`
    for m in cxx.walk(rec, lambda n: n.get("kind") == "CXXMethodDecl" and n.get("name") == "drop"):
        facts = _facts_at_call(m, "resolvo_vector_free")
        ok = facts is not None and any(_means_positive_refcount(pol, e) for pol, e in facts)
        ctx.ob(R, "resolvo::Vector::drop", "static-empty-vector-not-freed", ok, "cpp/include/resolvo_vector.h",
               "every path to resolvo_vector_free has established refcount > 0 (facts on the path: %s)" %
               (", ".join(("" if pol else "!") + expr_str(e) for pol, e in (facts or []))[:160]))


def string_assignment(ctx, cx):
    """resolvo::String::operator=(const String&): the old contents are released (resolvo_string_drop) before `other` is read;
    that is only safe behind a self-assignment test (as Vector::operator= has) or when the clone happens first."""
    R = "alloc-symmetry"
    recs = []
    for o in cx["ast"].get("string", []):
        recs += cxx.walk(o, lambda n: n.get("kind") == "CXXRecordDecl" and n.get("name") == "String")
    n = 0
    recs = [r_ for r_ in recs if cxx.walk(r_, lambda n: n.get("kind") == "CXXMethodDecl")]
    for rec in recs[:1]:
        for m in cxx.walk(rec, lambda n: n.get("kind") == "CXXMethodDecl" and n.get("name") == "operator="):
            body = [x for x in m.get("inner", []) if x.get("kind") == "CompoundStmt"]
            sig = m.get("type", {}).get("qualType", "")
            if not body or "&&" in sig or "const resolvo::String &" not in sig and "const String &" not in sig:
                continue
            n += 1
            params = [p_.get("name") for p_ in m.get("inner", []) if p_.get("kind") == "ParmVarDecl"]
            stmts = [x for x in body[0].get("inner", []) if isinstance(x, dict)]
            drop_idx = read_idx = guard_idx = None
            for k, st in enumerate(stmts):
                rs = refs2(st)
                if drop_idx is None and "resolvo_string_drop" in rs:
                    drop_idx = k
                if any(p_ in rs for p_ in params) and st.get("kind") != "IfStmt":
                    read_idx = k if read_idx is None else read_idx
                if st.get("kind") == "IfStmt" and any(p_ in rs for p_ in params) and cxx.walk(st, lambda n: n.get("kind") == "ReturnStmt") \
                        and cxx.walk(st, lambda n: n.get("kind") == "CXXThisExpr"):
                    guard_idx = k if guard_idx is None else guard_idx
            swaps = any("swap" in refs2(st) for st in stmts)
            ok = swaps or drop_idx is None or (guard_idx is not None and guard_idx < drop_idx) or (read_idx is not None and read_idx < drop_idx)
            ctx.ob(R, "resolvo::String::operator=", "copy-assignment-is-self-safe", ok, "cpp/include/resolvo_string.h",
                   "the string's own buffer is not released before `other` has been read, or self-assignment is tested first")
    ctx.floor(R, "copy assignment operators of String", n, 1)


def refs2(n):
    out = []
    for x in cxx.walk(n, lambda y: y.get("kind") in ("DeclRefExpr", "UnresolvedLookupExpr", "DependentScopeDeclRefExpr", "MemberExpr")):
        nm = (x.get("referencedDecl") or {}).get("name") or x.get("name")
        if nm:
            out.append(nm)
    return out


def _conj(pol, e, out):
    """Split a condition known to be `pol` (True: holds, False: does not hold) into atomic facts."""
    k = e.get("kind")
    inner = [x for x in e.get("inner", []) if isinstance(x, dict)]
    if k in ("ImplicitCastExpr", "ParenExpr", "ExprWithCleanups", "ConstantExpr") and inner:
        return _conj(pol, inner[0], out)
    if k == "UnaryOperator" and e.get("opcode") == "!" and inner:
        return _conj(not pol, inner[0], out)
    if k == "BinaryOperator" and e.get("opcode") == "&&" and pol:
        _conj(True, inner[0], out)
        _conj(True, inner[1], out)
        return
    if k == "BinaryOperator" and e.get("opcode") == "||" and not pol:
        _conj(False, inner[0], out)
        _conj(False, inner[1], out)
        return
    out.append((pol, e))


def _contains_call(n, name):
    for x in cxx.walk(n, lambda y: y.get("kind") in ("DeclRefExpr", "UnresolvedLookupExpr", "DependentScopeDeclRefExpr")):
        if ((x.get("referencedDecl") or {}).get("name") or x.get("name")) == name:
            return True
    return False


def _always_exits(stmt):
    k = stmt.get("kind")
    if k == "ReturnStmt":
        return True
    if k == "CompoundStmt":
        inner = [x for x in stmt.get("inner", []) if isinstance(x, dict)]
        return bool(inner) and _always_exits(inner[-1])
    return False


def _facts_at_call(fn, callee):
    """Atomic conditions known to hold / not to hold on every path to the (first) statement containing a call of `callee`:
    then-branches of enclosing `if`s contribute their condition, preceding `if (c) return;` statements contribute !c."""
    body = [x for x in fn.get("inner", []) if isinstance(x, dict) and x.get("kind") == "CompoundStmt"]
    if not body:
        return None

    def walk(stmt, facts):
        k = stmt.get("kind")
        if k == "CompoundStmt":
            cur = list(facts)
            for st in [x for x in stmt.get("inner", []) if isinstance(x, dict)]:
                if _contains_call(st, callee):
                    return walk(st, cur)
                if st.get("kind") == "IfStmt":
                    parts = [x for x in st.get("inner", []) if isinstance(x, dict)]
                    if len(parts) == 2 and _always_exits(parts[1]):
                        _conj(False, parts[0], cur)
            return None
        if k == "IfStmt":
            parts = [x for x in stmt.get("inner", []) if isinstance(x, dict)]
            if len(parts) >= 2 and _contains_call(parts[1], callee):
                cur = list(facts)
                _conj(True, parts[0], cur)
                return walk(parts[1], cur)
            if len(parts) == 3 and _contains_call(parts[2], callee):
                cur = list(facts)
                _conj(False, parts[0], cur)
                return walk(parts[2], cur)
            return None
        return facts
    return walk(body[0], [])


def _means_positive_refcount(pol, e):
    k = e.get("kind")
    inner = [x for x in e.get("inner", []) if isinstance(x, dict)]
    if k != "BinaryOperator" or len(inner) != 2:
        return False
    a, b, op = expr_str(inner[0]), expr_str(inner[1]), e.get("opcode")
    if a != "refcount":
        if b == "refcount":
            a, b = b, a
            op = {"<": ">", ">": "<", "<=": ">=", ">=": "<="}.get(op, op)
        else:
            return False
    if pol:
        return (op, b) in ((">", "0"), (">=", "1"))
    return (op, b) in (("<=", "0"), ("<", "1"))


def raw_pointers_read_first(ctx, crate, crs):
    """The C `Candidates` out-structure carries raw pointers (`favored`, `locked`) next to owned vectors.  Nothing in the header
    forbids a provider to point them at an element of the `candidates` vector it returns, so the Rust bridge has to read
    through them *before* it consumes (and thereby frees) any of the vectors of the same structure."""
    R = "provider-mapping"
    n = 0
    for b in crate.bodies:
        if "DependencyProvider" not in b.key or not b.key.endswith("get_candidates::{closure#0}"):
            continue
        reads, consumes = [], []
        for i, t in b.calls():
            f = t.get("f")
            if not f or not t["args"]:
                continue
            d = b.origin(t["args"][0])
            names = [e.get("n") for e in d.get("proj", []) if isinstance(e, dict) and "f" in e]
            if f["name"] == "as_ref" and "const_ptr" in f["path"] and names and names[-1] in ("favored", "locked"):
                reads.append((i, names[-1]))
            if f["name"] in ("into_iter", "drop", "into_vec") and names and names[-1] in ("candidates", "hint_dependencies_available", "excluded") \
                    and t["args"][0].get("k") == "move":
                consumes.append((i, names[-1]))
        if not reads:
            continue
        n += 1
        for ri, rn in reads:
            late = [cn for ci, cn in consumes if ci != ri and ri in b.reachable([ci])]
            # `as_ref()` only makes a reference: the read through the pointer is complete where the last reference-typed value
            # derived from it is used (`.copied()`, `*r`, a closure receiving `&T`) - all of those uses come before the consumption
            refs = {b.blocks[ri]["term"]["dest"]["l"]}
            grew = True
            while grew:
                grew = False
                for i2, j2, s2 in b.assigns():
                    dl = s2["p"]["l"]
                    if dl in refs or s2["p"].get("p"):
                        continue
                    if "&" in b.local_ty(dl) and q.slice_locals(b, {"k": "copy", "p": s2["p"]}) & refs:
                        refs.add(dl)
                        grew = True
                for i2, t2 in b.calls():
                    dl = t2["dest"]["l"]
                    if dl in refs or t2["dest"].get("p"):
                        continue
                    if "&" in b.local_ty(dl) and any((operand_place(a) or {}).get("l") in refs for a in t2["args"]):
                        refs.add(dl)
                        grew = True
            uses = set()
            for i2, t2 in b.calls():
                if any((operand_place(a) or {}).get("l") in refs for a in t2["args"]):
                    uses.add(i2)
            for i2, j2, s2 in b.assigns():
                r2 = s2["r"]
                src = operand_place(r2["o"]) if r2["k"] == "use" else (r2.get("p") if r2["k"] in ("copyderef", "discr") else None)
                if s2["p"]["l"] not in refs and src is not None and src.get("l") in refs:
                    uses.add(i2)
            for ci, cn in consumes:
                after = b.reachable_after(ci)
                if any(u in after for u in uses if u != ci) and cn not in late:
                    late.append(cn)
            ctx.ob(R, b.key, "raw-pointer-read-before-vectors-are-consumed:%s" % rn, not late, where_call(b, ri),
                   "`%s` is dereferenced before any vector of the same out-structure is consumed%s" % (rn, (" (after %s)" % ", ".join(sorted(set(late)))) if late else ""))
    ctx.floor(R, "bridge functions reading raw pointers of an out-structure", n, 1)


def relocation_guard(ctx, crate, crs):
    """Vector::from_iter grows by moving the elements bitwise into a new buffer while the old buffer is owned by an
    IntoIterInner::UnShared(old, begin) guard whose Drop destroys the elements from `begin` on.  Whoever moves elements out of the
    old buffer must advance that `begin` (or the guard must be forgotten): otherwise every relocated element with a destructor is
    dropped twice."""
    R = "alloc-symmetry"
    n = 0
    for b in crate.bodies:
        if not b.key.endswith("::from_iter") or "vector::Vector" not in b.key:
            continue
        guards = [s2 for i, j, s2 in b.assigns() if s2["r"]["k"] == "agg" and s2["r"].get("variant") == "UnShared"]
        moves = [(i, t) for i, t in b.calls() if t.get("f") and t["f"]["name"] in ("read", "copy_nonoverlapping", "copy", "read_unaligned")]
        if not guards and not moves:
            continue
        n += 1
        marks = 0
        zeroed = 0
        for i, j, s2 in b.assigns():
            pl = s2["p"]
            d = b.origin({"k": "copy", "p": pl}) if pl.get("p") else None
            if d is None:
                continue
            pr = d.get("proj", [])
            if any(isinstance(e, dict) and e.get("as") == "UnShared" for e in pr) and any(isinstance(e, dict) and e.get("f") == 1 for e in pr):
                marks += 1
            if any(isinstance(e, dict) and e.get("n") == "size" for e in pr) and s2["r"]["k"] == "use" and \
                    (b.origin(s2["r"]["o"]).get("c") or {}).get("v") in (0, "0"):
                zeroed += 1
        forgets = [i for i, t in b.calls() if t.get("f") and t["f"]["name"] in ("forget", "into_raw")]
        # without a guard the old buffer must be released without destroying its (moved-out) elements: plain dealloc, or its
        # size is set to zero before an element-dropping release
        drops = [t["f"]["name"] for i, t in b.calls() if t.get("f") and t["f"]["name"] in ("drop_inner", "drop_in_place", "drop")
                 and not b.blocks[i].get("cleanup")]
        if guards:
            ok = (not moves) or marks >= 1 or bool(forgets)
        else:
            ok = (not drops) or zeroed >= 1 or bool(forgets)
        ctx.ob(R, b.key, "relocated-elements-are-marked-moved", ok, b.loc(),
               "elements moved out of the old buffer are accounted for by whatever frees it (moves: %d, guard: %s, writes to the guard's begin: %d, element-dropping releases: %s)" % (len(moves), bool(guards), marks, ",".join(drops) or "none"))
    ctx.floor(R, "growth path of Vector::from_iter", n, 1)


def foreign_slices(ctx, crate, crs):
    """slice::from_raw_parts requires a non-null, aligned pointer even for length 0.  C++ hands out (nullptr, 0) freely
    (`std::string_view{}`, an empty `std::vector`'s data()), so a raw-parts call whose pointer is a raw-pointer parameter of an
    extern "C" function - or a pointer field of a #[repr(C)] struct filled in by C++ - must not be reached with length 0 / null:
    Slice::as_slice shows the idiom (`if self.len == 0 { return &[] }`)."""
    R = "foreign-slices"
    n = 0
    for b in crate.bodies:
        if b.crate.is_test or "::tests::" in b.key:
            continue
        for i, t in b.calls():
            f = t.get("f")
            if f is None or f["name"] not in ("from_raw_parts", "from_raw_parts_mut") or "slice" not in f["path"]:
                continue
            n += 1
            sig = b.d.get("sig") or {}
            ins = sig.get("inputs") or []
            d, _ = q.origin_thru(b, t["args"][0], transparent=q.TRANSPARENT | {"std::ptr::NonNull::as_ptr"})
            foreign = None
            if d.get("k") == "arg" and 1 <= d.get("l", 0) <= len(ins):
                ty = ins[d["l"] - 1]
                pr = [e for e in d.get("proj", []) if isinstance(e, dict) and e.get("n")]
                if not pr and ty.lstrip().startswith(("*const", "*mut")) and sig.get("abi") not in (None, "Rust"):
                    foreign = "parameter %d (%s) of an extern \"%s\" function" % (d["l"], ty, sig.get("abi"))
                elif pr and any(str(e.get("ty", "")).startswith(("*const", "*mut", "std::ptr::NonNull")) for e in pr[-1:]) \
                        and "slice::Slice" in str(pr[-1].get("of", "")):
                    foreign = "field %s of the #[repr(C)] %s" % (pr[-1]["n"], pr[-1]["of"])
            if foreign is None:
                ctx.ob(R, b.key, "raw-parts-of-own-allocation", True, where_call(b, i),
                       "the pointer comes from this side's own allocation (never null)")
                continue
            len_lv = q.leaves(b, t["args"][1], adt=True)
            ptr_lv = q.leaves(b, t["args"][0], adt=True)
            ok = False
            for c in q.conds(b, crs):
                if not b.dominates(c.bb, i):
                    continue
                zero_edge = None
                if c.kind == "cmp" and c.op in ("Eq", "Ne"):
                    for x, y in ((c.a, c.b), (c.b, c.a)):
                        if (b.origin(y).get("c") or {}).get("v") in (0, "0") and (q.leaves(b, x, adt=True) & len_lv):
                            zero_edge = c.target(c.op == "Eq")
                elif c.kind == "bool" and isinstance(c.src, dict) and c.src.get("k") == "call" and \
                        c.src["t"]["f"]["name"] in ("is_null", "is_empty") and \
                        (q.leaves(b, c.src["t"]["args"][0], adt=True) & (ptr_lv | len_lv)):
                    zero_edge = c.target(True)
                if zero_edge is not None and i not in b.reachable([zero_edge]):
                    ok = True
            ctx.ob(R, b.key, "foreign-pointer-not-used-for-an-empty-slice", ok, where_call(b, i),
                   "%s reaches slice::from_raw_parts %s" % (foreign, "only behind a length / null test" if ok else
                                                            "unconditionally: (nullptr, 0) - e.g. a default-constructed std::string_view - is undefined behaviour there (debug builds abort)"))
    ctx.floor(R, "slice::from_raw_parts sites in the binding", n, 3)


def alloc_symmetry_rust(ctx, crate, crs):
    R = "alloc-symmetry"
    relocation_guard(ctx, crate, crs)
    raw_pointers_read_first(ctx, crate, crs)
    n_de = 0
    for b in crate.bodies:
        for i, t in b.calls():
            f = t.get("f")
            if f is None:
                continue
            ks = callee_keys(f)
            if "std::alloc::dealloc" in ks and not b.key.endswith("resolvo_vector_free"):
                n_de += 1
                d, _ = q.origin_thru(b, t["args"][1], transparent=set())
                ok = False
                if d["k"] == "call" and d["t"]["f"]["name"] == "compute_inner_layout":
                    cd, _ = q.origin_thru(b, d["t"]["args"][0], transparent=q.TRANSPARENT | {"std::ptr::NonNull::as_ref"})
                    ok = any(isinstance(e, dict) and e.get("n") == "capacity" and e.get("of") == VH for e in cd.get("proj", []))
                ctx.ob(R, q.enclosing_fn(crate, b), "dealloc(compute_inner_layout(header.capacity))", ok, where_call(b, i),
                       "memory is released with the layout computed from the stored capacity")
            if "std::alloc::alloc" in ks and not b.key.endswith("resolvo_vector_allocate"):
                d, _ = q.origin_thru(b, t["args"][0], transparent=set())
                ok = d["k"] == "call" and d["t"]["f"]["name"] == "compute_inner_layout"
                cap_ok = False
                if ok:
                    cd = b.origin(d["t"]["args"][0])
                    # header written with the same capacity
                    for ii, jj, s in b.assigns():
                        r = s["r"]
                        if r["k"] == "agg" and r.get("adt") == VH:
                            for nm, o in zip(r.get("fields", []), r["ops"]):
                                if nm == "capacity":
                                    cap_ok = q.same_origin(b.origin(o), cd)
                ctx.ob(R, q.enclosing_fn(crate, b), "alloc(compute_inner_layout(capacity))+header.capacity", ok and cap_ok, where_call(b, i),
                       "the capacity used for the allocation is the one stored in the header")
    ctx.floor(R, "dealloc sites in the Rust vector", n_de, 2)
    # compute_inner_layout = Layout::new::<VectorHeader>().extend(Layout::array::<T>(capacity))
    b = body_by_key(crate, "resolvo_cpp::vector::compute_inner_layout")
    if b is not None:
        names = [t["f"]["name"] for i, t in b.calls() if t.get("f")]
        targs = [" ".join(t["f"].get("targs", [])) for i, t in b.calls() if t.get("f") and t["f"]["name"] == "new"]
        lay = sorted(t["f"]["name"] for i, t in b.calls() if t.get("f") and "Layout" in t["f"]["path"])
        ctx.ob(R, b.key, "Layout(Header).extend(array<T>(capacity))", lay == ["array", "extend", "new"] and any("VectorHeader" in x for x in targs),
               b.loc(), "Layout operations used: %s (C++ computes exactly sizeof(Header) + capacity*sizeof(T), so no padding or re-alignment may be added)" % lay)
    # Drop / Clone of Vector skip the static empty vector
    for tr, op, cmpop in (("std::ops::Drop", "fetch_sub", "Lt"), ("std::clone::Clone", "fetch_add", "Gt")):
        for b in crate.bodies:
            if b.d.get("impl_trait") == tr and b.d.get("impl_adt") == "resolvo_cpp::vector::Vector":
                cs = q.conds(b, crs)
                calls = [i for i, t in b.calls() if t.get("f") and t["f"]["name"] == op]
                ok = False
                for c in cs:
                    # refcount < 0 (false edge), refcount >= 0 / > 0 (true edge), refcount <= 0 (false edge): any form of "not negative"
                    if c.kind == "cmp" and c.b.get("k") == "const" and c.b.get("v") == 0 and c.op in ("Lt", "Ge", "Gt", "Le"):
                        edge = c.target(c.op in ("Ge", "Gt"))
                        if calls and edge is not None and q.edge_dominates(b, c.bb, edge, calls[0]):
                            ok = True
                ctx.ob(R, b.key, "negative-refcount-is-static", ok, b.loc(), "%s only runs when the refcount is not negative" % op)


# ------------------------------------------------------------------------------------------------
def provider_mapping(ctx, crate, crs):
    R = "provider-mapping"

    def method_body(trait, name):
        for b in crate.bodies:
            if b.coroutine and b.parent and b.parent.endswith("::" + name):
                pb = crate.by_path.get(b.parent)
                if pb is not None and pb.d.get("impl_trait") == trait and "resolvo_cpp::DependencyProvider" in (pb.d.get("impl_self") or ""):
                    return b
        return None
    gc = method_body("resolvo::DependencyProvider", "get_candidates")
    if gc is None:
        ctx.ob(R, "get_candidates", "exists", False, "", "bridge method not found")
    else:
        okn = 0
        for i, j, s in gc.assigns():
            r = s["r"]
            if r["k"] == "agg" and r.get("adt") == "resolvo::Candidates":
                for nm, o in zip(r.get("fields", []), r["ops"]):
                    names = _source_fields(gc, o, crate)
                    want = nm
                    ok = want in names and not (({"favored", "locked", "candidates", "excluded", "hint_dependencies_available"} - {want}) & names)
                    okn += 1
                    ctx.ob(R, "<&DependencyProvider as DependencyProvider>::get_candidates", "field:%s<-%s" % (nm, want), ok,
                           "%s:%s" % (gc.file, s["line"]), "resolvo::Candidates.%s is built from the C struct's fields %s" % (nm, sorted(names)))
        ctx.floor(R, "mapped Candidates fields", okn, 5)
        _unmodified_fields(ctx, R, gc, "resolvo::Candidates", "<&DependencyProvider as DependencyProvider>::get_candidates")
    gd = method_body("resolvo::DependencyProvider", "get_dependencies")
    if gd is not None:
        okn = 0
        for i, j, s in gd.assigns():
            r = s["r"]
            if r["k"] == "agg" and r.get("adt") == "resolvo::KnownDependencies":
                for nm, o in zip(r.get("fields", []), r["ops"]):
                    names = _source_fields(gd, o, crate)
                    okn += 1
                    ctx.ob(R, "<&DependencyProvider as DependencyProvider>::get_dependencies", "field:%s" % nm,
                           nm in names and not (({"requirements", "constrains"} - {nm}) & names), "%s:%s" % (gd.file, s["line"]),
                           "KnownDependencies.%s comes from %s" % (nm, sorted(names)))
        ctx.floor(R, "mapped Dependencies fields", okn, 2)
        _unmodified_fields(ctx, R, gd, "resolvo::KnownDependencies", "<&DependencyProvider as DependencyProvider>::get_dependencies")
    fc = method_body("resolvo::DependencyProvider", "filter_candidates")
    if fc is not None:
        for i, t in fc.calls():
            if t.get("f") is None and "fo" in t and len(t["args"]) == 5:
                a3 = fc.origin(t["args"][3])
                a2, _ = q.origin_thru(fc, t["args"][2])
                ok3 = a3["k"] == "arg" and any(isinstance(e, dict) and (e.get("n") == "inverse" or e.get("f") == 3) for e in a3.get("proj", []))
                ok2 = a2["k"] == "arg" and any(isinstance(e, dict) and e.get("f") == 2 for e in a2.get("proj", []))
                ctx.ob(R, "<&DependencyProvider as DependencyProvider>::filter_candidates", "forwards-version-set-and-inverse", ok3 and ok2,
                       where_call(fc, i), "the callback receives the version set and the inverse flag unchanged")
    rs = body_by_key(crate, "resolvo_cpp::resolvo_solve")
    if rs is None:
        ctx.ob(R, "resolvo_cpp::resolvo_solve", "exists", False, "", "not found")
    else:
        for callee, fld in (("requirements", "requirements"), ("constraints", "constraints"), ("soft_requirements", "soft_requirements")):
            cs_ = [(i, t) for i, t in rs.calls() if t.get("f") and t["f"]["name"] == callee and "Problem" in t["f"]["path"]]
            ok = False
            for i, t in cs_:
                names = _source_fields(rs, t["args"][1], crate)
                ok = fld in names and not (({"requirements", "constraints", "soft_requirements"} - {fld}) & names)
            ctx.ob(R, rs.key, "problem.%s" % fld, ok, rs.loc(), "Problem::%s is fed from the C problem's field of the same name" % callee)
            for i, t in cs_:
                aty = (t.get("arg_tys") or ["", ""])[1]
                lvn = {x[5:] for x in q.leaves(rs, t["args"][1]) if x.startswith("call:")}
                reorder = sorted(lvn & {"sort", "sort_by", "sort_by_key", "sort_unstable", "sort_unstable_by_key", "rev", "dedup", "dedup_by_key", "retain",
                                        "skip", "take", "step_by", "filter", "unique", "sorted", "truncate"})
                bad_ty = any(x in aty for x in ("BTreeSet", "HashSet", "BTreeMap", "HashMap", "IndexSet", "BinaryHeap"))
                # ... nor edited in place on its way (`v.sort_unstable(); v.dedup();` through a &mut borrow - area seed C17-20)
                import c16
                reorder = sorted(set(reorder) | {"in-place " + x for x in c16._edits_in_place(rs, q.slice_locals(rs, t["args"][1]))})
                ctx.ob(R, rs.key, "problem.%s:in-caller-order" % fld, not reorder and not bad_ty, where_call(rs, i),
                       "the entries are handed to the solver in the caller's order, none dropped (argument type %s%s)" %
                       (aty[:60], ("; uses " + ", ".join(reorder)) if reorder else ""))
        # returns: true on Ok (result written), false on Err
        cs = q.conds(rs, crs)
        res = {}
        for i, j, s in rs.assigns():
            if s["p"]["l"] == 0 and s["r"]["k"] == "use" and s["r"]["o"].get("k") == "const":
                for c in cs:
                    if c.kind == "discr" and c.adt == "std::result::Result":
                        for v, tg in c.edges.items():
                            if tg is not None and q.edge_dominates(rs, c.bb, tg, i):
                                res.setdefault(v, set()).add(s["r"]["o"].get("v"))
        ctx.ob(R, rs.key, "returns-true-iff-Ok", res.get("Ok") == {True} and res.get("Err") == {False}, rs.loc(), "return constants per arm: %s" % res)
        # the out-parameters are overwritten (`*result = ..`, `*error = ..`), never appended to: a caller may reuse its vector / string
        writes = {3: [], 4: []}
        for i, j, s2 in rs.assigns():
            p_ = s2["p"]
            if p_["l"] in (3, 4) and [e for e in p_.get("p", [])] == ["*"]:
                writes[p_["l"]].append((i, s2))
        okr = bool(writes[4])
        for i, s2 in writes[4]:
            lv = q.leaves(rs, s2["r"]["o"]) if s2["r"]["k"] == "use" else set()
            okr = okr and "call:solve" in lv and "arg:4" not in lv and not any(x.startswith("field:") and "result" in x for x in lv)
        appended = []
        for i, t in rs.calls():
            f = t.get("f")
            if f and t["args"] and f["name"] in ("push", "extend", "extend_from_slice", "append", "insert", "push_str", "push_back"):
                d = rs.origin(t["args"][0])
                if d["k"] == "arg" and d["l"] in (3, 4):
                    appended.append(f["name"])
        ctx.ob(R, rs.key, "result-is-overwritten-with-the-solution", okr and not appended, rs.loc(),
               "*result is assigned a vector built from solve()'s answer alone; nothing is appended to the caller's out-parameters "
               "(appending calls: %s)" % (appended or "none"))
        ctx.ob(R, rs.key, "error-is-overwritten", bool(writes[3]), rs.loc(), "*error is assigned on the error paths")


def _unmodified_fields(ctx, R, b, adt, fn):
    """Values placed into the resolvo struct are the converted C values as they are: the local holding each of them is
    never mutably borrowed (no retain/sort/truncate/push between the conversion and the hand-over)."""
    for i, j, s in b.assigns():
        r = s["r"]
        if r["k"] == "agg" and r.get("adt") == adt:
            for nm, o in zip(r.get("fields", []), r["ops"]):
                d = b.origin(o)
                l = d.get("l")
                if l is None and operand_place(o) is not None:
                    l = operand_place(o)["l"]
                muts = []
                chain = [l]
                # follow plain moves backwards to the local that received the converted value
                cur = operand_place(o)["l"] if operand_place(o) is not None else None
                for _ in range(4):
                    if cur is None:
                        break
                    ds = b.defs_of(cur)
                    if len(ds) == 1 and ds[0][1] != "term" and ds[0][2]["k"] == "use" and operand_place(ds[0][2]["o"]) is not None \
                            and "p" not in operand_place(ds[0][2]["o"]):
                        cur = operand_place(ds[0][2]["o"])["l"]
                        chain.append(cur)
                    else:
                        break
                for ii, jj, ss in b.assigns():
                    rr = ss["r"]
                    if rr["k"] == "ref" and rr["bk"] == "mut" and rr["p"]["l"] in chain and "p" not in rr["p"]:
                        muts.append(ss["line"])
                ctx.ob(R, fn, "field:%s-handed-over-unmodified" % nm, not muts, "%s:%s" % (b.file, s["line"]),
                       "the converted value is not modified before it is given to the solver" if not muts else
                       "the converted value is mutated (line %s) before it is given to the solver: the binding no longer reports what the C++ provider returned" % muts[0])


def _source_fields(b, op, crate, depth=0, seen=None):
    """Names of resolvo_cpp struct fields an operand (transitively) derives from."""
    seen = seen if seen is not None else set()
    names = set()
    p = operand_place(op)
    if p is None or depth > 40:
        return names
    for e in p.get("p", []):
        if isinstance(e, dict) and "n" in e and str(e.get("of", "")).startswith("resolvo_cpp::"):
            names.add(e["n"])
    l = p["l"]
    if l in seen:
        return names
    seen.add(l)
    for bb, idx, r in b.defs_of(l):
        if idx == "term":
            for a in r["args"]:
                names |= _source_fields(b, a, crate, depth + 1, seen)
                ad = b.origin(a)
                if ad["k"] == "rvalue" and ad["r"].get("ak") == "closure":
                    for o in ad["r"]["ops"]:
                        names |= _source_fields(b, o, crate, depth + 1, seen)
        else:
            k = r["k"]
            if k in ("use", "cast"):
                names |= _source_fields(b, r["o"], crate, depth + 1, seen)
            elif k in ("ref", "copyderef", "rawptr", "discr"):
                names |= _source_fields(b, {"k": "copy", "p": r["p"]}, crate, depth + 1, seen)
            elif k == "agg":
                for o in r["ops"]:
                    names |= _source_fields(b, o, crate, depth + 1, seen)
    return names


# ------------------------------------------------------------------------------------------------
# C++ header: the shared-buffer (reference counting / copy-on-write) protocol of resolvo::Vector<T>
def _kids(n):
    return [x for x in n.get("inner", []) if isinstance(x, dict)]


def _strip(n):
    while n.get("kind") in ("ImplicitCastExpr", "ParenExpr", "ExprWithCleanups", "MaterializeTemporaryExpr", "ConstantExpr") and _kids(n):
        n = _kids(n)[0]
    return n


def _member_of_this(n, name):
    """`inner->name` / `this->inner->name` (through `this`) - the member `name` of this vector's own header."""
    n = _strip(n)
    if n.get("kind") not in ("MemberExpr", "CXXDependentScopeMemberExpr") or (n.get("member") or n.get("name")) != name:
        return False
    base = _strip(_kids(n)[0]) if _kids(n) else {}
    return base.get("kind") == "MemberExpr" and base.get("name") == "inner" and any(k.get("kind") == "CXXThisExpr" for k in _kids(base))


def _is_inner_of(n, who):
    """`who.inner` for a parameter / local `who`, or `inner` of this when who is None."""
    n = _strip(n)
    if (n.get("member") or n.get("name")) != "inner":
        return False
    ks = _kids(n)
    if who is None:
        return n.get("kind") == "MemberExpr" and any(k.get("kind") == "CXXThisExpr" for k in ks)
    return bool(ks) and (_strip(ks[0]).get("referencedDecl") or {}).get("name") == who


def _facts_at(fn, pred):
    """Like _facts_at_call, for the first statement satisfying `pred` (a predicate on a sub-tree)."""
    body = [x for x in _kids(fn) if x.get("kind") == "CompoundStmt"]
    if not body:
        return None

    def has(st):
        return bool(cxx.walk(st, pred))

    def walk(stmt, facts):
        k = stmt.get("kind")
        if k == "CompoundStmt":
            cur = list(facts)
            for st in _kids(stmt):
                if has(st):
                    return walk(st, cur)
                if st.get("kind") == "IfStmt":
                    parts = _kids(st)
                    if len(parts) == 2 and _always_exits(parts[1]):
                        _conj(False, parts[0], cur)
            return None
        if k == "IfStmt":
            parts = _kids(stmt)
            if len(parts) >= 2 and has(parts[1]):
                cur = list(facts)
                _conj(True, parts[0], cur)
                return walk(parts[1], cur)
            if len(parts) == 3 and has(parts[2]):
                cur = list(facts)
                _conj(False, parts[0], cur)
                return walk(parts[2], cur)
            return facts if has(parts[0]) else None
        return facts
    return walk(body[0], [])


def _cmp_fact(pol, e, lhs_pred, ops_true, ops_false):
    """fact `lhs <op> literal` with lhs satisfying lhs_pred; returns True if (op, literal) is in ops_true (pol) / ops_false (!pol)."""
    e = _strip(e)
    ks = _kids(e)
    if e.get("kind") != "BinaryOperator" or len(ks) != 2:
        return False
    a, b, op = ks[0], ks[1], e.get("opcode")
    if not lhs_pred(a):
        if lhs_pred(b):
            a, b = b, a
            op = {"<": ">", ">": "<", "<=": ">=", ">=": "<="}.get(op, op)
        else:
            return False
    lit = _strip(b)
    v = lit.get("value") if lit.get("kind") == "IntegerLiteral" else expr_str(b)
    return (op, str(v)) in (ops_true if pol else ops_false)


def _is_refcount_incr(n):
    n = _strip(n)
    if n.get("kind") == "UnaryOperator" and n.get("opcode") == "++" and _kids(n) and _member_of_this(_kids(n)[0], "refcount"):
        return True
    if n.get("kind") == "CompoundAssignOperator" and n.get("opcode") == "+=" and _kids(n) and _member_of_this(_kids(n)[0], "refcount"):
        return True
    if n.get("kind") in ("CallExpr", "CXXMemberCallExpr"):
        for m in cxx.walk(n, lambda y: y.get("kind") in ("MemberExpr", "CXXDependentScopeMemberExpr") and (y.get("member") or y.get("name")) == "fetch_add"):
            if _kids(m) and _member_of_this(_kids(m)[0], "refcount"):
                return True
    return False


def refcount_protocol_cxx(ctx, crate, cx):
    """Memory safety of the copy-on-write vector rests on a small protocol (every clause is a necessary condition: breaking it is a
    double free, a use after free, or a write into a buffer another Vector still reads):
      shares-increment      whoever makes `inner` alias another vector's buffer (copy constructor, copy assignment) increments the count,
                            and only when it is positive (the static empty vector is never counted)
      free-at-zero          drop() frees only on the path where the decrement brought the count to zero, and destroys the elements first
      move-keeps-one-owner  move assignment exchanges the two handles (or clears the source): no buffer ends up with two uncounted owners
      detach                returns early only for a unique buffer that is large enough; otherwise copies elements 0..size into the new
                            buffer (each to its own index, size counted per element) and adopts it
      clear                 edits the buffer in place only when it is the unique owner"""
    R = "alloc-symmetry"
    H = "cpp/include/resolvo_vector.h"
    tmpl = [o for o in cx["ast"]["vector"] if o.get("kind") == "ClassTemplateDecl"]
    rec = [x for x in tmpl[0].get("inner", []) if x.get("kind") == "CXXRecordDecl"][0]
    fns = [m for m in _kids(rec) if m.get("kind") in ("CXXMethodDecl", "CXXConstructorDecl") and [x for x in _kids(m) if x.get("kind") == "CompoundStmt"]]
    # --- shares-increment
    n_share = 0
    for m in fns:
        params = [(p_.get("name"), p_.get("type", {}).get("qualType", "")) for p_ in _kids(m) if p_.get("kind") == "ParmVarDecl"]
        cref = [nm for nm, ty in params if ty.replace(" ", "") in ("constVector<T>&", "constresolvo::Vector<T>&")]
        if not cref:
            continue
        who = cref[0]
        aliases = False
        for ci in cxx.walk(m, lambda y: y.get("kind") == "CXXCtorInitializer" and (y.get("anyInit") or {}).get("name") == "inner"):
            if cxx.walk(ci, lambda y: _is_inner_of(y, who)):
                aliases = True
        for bo in cxx.walk(m, lambda y: y.get("kind") == "BinaryOperator" and y.get("opcode") == "="):
            ks = _kids(bo)
            if len(ks) == 2 and _is_inner_of(ks[0], None) and cxx.walk(ks[1], lambda y: _is_inner_of(y, who)):
                aliases = True
        if not aliases:
            continue
        n_share += 1
        label = ("copy-constructor" if m.get("kind") == "CXXConstructorDecl" else m.get("name"))
        incs = cxx.walk(m, _is_refcount_incr)
        facts = _facts_at(m, _is_refcount_incr) if incs else None
        guarded = facts is not None and any(_means_positive_refcount(pol, e) for pol, e in facts)
        ctx.ob(R, "resolvo::Vector::%s" % label, "sharing-a-buffer-increments-its-count", bool(incs) and guarded, H,
               "after `inner` is taken from `%s.inner` the reference count is incremented, behind `refcount > 0` (increments: %d, facts: %s)"
               % (who, len(incs), ", ".join(("" if pol else "!") + expr_str(e) for pol, e in (facts or []))[:120]))
    ctx.floor(R, "sites that share another vector's buffer", n_share, 2)
    # --- free-at-zero
    for m in fns:
        if m.get("name") != "drop":
            continue
        facts = _facts_at_call(m, "resolvo_vector_free") or []

        def decr(n):
            n = _strip(n)
            if n.get("kind") == "UnaryOperator" and n.get("opcode") == "--" and _kids(n) and _member_of_this(_kids(n)[0], "refcount"):
                return "post" if n.get("isPostfix") else "pre"
            if n.get("kind") in ("CallExpr", "CXXMemberCallExpr") and cxx.walk(n, lambda y: (y.get("member") or y.get("name")) == "fetch_sub"):
                return "post"
            return None
        zero = False
        for pol, e in facts:
            if _cmp_fact(pol, e, lambda a: decr(a) == "pre", {("==", "0"), ("<=", "0"), ("<", "1")}, {("!=", "0"), (">", "0"), (">=", "1")}):
                zero = True
            if _cmp_fact(pol, e, lambda a: decr(a) == "post", {("==", "1"), ("<=", "1"), ("<", "2")}, {("!=", "1"), (">", "1"), (">=", "2")}):
                zero = True
        ctx.ob(R, "resolvo::Vector::drop", "free-only-when-the-count-reaches-zero", zero, H,
               "resolvo_vector_free is reached only where the decrement of refcount produced zero (facts: %s)"
               % ", ".join(("" if pol else "!") + expr_str(e) for pol, e in facts)[:160])
        # destructors run before the memory is released, over [begin, end)
        order_ok = False
        for cs in cxx.walk(m, lambda y: y.get("kind") == "CompoundStmt"):
            sts = _kids(cs)
            d_idx = [k for k, st in enumerate(sts) if cxx.walk(st, lambda y: y.get("kind") == "CXXPseudoDestructorExpr")]
            f_idx = [k for k, st in enumerate(sts) if _contains_call(st, "resolvo_vector_free")]
            # the destructor loop may sit inside an `if constexpr (!trivially_destructible)`; what matters is that it is a loop, in a
            # statement that precedes the one that frees, in the block that frees
            in_loop = any(cxx.walk(sts[k], lambda y: y.get("kind") in ("ForStmt", "WhileStmt", "CXXForRangeStmt") and
                                   cxx.walk(y, lambda z: z.get("kind") == "CXXPseudoDestructorExpr")) or
                          _contains_call(sts[k], "destroy") or _contains_call(sts[k], "destroy_n") for k in d_idx)
            if d_idx and f_idx and max(d_idx) < min(f_idx) and in_loop and not any(k in d_idx for k in f_idx):
                order_ok = True
        ctx.ob(R, "resolvo::Vector::drop", "elements-destroyed-before-the-buffer-is-freed", order_ok, H,
               "the element destructors run in a loop that precedes resolvo_vector_free in the same block")
    # --- no leak: the destructor releases this vector's share, copy assignment releases the old buffer before it takes the new one
    for m in _kids(rec):
        if m.get("kind") == "CXXDestructorDecl" and [x for x in _kids(m) if x.get("kind") == "CompoundStmt"]:
            rel = bool(cxx.walk(m, lambda y: y.get("kind") in ("MemberExpr", "UnresolvedMemberExpr") and (y.get("member") or y.get("name")) == "drop")) or \
                _contains_call(m, "resolvo_vector_free")
            ctx.ob(R, "resolvo::Vector::~Vector", "destructor-releases-its-share", rel, H, "the destructor calls drop()")
    for m in fns:
        sig = m.get("type", {}).get("qualType", "")
        if m.get("name") != "operator=" or "&&" in sig or "const" not in sig:
            continue
        who = [p_.get("name") for p_ in _kids(m) if p_.get("kind") == "ParmVarDecl"][0]
        body = [x for x in _kids(m) if x.get("kind") == "CompoundStmt"][0]
        ok = False
        # in the block that overwrites `inner` (the body, or the branch of a `if (other.inner != inner)` guard) drop() comes first
        for blk in [body] + cxx.walk(body, lambda y: y.get("kind") == "CompoundStmt"):
            sts = _kids(blk)
            take = [k for k, st in enumerate(sts) if st.get("kind") == "BinaryOperator" and st.get("opcode") == "=" and len(_kids(st)) == 2 and
                    _is_inner_of(_kids(st)[0], None)]
            rel = [k for k, st in enumerate(sts) if st.get("kind") not in ("IfStmt", "CompoundStmt") and
                   cxx.walk(st, lambda y: y.get("kind") in ("MemberExpr", "UnresolvedMemberExpr") and (y.get("member") or y.get("name")) == "drop")]
            if take and rel and min(rel) < min(take):
                ok = True
        swaps = bool(cxx.walk(body, lambda y: ((y.get("referencedDecl") or {}).get("name") or y.get("name")) == "swap"))
        ok = ok or swaps
        ctx.ob(R, "resolvo::Vector::operator=", "copy-assignment-releases-the-old-buffer", ok, H,
               "drop() runs before `inner` is overwritten with `%s.inner` (or the copy-and-swap idiom is used)" % who)
    # --- move assignment
    for m in fns:
        sig = m.get("type", {}).get("qualType", "")
        if m.get("name") != "operator=" or "&&" not in sig:
            continue
        who = [p_.get("name") for p_ in _kids(m) if p_.get("kind") == "ParmVarDecl"][0]
        swaps = False
        for c in cxx.walk(m, lambda y: y.get("kind") == "CallExpr"):
            if cxx.walk(c, lambda y: y.get("kind") in ("UnresolvedLookupExpr", "DeclRefExpr") and ((y.get("referencedDecl") or {}).get("name") or y.get("name")) in ("swap", "exchange")):
                if cxx.walk(c, lambda y: _is_inner_of(y, None)) and cxx.walk(c, lambda y: _is_inner_of(y, who)):
                    swaps = True
        takes = resets = False
        for bo in cxx.walk(m, lambda y: y.get("kind") == "BinaryOperator" and y.get("opcode") == "="):
            ks = _kids(bo)
            if len(ks) == 2 and _is_inner_of(ks[0], None) and cxx.walk(ks[1], lambda y: _is_inner_of(y, who)):
                takes = True
            if len(ks) == 2 and _is_inner_of(ks[0], who):
                resets = True
        ctx.ob(R, "resolvo::Vector::operator=", "move-assignment-keeps-one-owner-per-buffer", swaps or (takes and resets), H,
               "move assignment exchanges `inner` with the source (or takes it and re-points the source): swaps=%s takes=%s resets-source=%s" % (swaps, takes, resets))
    # --- detach
    for m in fns:
        if m.get("name") != "detach":
            continue
        body = [x for x in _kids(m) if x.get("kind") == "CompoundStmt"][0]
        param = [p_.get("name") for p_ in _kids(m) if p_.get("kind") == "ParmVarDecl"]
        early = None
        for st in _kids(body):
            if st.get("kind") == "IfStmt" and len(_kids(st)) == 2 and _always_exits(_kids(st)[1]):
                early = st
                break
        ok_early = early is None
        if early is not None:
            fs = []
            _conj(True, _kids(early)[0], fs)
            uniq = any(_cmp_fact(pol, e, lambda a: _member_of_this(a, "refcount"), {("==", "1")}, {("!=", "1")}) for pol, e in fs)

            def is_param(a):
                return (_strip(a).get("referencedDecl") or {}).get("name") in param
            fits = False
            for pol, e in fs:
                e_ = _strip(e)
                ks = _kids(e_)
                if e_.get("kind") == "BinaryOperator" and len(ks) == 2:
                    op = e_.get("opcode")
                    if is_param(ks[0]) and _member_of_this(ks[1], "capacity") and ((pol and op in ("<=", "<")) or (not pol and op in (">", ">="))):
                        fits = True
                    if is_param(ks[1]) and _member_of_this(ks[0], "capacity") and ((pol and op in (">=", ">")) or (not pol and op in ("<", "<="))):
                        fits = True
            ok_early = uniq and fits
        ctx.ob(R, "resolvo::Vector::detach", "keeps-the-buffer-only-if-unique-and-large-enough", ok_early, H,
               "the early return of detach requires refcount == 1 and expected_capacity <= capacity")
        loops = [st for st in _kids(body) if st.get("kind") == "ForStmt"]
        ok_copy = False
        detail = "no copy loop"
        for lp in loops:
            ks = lp.get("inner", [])
            init = ks[0] if ks and isinstance(ks[0], dict) else {}
            cond = next((x for x in ks[1:] if isinstance(x, dict) and x.get("kind") == "BinaryOperator"), None)
            var = next((v.get("name") for v in cxx.walk(init, lambda y: y.get("kind") == "VarDecl")), None)
            starts0 = any(_strip(x).get("value") == "0" for x in cxx.walk(init, lambda y: y.get("kind") == "IntegerLiteral"))
            cond_ok = False
            if cond is not None and len(_kids(cond)) == 2:
                a, b_ = _kids(cond)
                a_var = (_strip(a).get("referencedDecl") or {}).get("name") == var
                bound_is_size = _member_of_this(b_, "size")
                bn = (_strip(b_).get("referencedDecl") or {}).get("name")
                if not bound_is_size and bn:
                    # `const std::size_t old_size = inner->size;` declared before the loop and never assigned again
                    for vd in cxx.walk(body, lambda y: y.get("kind") == "VarDecl" and y.get("name") == bn):
                        if _kids(vd) and _member_of_this(_kids(vd)[-1], "size"):
                            reassigned = cxx.walk(body, lambda y: y.get("kind") in ("BinaryOperator", "CompoundAssignOperator", "UnaryOperator") and
                                                  y.get("opcode") in ("=", "+=", "-=", "++", "--") and _kids(y) and
                                                  (_strip(_kids(y)[0]).get("referencedDecl") or {}).get("name") == bn)
                            bound_is_size = not reassigned
                cond_ok = cond.get("opcode") in ("<", "!=") and a_var and bound_is_size
            news = cxx.walk(lp, lambda y: y.get("kind") == "CXXNewExpr")
            new_ok = False
            for nw in news:
                subs = cxx.walk(nw, lambda y: y.get("kind") == "ArraySubscriptExpr")
                src_i = any((_strip(_kids(sx)[1]).get("referencedDecl") or {}).get("name") == var for sx in subs if len(_kids(sx)) == 2)
                plus = [bo for bo in cxx.walk(nw, lambda y: y.get("kind") == "BinaryOperator" and y.get("opcode") == "+")]
                dst_i = any((_strip(_kids(bo)[1]).get("referencedDecl") or {}).get("name") == var for bo in plus if len(_kids(bo)) == 2)
                new_ok = new_ok or (src_i and dst_i)
            counts = bool(cxx.walk(lp, lambda y: y.get("kind") == "UnaryOperator" and y.get("opcode") == "++" and _kids(y) and
                                   (_strip(_kids(y)[0]).get("member") or _strip(_kids(y)[0]).get("name")) == "size"))
            detail = "var=%s starts-at-0=%s bound-is-size=%s element-i-to-slot-i=%s size-counted=%s" % (var, starts0, cond_ok, new_ok, counts)
            if starts0 and cond_ok and new_ok and counts:
                ok_copy = True
            if not ok_copy and counts:
                # pointer walk: `for (src = cbegin(), end = cend(); src != end; ++src, ++dst) new (dst) T(*src);` with dst starting at the
                # first slot of the new buffer - the same copy, element k to slot k, written with two cursors that advance together
                ref = lambda x: (_strip(x).get("referencedDecl") or {}).get("name")
                vds = {v.get("name"): v for v in cxx.walk(init, lambda y: y.get("kind") == "VarDecl")}

                def init_calls(vd, member):
                    return bool(vd) and bool(cxx.walk(vd, lambda y: y.get("kind") == "MemberExpr" and y.get("name") == member and
                                                      cxx.walk(y, lambda z: z.get("kind") == "CXXThisExpr"))) and \
                        not cxx.walk(vd, lambda y: y.get("kind") in ("BinaryOperator", "UnaryOperator", "ArraySubscriptExpr", "ConditionalOperator"))
                srcs = [n_ for n_, vd in vds.items() if init_calls(vd, "cbegin") or init_calls(vd, "begin")]
                ptr_ok = False
                if cond is not None and len(_kids(cond)) == 2 and srcs and cond.get("opcode") in ("!=", "<"):
                    a, b_ = _kids(cond)
                    src = ref(a)
                    endv = ref(b_)
                    end_ok = (endv in vds and (init_calls(vds[endv], "cend") or init_calls(vds[endv], "end"))) or \
                        (bool(cxx.walk(b_, lambda y: y.get("kind") == "MemberExpr" and y.get("name") in ("cend", "end"))) and
                         not cxx.walk(b_, lambda y: y.get("kind") in ("BinaryOperator", "UnaryOperator")))
                    incs = [ref(_kids(u)[0]) for x in ks[1:] if isinstance(x, dict) and x is not cond
                            for u in cxx.walk(x, lambda y: y.get("kind") == "UnaryOperator" and y.get("opcode") == "++") if _kids(u)
                            if x.get("kind") != "CompoundStmt"]
                    for nw in news:
                        nk = _kids(nw)
                        dst = ref(nk[-1]) if nk else None
                        derefs = [ref(_kids(u)[0]) for u in cxx.walk(nw, lambda y: y.get("kind") == "UnaryOperator" and y.get("opcode") == "*") if _kids(u)]
                        # dst is a local that starts at `<header of the new buffer> + 1` and is written by nothing but the loop's `++dst`
                        dvs = cxx.walk(body, lambda y: y.get("kind") == "VarDecl" and y.get("name") == dst)
                        starts_at_first = bool(dvs) and bool(cxx.walk(dvs[0], lambda y: y.get("kind") == "BinaryOperator" and y.get("opcode") == "+" and
                                                                      len(_kids(y)) == 2 and _strip(_kids(y)[1]).get("value") == "1")) and \
                            not cxx.walk(dvs[0], lambda y: y.get("kind") == "BinaryOperator" and y.get("opcode") in ("-", "*")) and \
                            len(cxx.walk(dvs[0], lambda y: y.get("kind") == "BinaryOperator" and y.get("opcode") == "+")) == 1
                        other_writes = [y for y in cxx.walk(body, lambda y: y.get("kind") in ("BinaryOperator", "CompoundAssignOperator", "UnaryOperator") and
                                                             y.get("opcode") in ("=", "+=", "-=", "++", "--") and _kids(y) and ref(_kids(y)[0]) in (dst, src))]
                        if src in srcs and end_ok and sorted(incs) == sorted([src, dst]) and derefs == [src] and dst and starts_at_first and \
                                len(other_writes) == 2:
                            ptr_ok = True
                    detail += " pointer-walk=%s" % ptr_ok
                if ptr_ok:
                    ok_copy = True
        adopts = False
        for bo in cxx.walk(body, lambda y: y.get("kind") == "BinaryOperator" and y.get("opcode") == "="):
            ks = _kids(bo)
            if len(ks) == 2 and cxx.walk(ks[0], lambda y: y.get("kind") == "CXXThisExpr") and _strip(ks[0]).get("kind") == "UnaryOperator":
                adopts = True
        # `std::swap(inner, new_array.inner)` is the body of the move assignment: this vector takes the new buffer and the local,
        # whose destructor runs at the end of detach, releases the old one
        for c in cxx.walk(body, lambda y: y.get("kind") == "CallExpr"):
            if cxx.walk(c, lambda y: y.get("kind") in ("UnresolvedLookupExpr", "DeclRefExpr") and ((y.get("referencedDecl") or {}).get("name") or y.get("name")) == "swap"):
                args = _kids(c)[1:]
                if len(args) == 2 and any(_is_inner_of(a, None) for a in args) and \
                        any((not _is_inner_of(a, None)) and (a.get("member") or a.get("name")) == "inner" and
                            cxx.walk(a, lambda y: y.get("kind") == "DeclRefExpr" and (y.get("referencedDecl") or {}).get("kind") == "VarDecl") for a in args):
                    adopts = True
        ctx.ob(R, "resolvo::Vector::detach", "copies-every-element-and-adopts-the-copy", ok_copy and adopts, H,
               "elements 0..size are copy-constructed into the same index of the new buffer, its size is counted per element, and "
               "*this takes the new buffer (%s, adopts=%s)" % (detail, adopts))
    # --- whoever destroys elements in place reads the element range before it resets the size (seed C17-28: `size = 0;` followed by a
    #     helper that walks `cbegin()..cend()` destroys nothing and leaks every element)
    for m in fns:
        if not cxx.walk(m, lambda y: y.get("kind") == "CXXPseudoDestructorExpr"):
            continue
        seq = []

        def flat_(n):
            if isinstance(n, dict):
                seq.append(n)
                for x in n.get("inner", []) or []:
                    flat_(x)
        flat_(m)
        wr = [k for k, y in enumerate(seq) if y.get("kind") == "BinaryOperator" and y.get("opcode") == "=" and _kids(y) and
              _member_of_this(_kids(y)[0], "size") and _strip(_kids(y)[1]).get("value") == "0"]
        rd = [k for k, y in enumerate(seq) if y.get("kind") == "MemberExpr" and y.get("name") in ("cend", "end", "size") and
              cxx.walk(y, lambda z: z.get("kind") == "CXXThisExpr")]
        dt = [k for k, y in enumerate(seq) if y.get("kind") == "CXXPseudoDestructorExpr"]
        if wr and dt and min(wr) < max(dt):
            late = [k for k in rd if k > min(wr)]
            ctx.ob(R, "resolvo::Vector::%s" % m.get("name"), "element-range-read-before-size-is-reset", not late, H,
                   "the range of elements to destroy is taken before `size = 0`" if not late else
                   "`size` is set to 0 and the range to destroy is read afterwards: no element is destroyed")
    # --- clear
    for m in fns:
        if m.get("name") != "clear":
            continue

        def size_write(y):
            if y.get("kind") == "BinaryOperator" and y.get("opcode") == "=" and _kids(y) and _member_of_this(_kids(y)[0], "size"):
                return True
            return y.get("kind") == "CXXPseudoDestructorExpr"
        facts = _facts_at(m, size_write)
        uniq = facts is not None and any(_cmp_fact(pol, e, lambda a: _member_of_this(a, "refcount"), {("==", "1")}, {("!=", "1")}) for pol, e in facts)
        ctx.ob(R, "resolvo::Vector::clear", "in-place-edit-only-if-unique", uniq, H,
               "clear() destroys elements / resets size in place only on the path where refcount == 1 (facts: %s)"
               % ", ".join(("" if pol else "!") + expr_str(e) for pol, e in (facts or []))[:120])


def string_lifecycle_cxx(ctx, cx):
    """resolvo::String owns one counted handle created and released by the Rust side: every constructor obtains its handle from
    resolvo_string_from_bytes / resolvo_string_clone (or delegates to a constructor that does), the destructor releases it with
    resolvo_string_drop, an assignment that drops the old handle installs a new one before returning, and move assignment
    exchanges the handles.  A constructor that copies the raw handle, or a missing re-initialisation, is a double free."""
    R = "alloc-symmetry"
    H = "cpp/include/resolvo_string.h"
    recs = []
    for o in cx["ast"].get("string", []):
        recs += cxx.walk(o, lambda n: n.get("kind") == "CXXRecordDecl" and n.get("name") == "String")
    recs = [r_ for r_ in recs if cxx.walk(r_, lambda n: n.get("kind") == "CXXMethodDecl")]
    if not recs:
        ctx.ob(R, "resolvo::String", "record-found", False, H, "String record not in the AST dump")
        return
    rec = recs[0]

    def calls_with_this(m, names):
        for c in cxx.walk(m, lambda y: y.get("kind") == "CallExpr"):
            ks = _kids(c)
            if not ks:
                continue
            nm = [((x.get("referencedDecl") or {}).get("name") or x.get("name")) for x in cxx.walk(ks[0], lambda y: y.get("kind") in ("DeclRefExpr", "UnresolvedLookupExpr"))]
            if any(n_ in names for n_ in nm) and len(ks) > 1 and _strip(ks[1]).get("kind") == "CXXThisExpr":
                return True
        return False
    n_ctor = 0
    for m in _kids(rec):
        if m.get("kind") != "CXXConstructorDecl" or not [x for x in _kids(m) if x.get("kind") == "CompoundStmt"] or m.get("isImplicit"):
            continue
        n_ctor += 1
        delegates = bool(cxx.walk(m, lambda y: y.get("kind") == "CXXCtorInitializer" and y.get("delegatingInit") is not None or
                                  (y.get("kind") == "CXXCtorInitializer" and "anyInit" not in y and "baseInit" not in y)))
        inits = calls_with_this(m, ("resolvo_string_from_bytes", "resolvo_string_clone"))
        raw = bool(cxx.walk(m, lambda y: y.get("kind") == "CXXCtorInitializer" and (y.get("anyInit") or {}).get("name") == "inner"))
        sig = m.get("type", {}).get("qualType", "")
        ctx.ob(R, "resolvo::String::String", "handle-comes-from-the-library:%s" % sig.replace(" ", ""), (inits or delegates) and not (raw and not inits), H,
               "the constructor obtains its handle from resolvo_string_from_bytes / resolvo_string_clone (delegates=%s, raw member init=%s)" % (delegates, raw))
    ctx.floor(R, "String constructors", n_ctor, 4)
    for m in _kids(rec):
        if m.get("kind") == "CXXDestructorDecl" and [x for x in _kids(m) if x.get("kind") == "CompoundStmt"]:
            ctx.ob(R, "resolvo::String::~String", "destructor-releases-the-handle", calls_with_this(m, ("resolvo_string_drop",)), H,
                   "the destructor hands `this` to resolvo_string_drop")
    for m in _kids(rec):
        if m.get("kind") != "CXXMethodDecl" or m.get("name") != "operator=":
            continue
        body = [x for x in _kids(m) if x.get("kind") == "CompoundStmt"]
        if not body:
            continue
        sig = m.get("type", {}).get("qualType", "")
        # the block that directly contains the drop statement (the body itself, or the branch of a self-assignment guard)
        sts, d_idx = _kids(body[0]), []
        for cs_ in cxx.walk(body[0], lambda y: y.get("kind") == "CompoundStmt"):
            ks_ = _kids(cs_)
            di = [k for k, st in enumerate(ks_) if st.get("kind") != "IfStmt" and st.get("kind") != "CompoundStmt" and _contains_call(st, "resolvo_string_drop")]
            if di:
                sts, d_idx = ks_, di
        if d_idx:
            after = sts[d_idx[0] + 1:]
            re_init = any(_contains_call(st, "resolvo_string_clone") or _contains_call(st, "resolvo_string_from_bytes") for st in after[:1])
            ctx.ob(R, "resolvo::String::operator=", "dropped-handle-is-replaced-at-once:%s" % sig.replace(" ", ""), re_init, H,
                   "the statement after resolvo_string_drop(this) installs a new handle (clone / from_bytes)")
        if "&&" in sig:
            who = [p_.get("name") for p_ in _kids(m) if p_.get("kind") == "ParmVarDecl"][0]
            swaps = False
            for c in cxx.walk(m, lambda y: y.get("kind") == "CallExpr"):
                if cxx.walk(c, lambda y: ((y.get("referencedDecl") or {}).get("name") or y.get("name")) in ("swap", "exchange")) and \
                        cxx.walk(c, lambda y: _is_inner_of(y, None)) and cxx.walk(c, lambda y: _is_inner_of(y, who)):
                    swaps = True
            ctx.ob(R, "resolvo::String::operator=", "move-assignment-keeps-one-owner-per-handle", swaps, H,
                   "move assignment exchanges `inner` with the source")


def refcount_protocol_rust(ctx, crate, crs):
    """Rust side of the shared-buffer protocol (same clauses as the C++ header): the buffer is released only by the owner whose
    decrement observed 1, and detach() keeps the current buffer only if it is unique and large enough."""
    R = "alloc-symmetry"
    VEC = "resolvo_cpp::vector::Vector"
    for b in crate.bodies:
        if b.d.get("impl_trait") == "std::ops::Drop" and b.d.get("impl_adt") == VEC:
            frees = [i for i, t in b.calls() if t.get("f") and t["f"]["name"] == "drop_inner"]
            ok = False
            for c in q.conds(b, crs):
                if c.kind == "cmp" and c.op == "Eq":
                    for x, y in ((c.a, c.b), (c.b, c.a)):
                        if y.get("k") == "const" and y.get("v") == 1:
                            d, _ = q.origin_thru(b, x, transparent=set())
                            if d["k"] == "call" and d["t"].get("f") and d["t"]["f"]["name"] == "fetch_sub" and frees and \
                                    all(q.edge_dominates(b, c.bb, c.target(True), i) for i in frees):
                                ok = True
            ctx.ob(R, b.key, "buffer-released-only-by-the-last-owner", ok and bool(frees), b.loc(),
                   "drop_inner is reached only on the edge where fetch_sub returned 1")
    b = body_by_key(crate, VEC + "::detach")
    if b is None:
        ctx.ob(R, VEC + "::detach", "exists", False, "", "Vector::detach not found")
        return
    wc = [i for i, t in b.calls() if t.get("f") and t["f"]["name"] in ("with_capacity", "alloc_with_capacity")]
    rets = [i for i, t in b.terms("return")]
    uniq_edge = fits_edge = None
    for c in q.conds(b, crs):
        if c.kind != "cmp":
            continue
        for x, y, op in ((c.a, c.b, c.op), (c.b, c.a, {"Lt": "Gt", "Gt": "Lt", "Le": "Ge", "Ge": "Le"}.get(c.op, c.op))):
            if y.get("k") == "const" and y.get("v") == 1 and op in ("Ne", "Eq"):
                lv = q.leaves(b, x)
                if any("refcount" in l for l in lv):
                    uniq_edge = (c.bb, c.target(op == "Eq"))
            if op in ("Le", "Lt", "Ge", "Gt"):
                lx, ly = q.leaves(b, x), q.leaves(b, y)
                if "arg:2" in lx and any("capacity" in l for l in ly) and op in ("Le", "Lt"):
                    fits_edge = (c.bb, c.target(True))
                if "arg:2" in ly and any("capacity" in l for l in lx) and op in ("Ge", "Gt"):
                    fits_edge = (c.bb, c.target(True))
    ok = False
    detail = "unique-test=%s fits-test=%s" % (uniq_edge, fits_edge)
    if wc and rets and uniq_edge and fits_edge:
        S = b.succs()
        leave_copy = [(i, y) for i in wc for y in S[i]]
        # a return that does not go through the copy must have passed both edges
        r1 = q.reach_cut(b, leave_copy + [uniq_edge])
        r2 = q.reach_cut(b, leave_copy + [fits_edge])
        ok = not (set(rets) & r1) and not (set(rets) & r2)
    ctx.ob(R, b.key, "keeps-the-buffer-only-if-unique-and-large-enough", ok, b.loc(),
           "every path through detach that does not allocate a new buffer has seen refcount == 1 and new_capacity <= capacity (%s)" % detail)


REFCOUNT_WRITERS = {
    "fetch_add": {"<resolvo_cpp::vector::Vector<T> as std::clone::Clone>::clone"},
    "fetch_sub": {"<resolvo_cpp::vector::Vector<T> as std::ops::Drop>::drop"},
    # a unique owner turns its buffer into an un-counted one (count 0) before it moves the elements out
    "store": {"<resolvo_cpp::vector::Vector<T> as std::iter::IntoIterator>::into_iter",
              "<resolvo_cpp::vector::Vector<T> as std::iter::FromIterator<T>>::from_iter"},
}


def refcount_writers_rust(ctx, crate, crs):
    """Who may change a reference count on the Rust side: Clone increments, Drop decrements, and the two places that take a
    *unique* buffer apart store 0.  A handle that is still alive owns exactly one count, so any other decrement (seed C17-15:
    into_iter giving up its count with fetch_sub while the handle it keeps will be dropped, and decrement, again) releases a
    buffer that C++ still holds."""
    R = "alloc-symmetry"
    n = 0
    for b in crate.bodies:
        for i, t in b.calls():
            f = t.get("f")
            if f is None or "atomic" not in f["path"] or f["name"] in ("load", "new", "fmt", "default", "clone", "from"):
                continue
            if not t["args"]:
                continue
            n += 1
            fn = q.enclosing_fn(crate, b)
            allowed = REFCOUNT_WRITERS.get(f["name"], set())
            ctx.ob(R, fn, "count-changed-only-by-its-owner:%s" % f["name"], fn in allowed, where_call(b, i),
                   "atomic %s on a reference count; allowed in %s" % (f["name"], sorted(a.split(" as ")[-1] for a in allowed) or "no function"))
    ctx.floor(R, "atomic updates of the reference count", n, 3)
    # into_iter: the count is set to 0 only behind `load == 1` and after the handle was forgotten
    for b in crate.bodies:
        if b.d.get("impl_trait") == "std::iter::IntoIterator" and b.d.get("impl_adt") == "resolvo_cpp::vector::Vector" and b.key.endswith("into_iter"):
            stores = [i for i, t in b.calls() if t.get("f") and t["f"]["name"] == "store" and "atomic" in t["f"]["path"]]
            forgets = [i for i, t in b.calls() if t.get("f") and t["f"]["name"] == "forget"]
            ok = False
            for c in q.conds(b, crs):
                if c.kind == "cmp" and c.op == "Eq":
                    for x, y in ((c.a, c.b), (c.b, c.a)):
                        if y.get("k") == "const" and y.get("v") == 1:
                            d, _ = q.origin_thru(b, x, transparent=set())
                            if d["k"] == "call" and d["t"].get("f") and d["t"]["f"]["name"] == "load" and stores and forgets and \
                                    all(q.edge_dominates(b, c.bb, c.target(True), i) for i in stores + forgets):
                                ok = True
            ctx.ob(R, b.key, "unique-buffer-is-uncounted-only-behind-load==1-and-forget", ok, b.loc(),
                   "into_iter stores 0 and forgets the handle only on the edge where the count was read as 1; a shared vector keeps its handle (and its count)")
