"""C07 - when the preferred candidates are mutually compatible, exactly they are selected (necessary structural conditions only).

  sorted-order      the cached candidate order is the provider's sort of the matching list with the favored candidate rotated
                    to the front (C20: sorted-provenance + favored-move)
  order-preserved   the encoder turns each version set's sorted candidates into variables in the same order (map/collect, no
                    re-ordering adaptor), stores them per requirement, and the requirement's version sets are fetched in the
                    requirement's own order (try_join_all over Requirement::version_sets)
  first-candidate   decide() proposes, for each requirement, the first unassigned candidate in that cached order: inside the
                    fold the proposal is set when none exists yet and is kept (not replaced) by later unassigned candidates;
                    version sets are walked in the requirement's order zipped with the cached lists
  union-order       union members are kept in sequences (Pool: SmallVec in listing order; snapshot: Vec) - no hash order

Added after the second and third seeding rounds:
  proposal-carried-across-version-sets   the fold over a later union member starts from the running proposal
  variables-not-edited-after-construction the per-version-set variable lists stored for decide() are never mutably borrowed
  first-then-others                       a union is stored as [first, others...] whether built by fold or by a loop

Added after the fifth seeding round:
  union-order/push-appends-in-order, as-slice-exposes-every-variant  the sequence type unions are stored in (SmallVec) appends at
                    the end across its One -> Two -> Flexible transitions and exposes every element (unions in the tests have two members)
  candidate-lists / core(verdict)  the lists the ranking is applied to are the provider's, and the solver adds no restriction that
                    does not follow from the problem (rules/core.py; seeds C08-13, C08-15)
"""
from common import *
import q, enc, mech, c20
from enc import *


def run(ctx):
    ctx.explanation = (
        "Only necessary structural conditions of C07 are decided: provenance and favored rotation of the cached order (C20's "
        "rules), order preservation from the cache through the encoder into requirement_to_sorted_candidates, first-unassigned "
        "selection inside decide()'s fold (the proposal is created only when there is none and is kept afterwards), version sets "
        "walked in the requirement's order, union members stored in sequences.  That the search then returns exactly the preferred "
        "selection on conflict-free universes is a statement about runs and is NOT decided.")
    ctx.assumptions += ["provider sort_candidates defines the ranking (ground truth)", "zip of Requirement::version_sets with the cached lists is co-ordered (decided by order-preserved)"]
    for cfg in (["cfgA"] if ctx.tier == "quick" else ["cfgA", "cfgC"]):
        tag = "" if cfg == "cfgA" else "@" + cfg
        crate = lib(ctx, cfg)
        crs = crates(ctx, cfg)
        ctx.count("functions_analysed", len(crate.bodies))
        ctx.guard("sorted-order" + tag, c20.sorted_provenance, ctx, crate, crs, tag)
        ctx.guard("order-preserved" + tag, order_preserved, ctx, crate, crs, tag)
        ctx.guard("first-candidate" + tag, first_candidate, ctx, crate, crs, tag)
        ctx.guard("union-order" + tag, union_order, ctx, crate, crs, tag)
        ctx.guard("union-order" + tag, smallvec_order, ctx, crate, crs, tag)
        import core
        ctx.guard("core" + tag, core.soundness, ctx, crate, crs, tag)      # see rules/core.py
        # the candidate lists the clauses are built from are the provider's (filter flag / map agreement, memoised under the right key)
        import mech
        ctx.guard("candidate-lists" + tag, mech.memo_check, ctx, "candidate-lists", crate, crs, tag)
        ctx.guard("candidate-lists" + tag, mech.filter_siblings, ctx, crate, crs, tag, "candidate-lists")


REORDER = {"rev", "sorted", "sorted_by", "sorted_by_key", "sorted_unstable", "sorted_unstable_by", "sorted_unstable_by_key", "sorted_by_cached_key",
           "sort_unstable_by", "sort_unstable_by_key", "kmerge", "merge", "dedup_by", "dedup_by_key", "unique_by", "skip_while", "take_while",
           "sort", "sort_by", "sort_by_key", "sort_unstable", "skip", "take", "step_by",
           "filter", "dedup", "unique", "rev_iter", "reverse", "rotate_left", "rotate_right", "swap", "interleave", "chain"}


def order_preserved(ctx, crate, crs, tag):
    R = "order-preserved" + tag
    b = body_by_key(crate, ENC + "on_requirement_candidates_available")
    if b is None:
        ctx.ob(R, ENC + "on_requirement_candidates_available", "exists", False, "", "consumer not found")
        return
    # version_set_variables = candidates.iter().map(|&c| c.iter().map(intern).collect()).collect()
    ins = q.calls_on_field(b, "elsa::FrozenMap::insert", STATE_ADT, "requirement_to_sorted_candidates")
    ctx.floor(R, "store into requirement_to_sorted_candidates", len(ins), 1)
    for i, t in ins:
        d, ch = q.origin_thru(b, t["args"][2], transparent=set())
        names = _chain_names(b, t["args"][2])
        ok = "collect" in names and "map" in names and not (set(names) & REORDER)
        src = loop_like_source_fields(b, t["args"][2])
        ctx.ob(R, b.key, "variables-in-candidate-order", ok and "candidates" in src, where_call(b, i),
               "the stored variable lists are a map/collect of the task result's candidate lists (adaptors: %s)" % [n for n in names if n not in ("iter", "deref")][:6])
        # ... and nothing edits them between their construction and the store (or afterwards): no `&mut` borrow of the local
        vp = operand_place(t["args"][2])
        holder = vp["l"] if vp is not None else None
        cur = holder
        for _ in range(4):
            ds = b.defs_of(cur) if cur is not None else []
            if len(ds) == 1 and ds[0][1] != "term" and ds[0][2]["k"] == "use" and operand_place(ds[0][2]["o"]) is not None \
                    and "p" not in operand_place(ds[0][2]["o"]):
                cur = operand_place(ds[0][2]["o"])["l"]
            else:
                break
        chain_locals = {holder, cur}
        muts = []
        for bi, bj, bs in b.assigns():
            r = bs["r"]
            if r["k"] == "ref" and r.get("bk") == "mut" and r["p"]["l"] in chain_locals and not [e for e in r["p"].get("p", []) if e == "*"]:
                muts.append(bs.get("line"))
        ctx.ob(R, b.key, "variables-not-edited-after-construction", not muts, where_call(b, i),
               "the per-version-set variable lists are stored exactly as they were built from the cached candidate lists%s" %
               ((" (mutably borrowed at line %s)" % muts) if muts else ""))
        kd = b.origin(t["args"][1])
        ctx.ob(R, b.key, "stored-under-the-requirement", any(isinstance(e, dict) and e.get("n") == "requirement" for e in kd.get("proj", [])),
               where_call(b, i), "the lists are stored under the requirement they belong to")
    # inner closure: candidates.iter().map(intern_solvable).collect()
    okc = False
    for cb in crate.bodies:
        if cb.parent == b.path and cb.kind == "Closure":
            names = [t["f"]["name"] for ii, t in cb.calls() if t.get("f")]
            if "collect" in names and "map" in names and "iter" in names:
                okc = not (set(names) & REORDER)
    ctx.ob(R, b.key, "per-version-set-order-kept", okc, b.loc(), "each version set's candidates are interned in order")
    # queue_requirement: try_join_all over requirement.version_sets(..).map(fetch)
    qr = body_by_key(crate, ENC + "queue_requirement", coroutine=True)
    if qr is None:
        ctx.ob(R, ENC + "queue_requirement", "exists", False, "", "async block not found")
    else:
        tj = qr.calls_to("futures::future::try_join_all")
        ok = False
        for i, t in tj:
            names = _chain_names(qr, t["args"][0])
            ok = "version_sets" in names and "map" in names and not (set(names) & REORDER)
        ctx.ob(R, qr.key, "version-sets-fetched-in-requirement-order", ok, qr.loc(),
               "the candidate lists of a requirement are joined in the order of Requirement::version_sets")
    # the union path of the public cache API concatenates in the same order
    un = body_by_key(crate, CACHE + "get_or_cache_sorted_candidates", coroutine=True)
    if un is not None:
        tj = un.calls_to("futures::future::try_join_all")
        ok = False
        for i, t in tj:
            names = _chain_names(un, t["args"][0])
            ok = "version_sets_in_union" in names and "map" in names and not (set(names) & REORDER)
        ctx.ob(R, un.key, "union-candidates-concatenated-in-union-order", ok, un.loc(), "union candidates are the per-member lists in member order")
    # Requirement::version_sets - the one place every consumer gets a requirement's version sets from - hands out the interner's
    # own sequence (listing order of the union), through order-preserving wrappers only
    vs = body_by_key(crate, "resolvo::requirement::Requirement::version_sets")
    if vs is None:
        ctx.ob(R, "resolvo::requirement::Requirement::version_sets", "exists", False, "", "Requirement::version_sets not found")
    else:
        names = [t["f"]["name"] for i, t in vs.calls() if t.get("f") and not vs.blocks[i].get("cleanup")]
        for cb in crate.bodies:
            if cb.kind == "Closure" and cb.root and strip_generics(cb.root) == vs.key:
                names += [t["f"]["name"] for i, t in cb.calls() if t.get("f")]
        bad = sorted(set(names) & REORDER)
        ctx.ob(R, vs.key, "union-members-in-listing-order", "version_sets_in_union" in names and not bad, vs.loc(),
               "the members of a union are yielded exactly as Interner::version_sets_in_union lists them%s" % ((" (re-ordering / dropping adaptors: %s)" % bad) if bad else ""))


def _chain_names(b, op, depth=0, seen=None):
    """Names of the calls in the arg-0 backward chain of an operand (iterator adaptor chain)."""
    seen = seen if seen is not None else set()
    names = []
    p = operand_place(op)
    while p is not None and depth < 40:
        depth += 1
        l = p["l"]
        if l in seen:
            break
        seen.add(l)
        ds = b.defs_of(l)
        if len(ds) != 1:
            break
        bb, idx, r = ds[0]
        if idx == "term":
            if r.get("f"):
                names.append(r["f"]["name"])
            p = operand_place(r["args"][0]) if r["args"] else None
        elif r["k"] in ("use", "cast"):
            p = operand_place(r["o"])
        elif r["k"] in ("ref", "copyderef"):
            p = r["p"]
        else:
            break
    return names


def loop_like_source_fields(b, op):
    names = set()
    seen = set()

    def walk(o, depth=0):
        p = operand_place(o)
        if p is None or depth > 40:
            return
        for e in p.get("p", []):
            if isinstance(e, dict) and "n" in e:
                names.add(e["n"])
        if p["l"] in seen:
            return
        seen.add(p["l"])
        for bb, idx, r in b.defs_of(p["l"]):
            if idx == "term":
                for a in r["args"][:1]:
                    walk(a, depth + 1)
            elif r["k"] in ("use", "cast"):
                walk(r["o"], depth + 1)
            elif r["k"] in ("ref", "copyderef"):
                walk({"k": "copy", "p": r["p"]}, depth + 1)
    walk(op)
    return names


def proposal_aggs(cb):
    """Aggregates that build a proposal in decide()'s fold closure: the 4-tuple (candidate, version set, count, activity) or a
    struct with the same role (any non-std ADT aggregate with at least three fields)."""
    out = []
    for i, j, s in cb.assigns():
        r = s["r"]
        if r["k"] != "agg":
            continue
        if r.get("ak") == "tuple" and len(r["ops"]) == 4:
            out.append((i, s))
        elif r.get("ak") == "adt" and len(r["ops"]) >= 3 and not str(r.get("adt", "")).startswith(("std::", "core::", "alloc::")):
            out.append((i, s))
    return out


def first_candidate(ctx, crate, crs, tag):
    R = "first-candidate" + tag
    d = body_by_key(crate, SOLVER + "decide")
    if d is None:
        ctx.ob(R, SOLVER + "decide", "exists", False, "", "decide not found")
        return
    # the fold closure: (first_candidate: Option<(cand, vs, count, activity)>, &candidate) -> ControlFlow
    found = False
    for cb in crate.bodies:
        if not (cb.root and strip_generics(cb.root) == SOLVER + "decide") or cb.kind != "Closure":
            continue
        av = [(i, t) for i, t in cb.calls() if t.get("f") and t["f"]["name"] == "assigned_value"]
        tuples = proposal_aggs(cb)
        if not av or len(tuples) < 1:
            continue
        found = True
        ccs = q.conds(cb, crs)
        none_edges = []
        first_none = []
        first_some = []
        for c in ccs:
            if c.kind == "discr" and c.adt == "std::option::Option" and c.src and c.src["k"] == "call" and c.src["t"]["f"]["name"] == "assigned_value":
                none_edges.append((c.bb, c.target("None")))
            if c.kind == "discr" and c.adt == "std::option::Option" and c.src and c.src["k"] == "arg" and c.src["l"] == 2:
                first_none.append((c.bb, c.target("None")))
                first_some.append((c.bb, c.target("Some")))
        kept = created = 0
        ok_all = True
        for i, s in tuples:
            op0, _ = q.origin_thru(cb, s["r"]["ops"][0], transparent=set())
            from_existing = op0["k"] == "arg" and op0["l"] == 2 and any(isinstance(e, dict) and e.get("as") == "Some" for e in op0.get("proj", []))
            from_new = op0["k"] in ("arg", "multi") and not from_existing and (op0.get("l") == 3 or op0["k"] == "multi")
            if from_existing:
                kept += 1
                ok = any(q.edge_dominates(cb, sb, tg, i) for sb, tg in first_some)
                ok_all = ok_all and ok
            elif from_new:
                created += 1
                ok = any(q.edge_dominates(cb, sb, tg, i) for sb, tg in first_none) and any(q.edge_dominates(cb, sb, tg, i) for sb, tg in none_edges)
                ok_all = ok_all and ok
            else:
                ok_all = False
        ctx.ob(R, cb.key, "proposal-created-only-if-none-and-kept-afterwards", ok_all and created >= 1, cb.loc(),
               "a candidate becomes the proposal only when there is none yet and it is unassigned; an existing proposal keeps its "
               "candidate (kept=%d, created=%d)" % (kept, created))
        # an already-true candidate short-circuits the requirement (Break)
        brk = [i for i, j, s in cb.assigns() if s["r"]["k"] == "agg" and s["r"].get("variant") == "Break"]
        ctx.ob(R, cb.key, "true-candidate-satisfies-requirement", bool(brk), cb.loc(), "a candidate that is already true ends the search for this requirement")
    ctx.ob(R, SOLVER + "decide", "fold-closure-found", found, d.loc(), "decide() folds over the cached candidates of each version set")
    # version sets walked in requirement order zipped with the cached per-version-set lists; candidates iterated forwards
    zips = [(i, t) for i, t in d.calls() if t.get("f") and t["f"]["name"] == "zip"]
    okz = False
    for i, t in zips:
        a = _chain_names(d, t["args"][0])
        bnames = _chain_names(d, t["args"][1])
        okz = "version_sets" in a and not (set(a) & REORDER) and not (set(bnames) & REORDER)
    ctx.ob(R, d.key, "version-sets-zipped-in-order", okz, d.loc(), "Requirement::version_sets is zipped with the cached lists without re-ordering")
    tf = [(i, t) for i, t in d.calls() if t.get("f") and t["f"]["name"] == "try_fold"]
    okf = False
    for i, t in tf:
        names = _chain_names(d, t["args"][0])
        okf = "iter" in names and not (set(names) & REORDER)
    ctx.ob(R, d.key, "candidates-folded-forwards", okf, d.loc(), "the candidates of a version set are visited front to back")
    # the proposal found in an earlier version set of the requirement is carried into the later ones: the fold over a later
    # version set starts from the running proposal and its result *is* the running proposal (no re-ranking between members)
    for i, t in tf:
        init = operand_place(t["args"][1])
        carried = None
        if init is not None and "p" not in init:
            for bb, idx, r in d.defs_of(init["l"]):
                if idx != "term" and r["k"] == "use":
                    o, _ = q.origin_thru(d, r["o"], transparent=set())
                    pl = operand_place(r["o"])
                    # walk plain copies back to a `(C as Continue).0` projection
                    cur = pl
                    for _ in range(4):
                        if cur is None:
                            break
                        if any(isinstance(e, dict) and e.get("as") == "Continue" for e in cur.get("p", [])):
                            carried = cur["l"]
                            break
                        ds = d.defs_of(cur["l"])
                        if len(ds) == 1 and ds[0][1] != "term" and ds[0][2]["k"] == "use":
                            cur = operand_place(ds[0][2]["o"])
                        else:
                            break
        loops_in = [l for l in for_loops(d, crs) if i in l[1]]
        inner = min(loops_in, key=lambda l: len(l[1])) if loops_in else None
        ok = carried is not None and inner is not None
        if ok:
            defs_in_loop = [(bb, idx, r) for bb, idx, r in d.defs_of(carried) if bb in inner[1]]
            ok = bool(defs_in_loop)
            for bb, idx, r in defs_in_loop:
                if idx == "term":
                    ok = ok and bb == i
                elif r["k"] == "use":
                    o, _ = q.origin_thru(d, r["o"], transparent=set())
                    ok = ok and o["k"] == "call" and o["bb"] == i
                else:
                    ok = False
        ctx.ob(R, d.key, "proposal-carried-across-version-sets", ok, where_call(d, i),
               "the fold over a later union member starts from the proposal found so far and its result is the running proposal")


def union_order(ctx, crate, crs, tag):
    R = "union-order" + tag
    a = crate.adts.get("resolvo::utils::pool::Pool")
    ty = ""
    if a:
        for f in a["variants"][0]["fields"]:
            if f["name"] == "version_set_unions":
                ty = f["ty"]
    ctx.ob(R, "resolvo::utils::pool::Pool", "unions-are-sequences", "SmallVec<" in ty or "Vec<" in ty, "", "Pool.version_set_unions: %s" % ty[:100])
    b = body_by_key(crate, "resolvo::utils::pool::Pool::intern_version_set_union")
    if b is not None:
        names = [t["f"]["name"] for i, t in b.calls() if t.get("f")]
        for cb in crate.bodies:
            if cb.root and strip_generics(cb.root) == b.key and cb.kind == "Closure":
                names += [t["f"]["name"] for i, t in cb.calls() if t.get("f")]
        allocs = [(i, t) for i, t in b.calls() if t.get("f") and t["f"]["name"] == "alloc"]
        ok = bool(allocs) and not (set(names) & REORDER)
        # a member is appended for every element of `others`, unconditionally (seed C18-14: `if !vec.contains(..)` drops repeats,
        # so resolving the union no longer returns what was interned)
        for cb in crate.bodies:
            if cb.root and strip_generics(cb.root) == b.key and cb.kind == "Closure":
                pushes = [pi for pi, pt in cb.calls() if pt.get("f") and pt["f"]["name"] == "push"]
                if pushes:
                    cdom = cb.dominators()
                    if not all(any(pi in cdom.get(r, set()) for pi in pushes) for r in cb.return_blocks()):
                        ok = False
        if ok:
            i, t = allocs[0]
            lv = q.leaves(b, t["args"][1])
            has_first = "arg:2" in lv
            has_others = "arg:3" in lv
            if not has_others:
                # explicit loop: `for vs in others { vec.push(vs) }` into the vector that is allocated
                vec_locals = q.slice_locals(b, t["args"][1])
                for l in for_loops(b, crs):
                    src = q.leaves(b, b.blocks[l[2]]["term"]["args"][0])
                    if "arg:3" not in src or not visits_all(b, l):
                        continue
                    for pi, pt in b.calls():
                        if pt.get("f") and pt["f"]["name"] == "push" and pi in l[1] and unconditional_in_loop(b, crs, pi)[0] and \
                                elem_of_loop(b, l, pt["args"][1]) and (q.slice_locals(b, pt["args"][0]) & vec_locals):
                            has_others = True
            ok = has_first and has_others
        ctx.ob(R, b.key, "first-then-others", ok, b.loc(),
               "a union is stored as [first, others...] in the order given (no re-ordering call; the stored vector is built from "
               "`first` and from every element of `others`)")
    s = crate.adts.get("resolvo::snapshot::DependencySnapshot")
    if s:
        for f in s["variants"][0]["fields"]:
            if f["name"] == "version_set_unions":
                ctx.ob(R, "resolvo::snapshot::DependencySnapshot", "unions-are-sequences", "Vec<" in f["ty"] and "HashSet" not in f["ty"], "",
                       "snapshot version_set_unions: %s" % f["ty"][:100])


SMALLVEC = "resolvo::internal::small_vec::SmallVec::"


def smallvec_order(ctx, crate, crs, tag, rule="union-order"):
    """The sequence type union members are stored in appends at the end and exposes every element: `push` builds each larger
    variant from the old elements in index order followed by the new one; `as_slice` hands out the whole payload of every
    variant.  (A union with three or more members crosses the Two -> Flexible boundary; the test suite's unions have two.)"""
    R = rule + tag
    b = body_by_key(crate, SMALLVEC + "push")
    if b is None:
        ctx.ob(R, SMALLVEC + "push", "exists", False, "", "SmallVec::push not found")
        return

    def resolve(o, depth=8):
        """('new',) | ('elem', k) | ('payload',) | ('?',)"""
        for _ in range(depth):
            if o.get("k") not in ("copy", "move"):
                return ("?",)
            p = o["p"]
            proj = p.get("p", [])
            if p["l"] == 2 and not proj:
                return ("new",)
            cidx = [e["cidx"] for e in proj if isinstance(e, dict) and "cidx" in e and not e.get("from_end")]
            if cidx:
                return ("elem", cidx[0])
            if any(isinstance(e, dict) and "f" in e for e in proj):
                return ("payload",)
            defs = [s for i, j, s in b.assigns() if s["p"]["l"] == p["l"] and not s["p"].get("p")]
            if len(defs) != 1 or defs[0]["r"]["k"] != "use":
                return ("?",)
            o = defs[0]["r"]["o"]
        return ("?",)

    arrays = [(i, j, s) for i, j, s in b.assigns() if s["r"]["k"] == "agg" and s["r"].get("ak") == "array" and s["r"]["ops"]]
    names = [t["f"]["name"] for i, t in b.calls() if t.get("f")]
    bad_calls = set(names) & {"insert", "swap_remove", "reverse", "rotate_left", "rotate_right", "swap", "sort", "sort_by", "sort_unstable", "dedup", "retain", "truncate"}
    if arrays:
        ok = True
        detail = []
        for i, j, s in arrays:
            got = [resolve(o) for o in s["r"]["ops"]]
            want = [("elem", k) for k in range(len(got) - 1)] + [("new",)]
            detail.append("%s" % (got,))
            if got != want:
                ok = False
        ctx.ob(R, b.key, "push-appends-in-order", ok and not bad_calls, b.loc(),
               "every fixed-size variant built by push lists the old elements in index order followed by the new element (%s)%s"
               % ("; ".join(detail)[:200], "; re-ordering call: %s" % sorted(bad_calls) if bad_calls else ""))
    pushes = [(i, t) for i, t in b.calls() if t.get("f") and t["f"]["name"] == "push" and "Vec" in t["f"].get("path", "")]
    okp = bool(pushes) and all(resolve(t["args"][1]) == ("new",) for i, t in pushes)
    ctx.ob(R, b.key, "push-appends-to-the-vector", okp and not bad_calls, b.loc(),
           "the growable variant receives the new element through Vec::push (append), nothing re-orders it")
    a = body_by_key(crate, SMALLVEC + "as_slice")
    if a is None:
        ctx.ob(R, SMALLVEC + "as_slice", "exists", False, "", "SmallVec::as_slice not found")
        return
    shown = set()
    for i, j, s in a.assigns():
        r = s["r"]
        if r["k"] == "ref":
            for e in r["p"].get("p", []):
                if isinstance(e, dict) and e.get("as"):
                    shown.add(e["as"])
                if isinstance(e, dict) and e.get("v") is not None and e.get("f") == 0:
                    shown.add(str(e["v"]))
    anames = {t["f"]["name"] for i, t in a.calls() if t.get("f")}
    narrowing = anames - {"deref", "as_slice", "as_ref", "borrow", "as_ptr", "len", "from_raw_parts"}
    ctx.ob(R, a.key, "as-slice-exposes-every-variant", {"One", "Two", "Flexible"} <= shown and not narrowing, a.loc(),
           "as_slice borrows the whole payload of One, Two and Flexible (found %s%s)" % (sorted(shown), "; other calls: %s" % sorted(narrowing) if narrowing else ""))
