"""C19 - Mapping behaves as a map from ids to values, including iteration and serde (dimension clause).

T-DIM over every method of Mapping / MappingIter and the serde impls:
  bound-kinds     every comparison that bounds a slot cursor / chunk index compares compatible kinds
                  (slot index vs slot END / LAST, chunk index vs chunk count) - never with the item count
  accessor-kinds  len()/max()/slots()/capacity() return the field / product their name promises
  unchecked-guard every get_unchecked(_mut) inside a *safe* method is dominated by the in-range edge of a
                  well-kinded bound comparison on the same index
  len-bookkeeping insert increments len exactly on the None->Some transition, unset decrements on Some->None,
                  insert keeps max = max(max, id)
  iter-protocol   MappingIter::next derives the id and the slot from the same cursor value, then advances it by one;
                  iter() starts the cursor at 0
  serde-shape     Serialize emits the first max()+1 slots; Deserialize inserts slot i under id i

Added after the second and third seeding rounds:
  grow-to-fit       Mapping::insert grows the chunk table to a length computed from the chunk index being stored
"""
from common import *
import q, dim
from dim import Env, ITEMS, IDX, LAST, END, CHUNKS, CHUNK_IDX, OFF

M = "resolvo::internal::mapping::Mapping"
MI = "resolvo::internal::mapping::MappingIter"
MP = M + "::"


def env():
    return Env(
        fields={(M, "len"): ITEMS, (M, "max"): LAST, (MI, "offset"): IDX},
        calls={MP + "len": ITEMS, MP + "max": LAST, MP + "slots": END, MP + "capacity": END,
               "resolvo::internal::arena::ArenaId::to_usize": IDX, "std::vec::Vec::len": None},
        tuple_calls={MP + "chunk_and_offset": [CHUNK_IDX, OFF]},
    )


def _hook(b, term):
    # Vec::len of Mapping.chunks -> CHUNKS
    f = term.get("f")
    if f and "std::vec::Vec::len" in callee_keys(f) and term["args"]:
        r, _ = q.origin_thru(b, term["args"][0])
        if q.mentions_field(r, M, "chunks"):
            return CHUNKS
    return None


def kind(b, op, e):
    e.hook = _hook
    k = dim.kind_of(b, op, e)
    return dim.TOP if k is None else k


def mapping_bodies(crate):
    out = []
    for b in crate.bodies:
        if b.d.get("impl_adt") in (M, MI) and b.kind == "AssocFn":
            out.append(b)
    return out


def run(ctx):
    ctx.explanation = (
        "Dimension analysis (T-DIM) over the MIR of every Mapping/MappingIter method and both serde impls: integers are "
        "classified as item count, slot index, inclusive last slot, exclusive slot end, chunk count/index by a forward "
        "abstract interpretation from frozen sources (fields len/max/offset, to_usize, chunk_and_offset, chunks.len()); all "
        "bound comparisons, the unchecked accesses they guard, the len/max bookkeeping, the iterator protocol and the serde "
        "slot arithmetic must be well-kinded. This is what makes iteration complete for sparse ids and beyond one chunk - "
        "the case the dense test cannot distinguish. Equivalence with a reference map over all histories is NOT decided.")
    ctx.assumptions += ["Vec / slice / Option::replace / Option::take behave as documented"]
    cfgs = ["cfgA"] if ctx.tier == "quick" else ["cfgA", "cfgB"]
    for cfg in cfgs:
        tag = "" if cfg == "cfgA" else "@" + cfg
        crate = lib(ctx, cfg)
        crs = crates(ctx, cfg)
        e = env()
        bodies = mapping_bodies(crate)
        ctx.count("functions_analysed", len(bodies))
        ctx.floor("bound-kinds" + tag, "Mapping/MappingIter methods with bodies", len(bodies), 14)
        accessors(ctx, crate, e, tag)
        bounds(ctx, crate, crs, bodies, e, tag)
        unchecked(ctx, crate, crs, bodies, e, tag)
        bookkeeping(ctx, crate, crs, e, tag)
        iter_protocol(ctx, crate, crs, e, tag)
        serde_shape(ctx, crate, crs, e, tag)
        chunk_math(ctx, crate, e, tag)
        ctx.guard("grow-to-fit" + tag, grow_to_fit, ctx, crate, crs, e, tag)


def grow_to_fit(ctx, crate, crs, e, tag):
    """Mapping::insert grows the chunk table as a function of the chunk index it is about to store into: the new length's slice
    contains that index (e.g. `chunk + 1`).  A growth policy that looks only at the current length (doubling) falls short for an
    id far beyond the current capacity and the following `chunks[chunk]` panics (sparse / jumping ids)."""
    R = "grow-to-fit" + tag
    b = body_by_key(crate, M + "::insert")
    if b is None:
        ctx.ob(R, M + "::insert", "exists", False, "", "not found")
        return
    n = 0
    for i, t in b.calls():
        f = t.get("f")
        if not f or f["name"] not in ("resize_with", "resize", "extend", "reserve", "resize_default") or len(t["args"]) < 2:
            continue
        lv = q.leaves(b, t["args"][0])
        if not any(x.endswith("chunks") for x in lv if x.split(":", 1)[0] in ("field", "lfield")):
            continue
        if f["name"] == "reserve":
            continue
        n += 1
        locs = q.slice_locals(b, t["args"][1])
        ks = {str(kind(b, {"k": "copy", "p": {"l": l}}, e)) for l in locs}
        ok = CHUNK_IDX in ks or str(CHUNK_IDX) in ks
        ctx.ob(R, b.key, "new-length-covers-the-index", ok, where_call(b, i),
               "the chunk table is grown to a length computed from the chunk index being stored (kinds in the length: %s)" % sorted(ks))
    ctx.floor(R, "growth sites of Mapping.chunks in insert", n, 1)


def ret_kind(b, e):
    ks = set()
    for i, j, s in b.assigns():
        if s["p"]["l"] == 0 and "p" not in s["p"]:
            r = s["r"]
            if r["k"] == "use":
                ks.add(str(kind(b, r["o"], e)))
            elif r["k"] == "bin":
                ks.add(str(dim.combine(r["op"].replace("WithOverflow", ""), kind(b, r["a"], e), kind(b, r["b"], e), e)))
            else:
                ks.add("?")
    for i, t in b.calls():
        if t["dest"]["l"] == 0 and "p" not in t["dest"]:
            ks.add("call:" + t["f"]["name"])
    return ks


def accessors(ctx, crate, e, tag):
    want = {"len": {ITEMS}, "max": {LAST}, "slots": {END}, "capacity": {END}}
    for name, ks in want.items():
        b = body_by_key(crate, MP + name)
        if b is None:
            ctx.ob("accessor-kinds" + tag, MP + name, "exists", False, "", "accessor not found")
            continue
        got = ret_kind(b, e)
        # an accessor that simply delegates to another accessor of the table has that accessor's kind
        for _ in range(3):
            deleg = {x for x in got if str(x).startswith("call:") and str(x)[5:] in want}
            if not deleg:
                break
            got = {x for x in got if x not in deleg}
            for x in deleg:
                got |= {str(k) for k in want[str(x)[5:]]} if body_by_key(crate, MP + str(x)[5:]) is not None else {x}
        got = {str(x) for x in got}
        ks = {str(k) for k in ks}
        ctx.ob("accessor-kinds" + tag, b.key, "returns:%s" % sorted(ks)[0], got == ks, b.loc(),
               "returns %s" % sorted(got))
    b = body_by_key(crate, MP + "is_empty")
    if b is not None:
        ok = False
        for i, j, s in b.assigns():
            r = s["r"]
            if s["p"]["l"] == 0 and r["k"] == "bin" and r["op"] == "Eq":
                a, c = kind(b, r["a"], e), kind(b, r["b"], e)
                ok = (a == ITEMS and c == ("const", 0)) or (c == ITEMS and a == ("const", 0))
        ctx.ob("accessor-kinds" + tag, b.key, "is_empty:len==0", ok, b.loc(), "is_empty tests the item count against 0")


def cmp_sites(b):
    for i, j, s in b.assigns():
        r = s["r"]
        if r["k"] == "bin" and r["op"] in ("Ge", "Gt", "Le", "Lt", "Eq", "Ne"):
            yield i, j, s, r


def bounds(ctx, crate, crs, bodies, e, tag):
    n = 0
    for b in bodies:
        for i, j, s, r in cmp_sites(b):
            if s.get("exp") and any("assert" in x for x in s["exp"]):
                continue
            a, c = kind(b, r["a"], e), kind(b, r["b"], e)
            ok, why = dim.compare_ok(r["op"], a, c)
            if ok is None:
                continue
            n += 1
            ctx.count("bound_comparisons")
            ctx.ob("bound-kinds" + tag, b.key, "cmp:%s" % _cmp_name(a, c), ok, "%s:%s" % (b.file, s["line"]), why)
    ctx.floor("bound-kinds" + tag, "bound comparisons in Mapping", n, 3)


def _cmp_name(a, c):
    return "%s~%s" % (a if isinstance(a, str) else "const", c if isinstance(c, str) else "const")


def guard_edges(b, crs, e):
    """[(switch_bb, in_range_target, index_operand_kind)] for well-kinded bound comparisons."""
    out = []
    for c in q.conds(b, crs):
        if c.kind != "cmp":
            continue
        a, k2 = kind(b, c.a, e), kind(b, c.b, e)
        ok, _ = dim.compare_ok(c.op, a, k2)
        if not ok:
            continue
        # which edge means "in range"?  idx >= end (true) is out of range ; idx < end (true) is in range
        in_range_when_true = c.op in ("Lt", "Le") if a in (IDX, CHUNK_IDX) else c.op in ("Gt", "Ge")
        tgt = c.target(True) if in_range_when_true else c.target(False)
        out.append((c.bb, tgt, a if a in (IDX, CHUNK_IDX) else k2))
    return out


def unchecked(ctx, crate, crs, bodies, e, tag):
    n = 0
    for b in bodies:
        if b.d.get("sig", {}).get("safety") == "Unsafe":
            continue
        sites = [(i, t) for i, t in b.calls() if t.get("f") and t["f"]["name"] in ("get_unchecked", "get_unchecked_mut")]
        if not sites:
            continue
        ges = guard_edges(b, crs, e)
        for i, t in sites:
            ik = kind(b, t["args"][1], e)
            if ik == OFF:
                # offset inside a chunk: always < VALUES_PER_CHUNK by construction (idx % 128); needs the chunk guard
                need = (CHUNK_IDX, IDX)
            elif ik == CHUNK_IDX:
                need = (CHUNK_IDX, IDX)
            else:
                need = ()
            n += 1
            ok = any(q.edge_dominates(b, sb, tgt, i) and gk in need for sb, tgt, gk in ges)
            ctx.ob("unchecked-guard" + tag, b.key, "%s[%s]" % (t["f"]["name"], ik), ok, where_call(b, i),
                   "unchecked access is dominated by an in-range bound test" if ok else
                   "unchecked access with index kind %s is not dominated by a well-kinded bound test" % (ik,))
    ctx.floor("unchecked-guard" + tag, "get_unchecked sites in safe Mapping methods", n, 4)


def bookkeeping(ctx, crate, crs, e, tag):
    for fn, op, pred, src in (("insert", "Add", "is_none", "replace"), ("unset", "Sub", "is_some", "take")):
        b = body_by_key(crate, MP + fn)
        if b is None:
            ctx.ob("len-bookkeeping" + tag, MP + fn, "exists", False, "", "not found")
            continue
        writes = [(i, s) for i, j, s in b.assigns()
                  if [(x.get("of"), x.get("n")) for x in s["p"].get("p", []) if isinstance(x, dict) and "f" in x] == [(M, "len")]]
        ctx.floor("len-bookkeeping" + tag, "write of len in %s" % fn, len(writes), 1)
        cs = q.conds(b, crs)
        for i, s in writes:
            # value = len (op) 1
            d = b.origin(s["r"]["o"]) if s["r"]["k"] == "use" else ({"k": "rvalue", "r": s["r"]} if s["r"]["k"] == "bin" else {"k": "?"})
            okv = False
            if d["k"] == "rvalue" and d["r"]["k"] == "bin" and d["r"]["op"].replace("WithOverflow", "") == op:
                a, c = kind(b, d["r"]["a"], e), kind(b, d["r"]["b"], e)
                okv = a == ITEMS and c == ("const", 1)
            # dominated by the true edge of pred(previous) where previous = Option::<src>(slot)
            okd = False
            for c in cs:
                if c.kind == "bool" and c.src and c.src.get("k") == "call" and c.src["t"]["f"]["name"] == pred:
                    pd, _ = q.origin_thru(b, c.src["t"]["args"][0], transparent=set())
                    if pd["k"] == "call" and pd["t"]["f"]["name"] == src and q.edge_dominates(b, c.bb, c.target(True), i):
                        okd = True
                # the same test written as a `match` on the Option that replace / take returned
                if c.kind == "discr" and c.adt == "std::option::Option" and c.src and c.src.get("k") == "call" and \
                        c.src["t"]["f"]["name"] == src and not c.src.get("proj"):
                    want = "None" if pred == "is_none" else "Some"
                    tgt = c.target(want)
                    if tgt is not None and q.edge_dominates(b, c.bb, tgt, i):
                        okd = True
            ctx.ob("len-bookkeeping" + tag, b.key, "len%s1-on-transition" % ("+" if op == "Add" else "-"), okv and okd,
                   "%s:%s" % (b.file, s["line"]), "len changes by one exactly when Option::%s reported %s" % (src, pred))
    b = body_by_key(crate, MP + "insert")
    if b is not None:
        ws = [(i, s) for i, j, s in b.assigns()
              if [(x.get("of"), x.get("n")) for x in s["p"].get("p", []) if isinstance(x, dict) and "f" in x] == [(M, "max")]]
        ctx.floor("len-bookkeeping" + tag, "write of max in insert", len(ws), 1)
        for i, s in ws:
            k = kind(b, s["r"]["o"], e) if s["r"]["k"] == "use" else dim.TOP
            pd = b.postdominators()
            on_all_paths = i in pd.get(0, set())
            if not (k == LAST and on_all_paths) and k == IDX:
                # `if idx > self.max { self.max = idx }` - the same maximum as a guarded assignment
                for c in q.conds(b, crs):
                    if c.kind != "cmp":
                        continue
                    ka, kb = kind(b, c.a, e), kind(b, c.b, e)
                    gt = (c.op in ("Gt", "Ge") and ka == IDX and kb == LAST) or (c.op in ("Lt", "Le") and ka == LAST and kb == IDX)
                    if gt and q.edge_dominates(b, c.bb, c.target(True), i) and c.bb in pd.get(0, set()):
                        k, on_all_paths = LAST, True
            ctx.ob("len-bookkeeping" + tag, b.key, "max=max(max,id)", k == LAST and on_all_paths, "%s:%s" % (b.file, s["line"]),
                   "max is raised to the inserted id on every path (kind %s)" % (k,))
    # nobody else writes len / max
    for bb in crate.bodies:
        for i, j, s in bb.assigns():
            fs = [(x.get("of"), x.get("n")) for x in s["p"].get("p", []) if isinstance(x, dict) and "f" in x]
            if fs and fs[-1] in ((M, "len"), (M, "max")) and bb.key not in (MP + "insert", MP + "unset"):
                import effects
                if effects._uncalled_inherent(ctx, crate, bb.key, tag):
                    continue        # new API nothing in the workspace calls: not reachable by the operations C19 quantifies over
                ctx.ob("len-bookkeeping" + tag, bb.key, "writes:%s" % fs[-1][1], False, "%s:%s" % (bb.file, s["line"]),
                       "len/max written outside insert/unset")


def iter_protocol(ctx, crate, crs, e, tag):
    # the iteration protocol decided below lives in `next`; every other Iterator method is std's default built on it.  A
    # specialised override (fold / nth / count / last ...) is a second implementation of the protocol that std's adaptors and
    # consumers (`for_each`, `sum`, `skip`) dispatch to instead (seeds C19-9, C19-18)
    for b in crate.bodies:
        tr = str(b.d.get("impl_trait") or "")
        if b.d.get("impl_adt") == MI and tr in ("std::iter::Iterator", "std::iter::DoubleEndedIterator", "std::iter::ExactSizeIterator") \
                and b.kind in ("Fn", "AssocFn"):
            m = b.path.split("::")[-1]
            ctx.ob("iter-protocol" + tag, b.key, "only-next-is-hand-written:%s" % m, m in ("next", "size_hint"), b.loc(),
                   "MappingIter implements `next` (and at most `size_hint`); `%s` is %s" % (m, "that" if m in ("next", "size_hint") else "a second, specialised implementation of the iteration protocol"))
    nb = None
    for b in crate.bodies:
        if b.d.get("impl_adt") == MI and b.d.get("impl_trait") == "std::iter::Iterator" and b.path.endswith("::next"):
            nb = b
    if nb is None:
        ctx.ob("iter-protocol" + tag, MI, "next", False, "", "MappingIter::next not found")
        return
    b = nb
    co = b.calls_to(MP + "chunk_and_offset")
    fu = [(i, t) for i, t in b.calls() if t.get("f") and t["f"]["name"] == "from_usize"]
    ws = [(i, j, s) for i, j, s in b.assigns()
          if [(x.get("of"), x.get("n")) for x in s["p"].get("p", []) if isinstance(x, dict) and "f" in x] == [(MI, "offset")]]
    ctx.floor("iter-protocol" + tag, "cursor advance in next", len(ws), 1)
    ok_src = bool(co) and bool(fu) and all(kind(b, t["args"][0], e) == IDX and _reads_field(b, t["args"][0], MI, "offset")
                                           for i, t in co + fu)
    ctx.ob("iter-protocol" + tag, b.key, "id-and-slot-from-cursor", ok_src, b.loc(),
           "the yielded id and the inspected slot are both computed from the cursor")
    for wi, wj, s in ws:
        d = b.origin(s["r"]["o"]) if s["r"]["k"] == "use" else ({"k": "rvalue", "r": s["r"]} if s["r"]["k"] == "bin" else {"k": "?"})
        inc = d["k"] == "rvalue" and d["r"]["k"] == "bin" and d["r"]["op"].replace("WithOverflow", "") == "Add" and \
            kind(b, d["r"]["a"], e) == IDX and kind(b, d["r"]["b"], e) == ("const", 1)
        ctx.ob("iter-protocol" + tag, b.key, "cursor+=1", inc, "%s:%s" % (b.file, s["line"]), "cursor advances by exactly one slot")
        # reads of the cursor for id / slot happen before the advance on every path
        before = all(b.dominates(i, wi) and i != wi for i, t in co + fu)
        ctx.ob("iter-protocol" + tag, b.key, "read-before-advance", before, "%s:%s" % (b.file, s["line"]),
               "id/slot are taken from the cursor before it is advanced")
    # the value yielded comes from the slot addressed by (chunk, offset) of that cursor, the id from from_usize
    some = [(i, s) for i, j, s in b.assigns() if s["p"]["l"] == 0 and s["r"]["k"] == "agg" and s["r"].get("variant") == "Some"]
    for i, s in some:
        d = b.origin(s["r"]["ops"][0])
        okp = False
        if d["k"] == "rvalue" and d["r"]["k"] == "agg" and d["r"].get("ak") == "tuple":
            idd = b.origin(d["r"]["ops"][0])
            okp = idd["k"] == "call" and idd["t"]["f"]["name"] == "from_usize"
        ctx.ob("iter-protocol" + tag, b.key, "yields-(id,slot-value)", okp, "%s:%s" % (b.file, s["line"]),
               "the pair's id is from_usize(cursor)")
    # the iteration ends only by running out of slots: every `None` result is dominated by the out-of-range edge of the
    # cursor bound test (an empty slot continues with the next slot)
    nones = [(i, s) for i, j, s in b.assigns() if s["p"]["l"] == 0 and s["r"]["k"] == "agg" and s["r"].get("variant") == "None"]
    out_edges = []
    for c in q.conds(b, crs):
        if c.kind == "cmp":
            a, k2 = kind(b, c.a, e), kind(b, c.b, e)
            okc, _ = dim.compare_ok(c.op, a, k2)
            if okc and a == IDX:
                out_edges.append((c.bb, c.target(True) if c.op in ("Ge", "Gt") else c.target(False)))
            elif okc and k2 == IDX:
                out_edges.append((c.bb, c.target(True) if c.op in ("Le", "Lt") else c.target(False)))
    okn = bool(nones) and bool(out_edges) and all(q.only_via_edges(b, out_edges, i) for i, s in nones)
    loops = b.loops()
    ctx.ob("iter-protocol" + tag, b.key, "skips-holes", okn and any(len(body) > 3 for h, body, _ in loops), b.loc(),
           "None is returned only when the cursor is out of range; an empty slot continues the loop" if okn else
           "the iterator can end (return None) although slots remain: ids after a hole are never yielded")
    it = body_by_key(crate, MP + "iter")
    if it is not None:
        ok0 = False
        for i, j, s in it.assigns():
            r = s["r"]
            if r["k"] == "agg" and r.get("adt") == MI:
                names = r.get("fields", [])
                for nme, o in zip(names, r["ops"]):
                    if nme == "offset":
                        ok0 = o.get("k") == "const" and o.get("v") == 0
        ctx.ob("iter-protocol" + tag, it.key, "cursor-starts-at-0", ok0, it.loc(), "iteration starts at slot 0")


def _reads_field(b, op, adt, name):
    d, _ = q.origin_thru(b, op, transparent=set())
    return q.mentions_field(d, adt, name)


def serde_shape(ctx, crate, crs, e, tag):
    ser = de = None
    for b in crate.bodies:
        if b.d.get("impl_adt") == M and b.kind == "AssocFn":
            if b.path.endswith("Serialize>::serialize"):
                ser = b
            if b.path.endswith("::deserialize") and "Deserialize" in b.path:
                de = b
    if ser is None or de is None:
        if "feature=serde" in crate.cfg:
            ctx.ob("serde-shape" + tag, M, "impls", False, "", "serde impls of Mapping not found although the feature is on")
        return
    takes = [(i, t) for i, t in ser.calls() if t.get("f") and t["f"]["name"] == "take"]
    ctx.floor("serde-shape" + tag, "take(..) in Serialize", len(takes), 1)
    for i, t in takes:
        k = kind(ser, t["args"][1], e)
        ctx.ob("serde-shape" + tag, ser.key, "take(END)", k == END, where_call(ser, i),
               "number of serialised slots has kind %s (needs max()+1 = END)" % (k,))
        d, ch = q.origin_thru(ser, t["args"][0], transparent=q.TRANSPARENT | {"std::iter::Iterator::flatten",
                                                                             "bitvec::macros::internal::core::slice::iter"})
        ctx.ob("serde-shape" + tag, ser.key, "slots-in-order", q.mentions_field(d, M, "chunks") and "std::iter::Iterator::flatten" in ch,
               where_call(ser, i), "the slots are the flattened chunks in storage order")
    # whatever shape the loop has: the counter that becomes the id counts the *raw* slots of the sequence, holes included - no
    # adaptor that drops or skips elements may sit between the deserialised Vec and `enumerate` (seed C19-20: `.flatten().enumerate()`)
    for bb_ in [de] + [c for c in crate.bodies if c.kind == "Closure" and c.root and strip_generics(c.root) == de.key]:
        for i, t in bb_.calls():
            if t.get("f") and t["f"]["name"] == "enumerate" and t["args"]:
                lv = q.leaves(bb_, t["args"][0])
                bad = sorted({x[5:] for x in lv if x.startswith("call:")} & {"flatten", "filter", "filter_map", "flat_map", "skip", "skip_while",
                                                                               "step_by", "take_while", "rev", "chain", "dedup", "peekable"})
                ctx.ob("serde-shape" + tag, de.key, "ids-count-raw-slots", not bad, where_call(bb_, i),
                       "enumerate() runs over the deserialised sequence itself" if not bad else
                       "the position that becomes the id is counted after %s: every id behind a hole shifts" % ", ".join(bad))
    ins = de.calls_to(MP + "insert")
    cls_ = [c for c in crate.bodies if c.kind == "Closure" and c.root and strip_generics(c.root) == de.key]
    ins_cl = [(c, i, t) for c in cls_ for i, t in c.calls_to(MP + "insert")]
    ctx.floor("serde-shape" + tag, "insert in Deserialize", len(ins) + len(ins_cl), 1)
    if not ins and ins_cl:
        # adaptor form: `.enumerate().filter_map(|(i, v)| v.map(|v| (K::from_usize(i), v))).for_each(|(id, v)| { mapping.insert(id, v); })`
        # the id is made from element .0 of a closure parameter (the enumerate item), holes are dropped by filter_map / Option::map,
        # and `ids-count-raw-slots` above says what the enumeration counts
        fu = [(c, i, t) for c in cls_ + [de] for i, t in c.calls() if t.get("f") and t["f"]["name"] == "from_usize"]
        okid = False
        for c, i, t in fu:
            d_ = c.origin(t["args"][0])
            if d_.get("k") == "arg" and any(isinstance(x, dict) and x.get("f") == 0 for x in d_.get("proj", [])):
                okid = True
        names_ = {t["f"]["name"] for i, t in de.calls() if t.get("f")}
        ctx.ob("serde-shape" + tag, de.key, "insert(from_usize(i))", okid and "enumerate" in names_, de.loc(),
               "the id of a stored value is made from the position the enumerate item carries")
        ctx.ob("serde-shape" + tag, de.key, "only-Some-slots", "filter_map" in names_ or "flatten" in names_, de.loc(), "holes are not inserted")
    for i, t in ins:
        d, ch = q.origin_thru(de, t["args"][1], transparent=set())
        ok = False
        if d["k"] == "call" and d["t"]["f"]["name"] == "from_usize":
            idd, ch2 = q.origin_thru(de, d["t"]["args"][0], transparent=q.TRANSPARENT | {"std::iter::Iterator::next"})
            # element .0 of the enumerate() item
            ok = any(isinstance(x, dict) and x.get("f") == 0 and x.get("of") == "tuple" for x in idd.get("proj", [])) and \
                idd["k"] == "call" and idd["t"]["f"]["name"] == "enumerate"
            if ok:
                # the enumeration runs over the raw sequence (holes included): enumerate(into_iter(vec)), nothing in between
                src, ch3 = q.origin_thru(de, idd["t"]["args"][0], transparent=set())
                ok = src["k"] == "call" and src["t"]["f"]["name"] == "into_iter" and "Vec" in (src["t"]["f"].get("self_ty") or src["t"]["f"].get("resolved") or "")
        ctx.ob("serde-shape" + tag, de.key, "insert(from_usize(i))", ok, where_call(de, i),
               "slot i of the sequence is stored under id i")
        # only Some slots are inserted
        okc = False
        for c in q.conds(de, crs):
            if c.kind == "discr" and c.adt == "std::option::Option" and c.target("Some") is not None and \
                    q.edge_dominates(de, c.bb, c.target("Some"), i):
                okc = True
        ctx.ob("serde-shape" + tag, de.key, "only-Some-slots", okc, where_call(de, i), "holes are not inserted")


def chunk_math(ctx, crate, e, tag):
    b = body_by_key(crate, MP + "chunk_and_offset")
    if b is None:
        ctx.ob("bound-kinds" + tag, MP + "chunk_and_offset", "exists", False, "", "not found")
        return
    ops = {}
    for i, j, s in b.assigns():
        r = s["r"]
        if r["k"] == "bin" and r["op"] in ("Div", "Rem"):
            c = r["b"]
            ops[r["op"]] = c.get("v")
    ctx.ob("bound-kinds" + tag, b.key, "chunk=id/128,offset=id%128", ops.get("Div") == e.chunk_const and ops.get("Rem") == e.chunk_const,
           b.loc(), "chunk_and_offset divides and reduces by the chunk size (%s)" % ops)
    # the chunk array length in the type equals the same constant
    g = body_by_key(crate, MP + "get")
    tys = [l["ty"] for l in g.locals] if g is not None else []
    arr = [t for t in tys if t.startswith("&[std::option::Option<TValue>;") or t.startswith("&std::vec::Vec<[std::option::Option<TValue>;")]
    ctx.ob("bound-kinds" + tag, M, "chunk-array-size", bool(arr) and all(("; %d]" % e.chunk_const) in t for t in arr), "",
           "chunk arrays: %s" % sorted(set(arr))[:2])
