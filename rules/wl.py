"""Watch-list mechanics (src/solver/watch_map.rs): index / literal agreement rules shared by C01 and C02.

The two-watched-literal scheme keeps, per literal, a singly linked list of the clauses watching it; each clause has two
slots (watch index 0/1) holding the watched literal and the next clause of that literal's list.  A slip between the two
slots, or between the literal whose list is edited and the literal stored in the slot, silently drops clauses from propagation.
"""
from common import *
import q
from enc import for_loops, elem_of_loop

WM = "resolvo::solver::watch_map::WatchMap"
CUR = "resolvo::solver::watch_map::WatchMapCursor"
NODE = "resolvo::solver::watch_map::WatchNode"
WLIT = "resolvo::solver::clause::WatchedLiterals"
MAP = "resolvo::internal::mapping::Mapping::"


def field_path(d):
    return [e.get("n") for e in d.get("proj", []) if isinstance(e, dict) and "f" in e]


def slot_writes(b, field):
    """Assignments to `<x>.{field}[idx]`: returns (bb, stmt, idx_local)."""
    out = []
    for i, j, s in b.assigns():
        pr = s["p"].get("p", [])
        names = [e.get("n") for e in pr if isinstance(e, dict) and "f" in e]
        idxs = [e["idx"] for e in pr if isinstance(e, dict) and "idx" in e]
        if names[-1:] == [field] and idxs:
            out.append((i, s, idxs[-1]))
    return out


def idx_origin(b, local):
    d, _ = q.origin_thru(b, {"k": "copy", "p": {"l": local}}, transparent=set())
    return d


def run(ctx, crate, crs, tag=""):
    R = "watch-list" + tag
    # ---------------- start_watching
    b = body_by_key(crate, WM + "::start_watching")
    if b is None:
        ctx.ob(R, WM + "::start_watching", "exists", False, "", "not found")
    else:
        loops = for_loops(b, crs)
        gets = b.calls_to(MAP + "get")
        ins = b.calls_to(MAP + "insert")
        nw = slot_writes(b, "next_watches")
        ok = bool(loops) and len(gets) == 1 and len(ins) == 1 and len(nw) == 1
        detail = "loop=%d get=%d insert=%d next_watches-writes=%d" % (len(loops), len(gets), len(ins), len(nw))
        names_all = [t["f"]["name"] for i2, t in b.calls() if t.get("f")]
        if not ok and loops and len(gets) == 1 and len(ins) == 1 and not nw and "zip" in names_all and "iter_mut" in names_all:
            # the same pairing written as `watched_literals.into_iter().zip(next_watches.iter_mut())`: slot i and literal i are the
            # i-th elements of two in-order iterations; the slot is written through the zipped reference
            l = loops[0]
            gi, gt = gets[0]
            ii, it = ins[0]
            zips = [(zi, zt) for zi, zt in b.calls() if zt.get("f") and zt["f"]["name"] == "zip"]
            zl = set()
            for zi, zt in zips:
                for a_ in zt["args"]:
                    zl |= q.leaves(b, a_, adt=False)
            both = any("next_watches" in x for x in zl) and any("watched_literals" in x for x in zl)
            reorder = set(names_all) & {"rev", "skip", "step_by", "take", "filter", "chain", "cycle", "sorted", "rotate_left", "rotate_right", "reverse"}
            derefw = []
            for wi_, wj_, ws_ in b.assigns():
                pr = ws_["p"].get("p", [])
                if pr and (pr[0] == "*" or (isinstance(pr[0], dict) and pr[0].get("deref"))) and wi_ in l[1] and \
                        elem_of_loop(b, l, {"k": "copy", "p": {"l": ws_["p"]["l"]}}):
                    derefw.append((wi_, ws_))
            lit_ok = elem_of_loop(b, l, gt["args"][1]) and elem_of_loop(b, l, it["args"][1])
            val_ok = False
            for wi_, ws_ in derefw:
                vd, _ = q.origin_thru(b, ws_["r"]["o"], transparent={"std::option::Option::copied", "std::option::Option::cloned"}) if ws_["r"]["k"] == "use" else ({"k": "?"}, [])
                if vd["k"] == "call" and vd["bb"] == gi:
                    val_ok = True
            cid = b.origin(it["args"][2])
            cid_ok = cid["k"] == "arg" and cid["l"] == 3
            okz = both and not reorder and lit_ok and val_ok and cid_ok and gi in l[1] and ii in l[1]
            ctx.ob(R, b.key, "link-both-watches(slot i <-> literal i)", okz, b.loc(),
                   "for each of the two watches (zipped in order): next_watches[i] = head(literal_i); head(literal_i) = clause  "
                   "(zip-of-both=%s reorder=%s literal=%s old-head-stored=%s clause-id=%s)" % (both, sorted(reorder), lit_ok, val_ok, cid_ok))
            ok = None
        if ok:
            l = loops[0]
            gi, gt = gets[0]
            ii, it = ins[0]
            wi, ws, widx = nw[0]
            # same literal for lookup and insert, taken from the loop element; index from the same element; value = old head
            lit_ok = elem_of_loop(b, l, gt["args"][1]) and elem_of_loop(b, l, it["args"][1]) and \
                q.same_origin(q.origin_thru(b, gt["args"][1], transparent=set())[0], q.origin_thru(b, it["args"][1], transparent=set())[0])
            idx_ok = elem_of_loop(b, l, {"k": "copy", "p": {"l": widx}})
            vd, _ = q.origin_thru(b, ws["r"]["o"], transparent={"std::option::Option::copied", "std::option::Option::cloned"}) if ws["r"]["k"] == "use" else ({"k": "?"}, [])
            val_ok = vd["k"] == "call" and vd["bb"] == gi
            cid = b.origin(it["args"][2])
            cid_ok = cid["k"] == "arg" and cid["l"] == 3
            inloop = all(x in l[1] for x in (gi, ii, wi))
            from_enum = "enumerate" in [t["f"]["name"] for i2, t in b.calls() if t.get("f")]
            ok = lit_ok and idx_ok and val_ok and cid_ok and inloop and from_enum
            detail = "literal=%s index=%s old-head-stored=%s clause-id=%s per-watch-loop=%s" % (lit_ok, idx_ok, val_ok, cid_ok, inloop and from_enum)
        if ok is not None:
            ctx.ob(R, b.key, "link-both-watches(slot i <-> literal i)", ok, b.loc(),
                   "for each of the two watches: next_watches[i] = head(literal_i); head(literal_i) = clause  (%s)" % detail)
    # ---------------- next_node
    b = body_by_key(crate, CUR + "::next_node")
    if b is None:
        ctx.ob(R, CUR + "::next_node", "exists", False, "", "not found")
    else:
        ok = False
        for i, j, s in b.assigns():
            if s["r"]["k"] in ("use",):
                p = operand_place(s["r"]["o"])
                if p and [e.get("n") for e in p.get("p", []) if isinstance(e, dict) and "f" in e][-1:] == ["next_watches"]:
                    idxs = [e["idx"] for e in p.get("p", []) if isinstance(e, dict) and "idx" in e]
                    if idxs:
                        d = idx_origin(b, idxs[-1])
                        ok = field_path(d)[-2:] == ["current", "watch_index"]
        for i, t in b.calls():
            for a in t["args"]:
                p = operand_place(a)
                if p and [e.get("n") for e in p.get("p", []) if isinstance(e, dict) and "f" in e][-1:] == ["next_watches"]:
                    idxs = [e["idx"] for e in p.get("p", []) if isinstance(e, dict) and "idx" in e]
                    if idxs and field_path(idx_origin(b, idxs[-1]))[-2:] == ["current", "watch_index"]:
                        ok = True
        ctx.ob(R, b.key, "follows-next_watches[current.watch_index]", ok, b.loc(), "the list is followed through the slot that watches the cursor's literal")
    # ---------------- update
    b = body_by_key(crate, CUR + "::update")
    if b is None:
        ctx.ob(R, CUR + "::update", "exists", False, "", "not found")
        return
    cs = q.conds(b, crs)
    lw = slot_writes(b, "watched_literals")
    nw = slot_writes(b, "next_watches")
    ins = b.calls_to(MAP + "insert")
    uns = b.calls_to(MAP + "unset")
    nn = b.calls_to(CUR + "::next_node")
    ctx.floor(R, "writes of watched_literals[..] in update", len(lw), 1)
    ctx.floor(R, "writes of next_watches[..] in update", len(nw), 2)
    # relink: watched_literals[current.watch_index] = new_watch ; next_watches[current.watch_index] = map.insert(new_watch, current.clause_id)
    relink_ok = False
    relink_bb = None
    for wi, ws, widx in lw:
        d = idx_origin(b, widx)
        val = b.origin(ws["r"]["o"]) if ws["r"]["k"] == "use" else {"k": "?"}
        if field_path(d)[-2:] == ["current", "watch_index"] and val["k"] == "arg" and val["l"] == 2:
            for ni, ns, nidx in nw:
                nd = idx_origin(b, nidx)
                nv, _ = q.origin_thru(b, ns["r"]["o"], transparent=set()) if ns["r"]["k"] == "use" else ({"k": "?"}, [])
                if field_path(nd)[-2:] == ["current", "watch_index"] and nv["k"] == "call" and any(nv["bb"] == ii for ii, _ in ins):
                    it = [t for ii, t in ins if ii == nv["bb"]][0]
                    k = b.origin(it["args"][1])
                    c = q.origin_thru(b, it["args"][2], transparent=set())[0]
                    if k["k"] == "arg" and k["l"] == 2 and field_path(c)[-2:] == ["current", "clause_id"]:
                        relink_ok = True
                        relink_bb = wi
    ctx.ob(R, b.key, "relink(slot=current.watch_index, literal=new_watch)", relink_ok, b.loc(),
           "the moved watch stores new_watch in the cursor's slot and chains the old head of new_watch's list through the same slot")
    # unlink: previous.next_watches[previous.watch_index] = next | head(self.literal) = next | unset(self.literal)
    prev_write = None
    for ni, ns, nidx in nw:
        nd = idx_origin(b, nidx)
        if any(isinstance(e, dict) and e.get("as") == "Some" for e in nd.get("proj", [])) and field_path(nd)[-1:] == ["watch_index"] and \
                "previous" in field_path(nd):
            vd, ch = q.origin_thru(b, ns["r"]["o"], transparent={"std::option::Option::map", "std::option::Option::as_ref"}) if ns["r"]["k"] == "use" else ({"k": "?"}, [])
            if vd["k"] == "call" and any(vd["bb"] == x for x, _ in nn):
                prev_write = ni
    head_ins = None
    for ii, it in ins:
        k, _ = q.origin_thru(b, it["args"][1], transparent=set())
        if field_path(k)[-1:] == ["literal"]:
            v, ch = q.origin_thru(b, it["args"][2], transparent={"std::option::Option::map", "std::option::Option::as_ref"})
            if v["k"] == "call" and any(v["bb"] == x for x, _ in nn):
                head_ins = ii
    head_unset = None
    for ui, ut in uns:
        k, _ = q.origin_thru(b, ut["args"][1], transparent=set())
        if field_path(k)[-1:] == ["literal"]:
            head_unset = ui
    if prev_write is None:
        # the same through a `match (&self.previous, next_clause_id)`: the operands travel through a tuple, so ask the data slice
        for ni, ns, nidx in nw:
            il = q.leaves(b, {"k": "copy", "p": {"l": nidx}})
            vl = q.leaves(b, ns["r"]["o"]) if ns["r"]["k"] == "use" else set()
            if any("watch_index" in x for x in il) and any("previous" in x for x in il) and not any("current" in x for x in il) \
                    and "call:next_node" in vl:
                prev_write = ni
    if head_ins is None:
        for ii, it in ins:
            kl = q.leaves(b, it["args"][1])
            vl = q.leaves(b, it["args"][2])
            if any(x.endswith("literal") for x in kl) and "call:next_node" in vl and not any("current" in x for x in vl):
                head_ins = ii
    ctx.ob(R, b.key, "unlink:previous.next=next", prev_write is not None, b.loc(), "with a predecessor, its slot is pointed at the successor")
    ctx.ob(R, b.key, "unlink:head=next", head_ins is not None, b.loc(), "without a predecessor the literal's head becomes the successor")
    ctx.ob(R, b.key, "unlink:head-unset-when-empty", head_unset is not None, b.loc(), "without predecessor and successor the literal's head is removed")
    sites = [x for x in (prev_write, head_ins, head_unset) if x is not None]
    if relink_bb is not None and len(sites) == 3:
        exactly_one = relink_bb not in b.reachable(0, avoid=sites)
        ctx.ob(R, b.key, "unlink-before-relink-on-every-path", exactly_one, b.loc(), "every path to the relink first removes the clause from the old literal's list")
        # branch structure: prev_write behind previous==Some, the other two behind previous==None split on next
        okb = False
        for c in cs:
            via_slice = False
            if c.kind == "discr" and c.src_place is not None and (c.adt or "").endswith("option::Option"):
                comp = {"k": "copy", "p": c.src_place}
                # `match (&self.previous, next)`: pick the matched component of the tuple
                pr = c.src_place.get("p", [])
                fidx = next((e.get("f") for e in pr if isinstance(e, dict) and "f" in e), None)
                ds = b.defs_of(c.src_place["l"])
                if fidx is not None and len(ds) == 1 and ds[0][1] != "term" and ds[0][2]["k"] == "agg" and ds[0][2].get("ak") == "tuple" \
                        and fidx < len(ds[0][2]["ops"]):
                    comp = ds[0][2]["ops"][fidx]
                lv = q.leaves(b, comp)
                via_slice = any("previous" in x for x in lv) and "call:next_node" not in lv
            if c.kind == "discr" and c.src_place is not None and "previous" in [e.get("n") for e in c.src_place.get("p", []) if isinstance(e, dict)] or \
                    (c.kind == "discr" and c.src and "previous" in field_path(c.src)) or via_slice:
                st, nt = c.target("Some"), c.target("None")
                if st is not None and nt is not None and q.edge_dominates(b, c.bb, st, prev_write) and \
                        q.edge_dominates(b, c.bb, nt, head_ins) and q.edge_dominates(b, c.bb, nt, head_unset):
                    okb = True
        ctx.ob(R, b.key, "unlink-case-split-on-previous", okb, b.loc(), "the three unlink cases are selected by `previous` and by the successor")
    # the cursor continues with the successor computed before the edit
    ok_next = False
    for i, j, s in b.assigns():
        names = [e.get("n") for e in s["p"].get("p", []) if isinstance(e, dict) and "f" in e]
        if names == ["current"] and s["r"]["k"] == "use":
            d, ch = q.origin_thru(b, s["r"]["o"], transparent={"std::ops::Try::branch"})
            ok_next = d["k"] == "call" and any(d["bb"] == x for x, _ in nn)
    ctx.ob(R, b.key, "continues-with-precomputed-successor", ok_next and bool(nn) and (relink_bb is None or all(b.dominates(x, relink_bb) for x, _ in nn)), b.loc(),
           "the successor is read before the slot is overwritten and becomes the cursor's current node")
    # ---------------- cursor(): head of the literal's list
    b = body_by_key(crate, WM + "::cursor")
    if b is not None:
        gets = b.calls_to(MAP + "get")
        ok = False
        for i, t in gets:
            k = b.origin(t["args"][1])
            ok = k["k"] == "arg" and k["l"] == 3
        ctx.ob(R, b.key, "starts-at-head(literal)", ok, b.loc(), "propagation starts at the head of the list of the literal that became false")
    # ---------------- slot selection: the slot index is the one whose watched literal equals the list's literal
    for key, litsrc in ((WM + "::cursor", "arg"), (CUR + "::next_node", "field")):
        b = body_by_key(crate, key)
        if b is None:
            continue
        ctx.ob(R, b.key, "slot-selected-by-literal-comparison", slot_selection(b, crs), b.loc(),
               "watch_index = 0 iff watched_literals[0] is the literal of the list, else 1")
    # ---------------- next(): previous <- current, current <- successor
    b = body_by_key(crate, CUR + "::next")
    if b is not None:
        nn = b.calls_to(CUR + "::next_node")
        okp = okc = False
        for i, j, s in b.assigns():
            names = [e.get("n") for e in s["p"].get("p", []) if isinstance(e, dict) and "f" in e]
            if names == ["previous"]:
                d, _ = q.origin_thru(b, {"k": "copy", "p": s["p"]}, transparent=set()) if False else (None, None)
                r = s["r"]
                src = None
                if r["k"] == "use":
                    d = b.origin(r["o"])
                    if d["k"] == "rvalue" and d["r"]["k"] == "agg" and d["r"].get("variant") == "Some":
                        src = q.origin_thru(b, d["r"]["ops"][0], transparent=set())[0]
                elif r["k"] == "agg" and r.get("variant") == "Some":
                    src = q.origin_thru(b, r["ops"][0], transparent=set())[0]
                okp = src is not None and field_path(src)[-1:] == ["current"]
            if names == ["current"] and s["r"]["k"] == "use":
                d, _ = q.origin_thru(b, s["r"]["o"], transparent={"std::ops::Try::branch"})
                okc = d["k"] == "call" and any(d["bb"] == x for x, _ in nn)
        if not (okp and okc):
            # `let left = mem::replace(&mut self.current, next); self.previous = Some(left);`
            for i, t in b.calls():
                f = t.get("f")
                if f and f["name"] == "replace" and "mem" in f["path"] and len(t["args"]) == 2:
                    dst = q.origin_thru(b, t["args"][0], transparent=set())[0]
                    val = q.leaves(b, t["args"][1])
                    if field_path(dst)[-1:] == ["current"] and "call:next_node" in val:
                        okc = True
                        # the replaced value is what goes into `previous`
                        for i2, j2, s2 in b.assigns():
                            names2 = [e.get("n") for e in s2["p"].get("p", []) if isinstance(e, dict) and "f" in e]
                            if names2 == ["previous"]:
                                lv = q.leaves(b, s2["r"]["o"]) if s2["r"]["k"] == "use" else set()
                                if s2["r"]["k"] == "agg":
                                    for o in s2["r"]["ops"]:
                                        lv |= q.leaves(b, o)
                                if "call:replace" in lv:
                                    okp = True
        ctx.ob(R, b.key, "advance(previous=current,current=successor)", okp and okc, b.loc(),
               "stepping remembers the node just left as predecessor (needed to unlink the next node)")


def slot_selection(b, crs):
    cs = q.conds(b, crs)
    for i, t in b.calls():
        f = t.get("f")
        if not f or f["name"] != "eq" or len(t["args"]) != 2 or t.get("exp"):
            continue
        ks = []
        for a in t["args"]:
            d, _ = q.origin_thru(b, a, transparent=set())
            pr = d.get("proj", [])
            names = [e.get("n") for e in pr if isinstance(e, dict) and "f" in e]
            idxs = [e["idx"] for e in pr if isinstance(e, dict) and "idx" in e]
            if names[-1:] == ["watched_literals"] and idxs:
                o = b.origin({"k": "copy", "p": {"l": idxs[-1]}})
                if o["k"] == "const":
                    ks.append(o.get("v", (o.get("c") or {}).get("v")))
                elif o["k"] == "rvalue" and o["r"]["k"] == "use" and o["r"]["o"].get("k") == "const":
                    ks.append(o["r"]["o"].get("v"))
        if len(ks) != 1 or ks[0] not in (0, 1):
            continue
        K = ks[0]
        dl = t["dest"]["l"]
        for c in cs:
            if c.kind != "bool" or c.bb not in b.reachable([i]):
                continue
            p = operand_place(b.blocks[c.bb]["term"]["d"])
            if not p or p["l"] != dl:
                continue
            tt, ft = c.target(True), c.target(False)
            hit = {}
            for bb, j, s in b.assigns():
                if "p" in s["p"] or s["r"]["k"] != "use" or s["r"]["o"].get("k") != "const":
                    continue
                v = s["r"]["o"].get("v")
                if v == K and q.edge_dominates(b, c.bb, tt, bb):
                    hit.setdefault(s["p"]["l"], set()).add("T")
                if v == 1 - K and q.edge_dominates(b, c.bb, ft, bb):
                    hit.setdefault(s["p"]["l"], set()).add("F")
            for l, hs in hit.items():
                if hs == {"T", "F"}:
                    # the selected index is what the node records
                    for bb, j, s in b.assigns():
                        r = s["r"]
                        if r["k"] == "agg" and str(r.get("adt", "")).endswith("WatchNode"):
                            for nm, o in zip(r.get("fields", []), r["ops"]):
                                if nm == "watch_index":
                                    p2 = operand_place(o)
                                    cur = p2["l"] if p2 else None
                                    for _ in range(4):
                                        if cur == l:
                                            return True
                                        ds = b.defs_of(cur) if cur is not None else []
                                        if len(ds) == 1 and ds[0][1] != "term" and ds[0][2]["k"] == "use" and operand_place(ds[0][2]["o"]):
                                            cur = operand_place(ds[0][2]["o"])["l"]
                                        else:
                                            break
    return False
