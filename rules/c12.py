"""C12 - cancellation is honoured promptly and faithfully (structural clause).

Rules (DESIGN.md section 4, C12):
  poll-before-call   every solver-side call of D::get_candidates / D::get_dependencies is dominated by
                     the None edge of a should_cancel_with_value poll, no suspension point in between,
                     and the Some edge returns Err(<the polled value>) without reaching the provider call
  poll-per-round     Solver::propagate polls first; the Some edge yields PropagationError::Cancelled(value)
  payload-provenance every construction of a Cancelled(..) carries a value that originates from a poll,
                     from a matched Cancelled payload, or from the function argument (From impl)
  result-must-use    no Result carrying a cancellation channel is dropped or neutralised
  short-circuit      in Encoder::encode the `?` on a task result dominates on_task_result

Added after the second and third seeding rounds:
  poll-value-propagated  every should_cancel_with_value call in the solver is matched and its Some payload reaches Err / Cancelled

Added after the fifth seeding round:
  poll-per-round/calls:next_unpropagated|cursor  a propagation round (walk over the unpropagated trail) exists only inside
                     propagate, behind the poll (seed C12-14: the learn loop re-propagating through a poll-less helper)
  payload-provenance/Cancelled-carries-the-polled-value  a Cancelled variant without payload loses the provider's value (C12-15)
  result-must-use    a hand-written match with an arm of its own for Err(Cancelled(..)) must take the payload out in that arm,
                     whatever the other arms do (seed C15-12: `Err(Cancelled(_)) => break` returns the interrupted state as a solution)
"""
from common import *
import q

CANCEL_ERR_TYPES = ("std::boxed::Box<dyn std::any::Any>", "resolvo::solver::PropagationError",
                    "resolvo::UnsolvableOrCancelled", "resolvo::solver::UnsolvableOrCancelled")

# callees that legitimately consume a cancellation-carrying Result (frozen after reading every site)
RESULT_CONSUMERS = {
    "std::ops::Try::branch",                # the `?` operator
    "std::result::Result::map_err",         # conversion, result then goes through `?`
    "std::ops::FromResidual::from_residual",
    "std::future::IntoFuture::into_future",  # a future whose output is the Result: awaited
}


def poll_sites(body, crs):
    """[(call_bb, Cond)] for polls of should_cancel_with_value whose result is switched on."""
    out = []
    cs = q.conds(body, crs)
    for i, t in body.calls():
        f = t.get("f")
        if f is None or not provider_call(f, "should_cancel_with_value"):
            continue
        for c in cs:
            if c.kind == "discr" and c.src and c.src["k"] == "call" and c.src["bb"] == i and not c.src["proj"]:
                out.append((i, t, c))
    return out


def run(ctx):
    ctx.explanation = (
        "Static clause of C12: (1) each solver-side provider fetch (get_candidates/get_dependencies) is "
        "dominated by the None edge of a should_cancel_with_value poll with no Yield in between and the Some "
        "edge returns Err(polled value); (2) propagate polls before touching state; (3) every Cancelled(..) "
        "payload is def-use connected to a poll / matched payload / From argument; (4) no cancellation-carrying "
        "Result is discarded; (5) encode's `?` dominates on_task_result. Decides these mechanisms on every path of "
        "the type-checked MIR; does NOT decide wall-clock promptness or the behaviour of the search.")
    ctx.assumptions += ["futures/event-listener/elsa behave as documented",
                        "MIR facts come from rustc nightly mir_promoted (before the coroutine transform)"]
    for cfg in (["cfgA"] if ctx.tier == "quick" else ["cfgA", "cfgB", "cfgC"]):
        run_cfg(ctx, cfg)
        # a conflict reported by the encoder in a later round sends run_sat round its loop again (restart), i.e. through the
        # poll at the head of propagate - only the first round of a run may declare it unsolvable directly (rule of C02)
        import c02
        tag = "" if cfg == "cfgA" else "@" + cfg
        ctx.guard("conflict-signal" + tag, c02.conflict_signal, ctx, lib(ctx, cfg), crates(ctx, cfg), tag)


def run_cfg(ctx, cfg):
    crate = lib(ctx, cfg)
    crs = crates(ctx, cfg)
    tag = "" if cfg == "cfgA" else "@" + cfg
    ctx.count("functions_analysed", len(crate.bodies))

    # ---- rule 1: poll-before-call -------------------------------------------------
    n_fetch = 0
    for b in crate.bodies:
        if not b.key.startswith("resolvo::solver::"):
            continue
        polls = None
        for i, t in b.calls():
            f = t.get("f")
            if f is None:
                continue
            m = None
            for meth in ("get_candidates", "get_dependencies"):
                if provider_call(f, meth):
                    m = meth
            if m is None:
                continue
            n_fetch += 1
            ctx.count("call_sites")
            if polls is None:
                polls = poll_sites(b, crs)
            ok = False
            why = "no should_cancel_with_value poll whose None edge dominates the call"
            for pb, pt, c in polls:
                none_t = c.target("None")
                some_t = c.target("Some")
                if none_t is None or some_t is None:
                    continue
                if not q.edge_dominates(b, c.bb, none_t, i):
                    continue
                mid = q.between(b, [none_t], i)
                ys = [y for y in mid if b.blocks[y]["term"]["k"] == "yield"]
                if ys:
                    why = "suspension point (Yield at %s) between the poll and the provider call" % b.loc(ys[0])
                    continue
                # Some edge must not reach the provider call and must build Err(value)
                some_reach = b.reachable([some_t])
                if i in some_reach:
                    why = "the Some (cancel) branch can still reach the provider call"
                    continue
                if not err_of_poll_value(b, some_reach, pb):
                    why = "the Some branch does not return Err(<polled value>)"
                    continue
                ok = True
                break
            ctx.ob("poll-before-call" + tag, b.key, "D::%s" % m, ok, where_call(b, i),
                   "provider call must be guarded by a cancellation poll" if ok else why)
    ctx.floor("poll-before-call" + tag, "solver-side provider fetch sites", n_fetch, 2)

    # ---- rule 1b: a polled value is never thrown away ------------------------------------
    # every poll anywhere in the solver is switched on and its Some payload ends up in an Err(..) / Cancelled(..): a poll whose
    # result is only tested (`is_none()`) consumes a one-shot signal and lets the solve continue as if nothing had happened
    n_polls = 0
    for b in crate.bodies:
        if not b.key.startswith("resolvo::solver::") or b.crate.is_test:
            continue
        ps = None
        for i, t in b.calls():
            f = t.get("f")
            if f is None or not provider_call(f, "should_cancel_with_value"):
                continue
            n_polls += 1
            if ps is None:
                ps = poll_sites(b, crs)
            ok = False
            for pb, pt, c in ps:
                if pb != i:
                    continue
                some_t = c.target("Some")
                if some_t is None:
                    continue
                reach = b.reachable([some_t])
                if agg_with_poll_value(b, reach, pb, "Err") or agg_with_poll_value(b, reach, pb, "Cancelled"):
                    ok = True
            ctx.ob("poll-value-propagated" + tag, b.key, "poll#%s" % (q.enclosing_fn(crate, b).split("::")[-1]), ok, where_call(b, i),
                   "the value returned by should_cancel_with_value is matched and carried into Err / Cancelled")
    ctx.floor("poll-value-propagated" + tag, "cancellation polls in the solver", n_polls, 3)

    # ---- rule 1c: fan-outs short-circuit on the first error ----------------------------------
    # union members are fetched with try_join_all, which stops polling the remaining members as soon as one of them reports
    # the cancellation; join_all (+ collect into a Result) keeps driving the siblings, which start further provider calls
    fan_outs(ctx, crate, tag)

    # ---- rule 2: poll per propagation round -------------------------------------------
    prop = body_by_key(crate, SOLVER + "propagate")
    if prop is None:
        ctx.ob("poll-per-round" + tag, SOLVER + "propagate", "anchor", False, "", "Solver::propagate not found")
    else:
        polls = poll_sites(prop, crs)
        ok = False
        why = "propagate does not poll should_cancel_with_value"
        for pb, pt, c in polls:
            none_t, some_t = c.target("None"), c.target("Some")
            bad = []
            for i, t in prop.calls():
                f = t.get("f")
                if f is None or t.get("exp"):
                    continue
                if i == pb or not local_resolvo_call(f):
                    continue
                if f["name"] in ("provider",):
                    continue
                if i in prop.reachable([some_t]) and i not in prop.reachable([none_t]):
                    continue
                if not q.edge_dominates(prop, c.bb, none_t, i):
                    bad.append((i, f["path"]))
            if bad:
                why = "call %s at %s is not dominated by the poll's None edge" % (bad[0][1], prop.loc(bad[0][0]))
                continue
            if not agg_with_poll_value(prop, prop.reachable([some_t]), pb, "Cancelled"):
                why = "Some branch does not build PropagationError::Cancelled(<polled value>)"
                continue
            ok = True
        ctx.ob("poll-per-round" + tag, prop.key, "first-action-is-poll", ok, prop.loc(), why if not ok else
               "every state-touching call of propagate is dominated by the None edge of the poll")
        # callers: every decision loop goes through propagate
        callers = {q.enclosing_fn(crate, b) for b, i, t in q.callers_of(crate, SOLVER + "propagate")}
        ctx.ob("poll-per-round" + tag, SOLVER + "propagate", "callers", callers >= {SOLVER + "run_sat", SOLVER + "propagate_and_learn"},
               prop.loc(), "callers found: %s" % sorted(callers))

        # a propagation round is a walk over the unpropagated trail; it only exists inside propagate, behind the poll - a second
        # routine that walks the trail (seed C12-14: the learn loop re-propagates without polling) is a round without a poll
        import mech as _m
        DTK = "resolvo::solver::decision_tracker::DecisionTracker::"
        _m.callers_exact(ctx, "poll-per-round", crate, DTK + "next_unpropagated", {SOLVER + "propagate"}, tag, 1)
        _m.callers_exact(ctx, "poll-per-round", crate, "resolvo::solver::watch_map::WatchMap::cursor", {SOLVER + "propagate"}, tag, 1)

    # requests only run inside encode's drain loop, where the `?` on a result stops everything: a queue function that polls the
    # future it creates (now_or_never fast path) starts the rest of its batch after one of them already returned the cancellation
    # (seed C12-18)
    import c11
    ctx.guard("short-circuit" + tag, c11.queue_before_suspend, ctx, crate, tag)

    # ---- rule 3: payload provenance ----------------------------------------------------
    n_payload = 0
    for b in crate.bodies:
        for i, j, s in b.assigns():
            r = s["r"]
            if r["k"] != "agg" or r.get("variant") != "Cancelled":
                continue
            if r.get("adt") not in ("resolvo::solver::PropagationError", "resolvo::solver::UnsolvableOrCancelled",
                                    "resolvo::UnsolvableOrCancelled"):
                continue
            if is_macro(s, "derive") or any(str(e).startswith("macro:Debug") for e in s.get("exp", [])):
                continue
            n_payload += 1
            if not r["ops"]:
                ctx.ob("payload-provenance" + tag, b.key, "Cancelled-carries-the-polled-value", False, loc(b, i),
                       "the Cancelled variant has no payload: the value the provider returned from should_cancel_with_value is lost")
                continue
            d, chain = q.origin_thru(b, r["ops"][0])
            ok = False
            if d["k"] == "arg":
                ok = True            # From<Box<dyn Any>>::from(value)
            elif d["k"] == "call" and d["t"].get("f") and provider_call(d["t"]["f"], "should_cancel_with_value"):
                ok = True
            elif any(isinstance(e, dict) and e.get("as") == "Cancelled" for e in d.get("proj", [])):
                ok = True            # re-wrapping a matched Cancelled(value)
            elif d["k"] in ("multi", "undef"):
                # locals bound by a match arm: look at every def
                ok = all(_def_is_cancel_payload(b, df) for df in d.get("defs", [])) and bool(d.get("defs"))
            ctx.ob("payload-provenance" + tag, b.key, "%s::Cancelled" % r["adt"].split("::")[-1], ok,
                   "%s:%s" % (b.file, s["line"]),
                   "payload origin: %s via %s" % (d["k"], chain))
    ctx.floor("payload-provenance" + tag, "Cancelled(..) constructions", n_payload, 4)

    # Err(value) of Result<_, Box<dyn Any>> built directly (cache polls) is covered by rule 1.

    # ---- rule 4: results carrying the cancellation channel must be used ------------------
    results_used(ctx, crate, tag)
    ctx.guard("short-circuit" + tag, cancelled_ends_the_run, ctx, crate, crates(ctx, cfg), tag)

    # ---- rule 5: short circuit in encode ---------------------------------------------------
    enc = body_by_key(crate, ENC + "encode", coroutine=True)
    if enc is None:
        ctx.ob("short-circuit" + tag, ENC + "encode", "anchor", False, "", "Encoder::encode async body not found")
    else:
        sites = enc.calls_to(ENC + "on_task_result")
        ctx.floor("short-circuit" + tag, "on_task_result call in encode", len(sites), 1)
        cs = q.conds(enc, crs)
        for i, t in sites:
            # the argument must be the Continue payload of a Try::branch
            d, chain = q.origin_thru(enc, t["args"][1], transparent=set())
            ok = False
            why = "argument of on_task_result is not the Ok payload of a `?`"
            if any(isinstance(e, dict) and e.get("as") == "Continue" for e in d.get("proj", [])) and d["k"] == "call" \
                    and "std::ops::Try::branch" in callee_keys(d["t"]["f"]):
                br = d["bb"]
                for c in cs:
                    if c.kind == "discr" and c.src and c.src["k"] == "call" and c.src["bb"] == br:
                        cont, brk = c.target("Continue"), c.target("Break")
                        if q.edge_dominates(enc, c.bb, cont, i) and i not in enc.reachable([brk]):
                            ok = True
                        else:
                            why = "the Break (error) edge of the `?` can reach on_task_result"
            if not ok and any(isinstance(e, dict) and e.get("as") == "Ok" for e in d.get("proj", [])):
                # the `?` written out: `match result { Ok(r) => on_task_result(r), Err(v) => return Err(v) }`
                for c in cs:
                    if c.kind == "discr" and (c.adt or "").endswith("result::Result") and c.target("Ok") is not None and c.target("Err") is not None \
                            and q.edge_dominates(enc, c.bb, c.target("Ok"), i):
                        err_region = enc.reachable([c.target("Err")])
                        builds_err = any(s_["k"] == "assign" and s_["r"]["k"] == "agg" and s_["r"].get("variant") == "Err"
                                         for x in err_region for s_ in enc.blocks[x]["stmts"])
                        if i not in err_region and builds_err and not (set(enc.yields()) & err_region):
                            ok = True
                        else:
                            why = "the Err edge of the match can reach on_task_result, or does not return the error at once"
            ctx.ob("short-circuit" + tag, enc.key, "?-dominates-on_task_result", ok, where_call(enc, i), why if not ok else
                   "on_task_result only runs on the Continue edge of the `?` applied to the task result")


def results_used(ctx, crate, tag, prefixes=("resolvo::solver::", "resolvo::conflict::"), floor=10):
    """No Result that carries the cancellation channel is dropped or neutralised (unwrap_or_default, ok(), ...): an interrupted
    sub-query must surface as the error it is instead of turning into an (empty) answer that is then cached."""
    n_res = 0
    for b in crate.bodies:
        if not b.key.startswith(tuple(prefixes)):
            continue
        for i, t in b.calls():
            f = t.get("f")
            if f is None or "p" in t["dest"]:
                continue
            dl = t["dest"]["l"]
            ty = b.local_ty(dl)
            if not ty.startswith("std::result::Result<"):
                continue
            if not any(ty.rstrip(">").endswith(e) or (", " + e + ">") in ty for e in CANCEL_ERR_TYPES):
                continue
            if any(k in ("std::ops::Try::branch", "std::ops::FromResidual::from_residual") for k in callee_keys(f)):
                continue
            n_res += 1
            ok, how = (True, "return") if dl == 0 else result_is_used(b, dl)
            ctx.ob("result-must-use" + tag, b.key, "result of %s" % strip_generics(f["path"]).split("::")[-1], ok,
                   where_call(b, i), how)
    ctx.floor("result-must-use" + tag, "cancellation-carrying Result call sites", n_res, floor)


def cancelled_ends_the_run(ctx, crate, crs, tag, prefix="resolvo::solver::"):
    """Where a Result whose error type has a `Cancelled` variant is taken apart by hand (run_sat's match on the outcome of
    propagate), the execution in which the error *is* the cancellation must leave the function with that cancellation: following,
    from the Err edge, only the `Cancelled` side of every test of the error's variant, no loop may be continued (a restart would
    swallow a cancellation that the provider raises only once - seed C12-20) and no return may be reached that was not preceded by
    the construction of a `Cancelled(..)` value."""
    n = 0
    for b in crate.bodies:
        if not b.key.startswith(prefix) or b.kind == "Closure" and False:
            continue
        cs = q.conds(b, crs)
        for c in cs:
            if c.kind != "discr" or not (c.adt or "").endswith("result::Result") or c.src_place is None:
                continue
            ty = c.src_place.get("ty") or b.local_ty(c.src_place["l"])
            if c.src_place.get("p"):
                continue
            if not ("PropagationError" in ty or "UnsolvableOrCancelled" in ty) or not ty.startswith("std::result::Result<"):
                continue
            et = c.target("Err")
            if et is None:
                continue
            # switches on the variant of this very error value
            inner = {}
            for c2 in cs:
                if c2.kind == "discr" and ((c2.adt or "").endswith("PropagationError") or (c2.adt or "").endswith("UnsolvableOrCancelled")):
                    d2 = c2.src or {}
                    sp = c2.src_place or {}
                    same = sp.get("l") == c.src_place["l"] or (d2.get("k") in ("local", "rvalue", "call", "arg", "multi") and
                                                                c.src_place["l"] in q.slice_locals(b, {"k": "copy", "p": {"l": sp.get("l")}}))
                    if same and c2.target("Cancelled") is not None:
                        inner[c2.bb] = c2.target("Cancelled")
            builds = {i for i, j, s_ in b.assigns() if s_["r"]["k"] == "agg" and s_["r"].get("variant") == "Cancelled"}
            # handing the matched Result on as it is (`return outcome`) carries the cancellation as well
            builds |= {i for i, j, s_ in b.assigns() if s_["p"]["l"] == 0 and not s_["p"].get("p") and s_["r"]["k"] == "use" and
                       (operand_place(s_["r"]["o"]) or {}).get("l") == c.src_place["l"] and not (operand_place(s_["r"]["o"]) or {}).get("p")}
            # ... and so does wrapping the matched error again (`Err(e) => Err(e)`, `return Err(e.into())` of the same type)
            for i, j, s_ in b.assigns():
                if s_["r"]["k"] == "agg" and s_["r"].get("variant") == "Err" and s_["r"].get("ops"):
                    d_ = b.origin(s_["r"]["ops"][0])
                    base_ = d_.get("l") if d_.get("k") in ("local", "arg") else (b.blocks[d_["bb"]]["term"]["dest"].get("l") if d_.get("k") == "call" and "bb" in d_ else None)
                    pr_ = [e.get("as") for e in d_.get("proj", []) if isinstance(e, dict) and "as" in e]
                    if pr_ == ["Err"] and (base_ == c.src_place["l"] or (c.src and c.src.get("k") == "call" and d_.get("k") == "call" and d_.get("bb") == c.src.get("bb"))):
                        builds.add(i)
            heads = {h for h, body, _ in b.loops() if c.bb in body}
            S = b.succs()
            seen = {et}
            st = [et]
            bad = None
            while st and bad is None:
                x = st.pop()
                if x in builds:
                    continue
                if b.blocks[x]["term"]["k"] == "return":
                    bad = "a return that does not carry the cancellation (%s)" % b.loc(x)
                    break
                for y in ([inner[x]] if x in inner else S[x]):
                    if y in heads:
                        bad = "the loop is continued (%s)" % b.loc(x)
                        break
                    if y not in seen:
                        seen.add(y)
                        st.append(y)
            n += 1
            ctx.ob("short-circuit" + tag, b.key, "cancelled-outcome-ends-the-run", bad is None, b.loc(c.bb),
                   "when the matched error is the cancellation, the function returns Cancelled(..) without going round its loop again" if bad is None
                   else "with a Cancelled error the execution reaches " + bad)
    ctx.floor("short-circuit" + tag, "hand-written matches on a cancellation-carrying Result", n, 1)


def fan_outs(ctx, crate, tag, prefix="resolvo::solver::", floor=2):
    """No non-short-circuiting join over fallible sub-queries: try_join_all hands the first error (the cancellation) to the
    caller; join_all + flatten / collect drops it or keeps polling the siblings."""
    n_tj = 0
    for b in crate.bodies:
        if not b.key.startswith(prefix) or b.crate.is_test:
            continue
        for i, t in b.calls():
            f = t.get("f")
            if f is None:
                continue
            ks = callee_keys(f)
            if any(k.endswith("::try_join_all") for k in ks):
                n_tj += 1
            if any(k.endswith("::join_all") or k.endswith("::join") or k.endswith("::join3") for k in ks) and "try_" not in f["name"]:
                ctx.ob("short-circuit" + tag, b.key, "fan-out-stops-at-first-error:%s" % f["name"], False, where_call(b, i),
                       "a non-short-circuiting join keeps polling the other members after one of them returned the cancellation")
    ctx.floor("short-circuit" + tag, "try_join_all fan-outs on the solver path", n_tj, floor)


def _def_is_cancel_payload(b, df):
    bb, idx, r = df
    if idx == "term":
        f = r.get("f")
        return bool(f) and provider_call(f, "should_cancel_with_value")
    if r["k"] == "use":
        p = operand_place(r["o"])
        if p is not None and any(isinstance(e, dict) and e.get("as") == "Cancelled" for e in p.get("p", [])):
            return True
    return False


def err_of_poll_value(b, region, poll_bb):
    return agg_with_poll_value(b, region, poll_bb, "Err")


def agg_with_poll_value(b, region, poll_bb, variant):
    for i in region:
        for s in b.blocks[i]["stmts"]:
            if s["k"] != "assign" or s["r"]["k"] != "agg" or s["r"].get("variant") != variant:
                continue
            d, _ = q.origin_thru(b, s["r"]["ops"][0], transparent=set())
            # through unsize casts and moves, down to the Some payload of the poll result
            if d["k"] == "call" and d["bb"] == poll_bb and \
                    any(isinstance(e, dict) and e.get("as") == "Some" for e in d.get("proj", [])):
                return True
    return False


def result_is_used(b, local):
    """A Result local must be consumed by `?`, a match, a return, or a frozen consumer."""
    uses = q.uses_of_local(b, local)
    how = []
    for bb, j, kind, p in uses:
        if kind == "drop":
            continue
        if kind == "discr":
            how.append("match")
            continue
        if kind in ("use",) and j != "term":
            s = b.blocks[bb]["stmts"][j]
            dst = s["p"]
            if dst["l"] == 0:
                how.append("return")
                continue
            # moved into another local: follow one step
            if "p" not in dst:
                ok2, h2 = result_is_used(b, dst["l"]) if dst["l"] != local else (False, "")
                if ok2:
                    how.append("moved:" + h2)
                continue
            how.append("stored")
            continue
        if kind == "arg":
            t = b.blocks[bb]["term"]
            f = t.get("f")
            ks = callee_keys(f) if f else []
            if any(k in RESULT_CONSUMERS for k in ks):
                how.append("consumer:" + ks[0].split("::")[-1])
                continue
            if any(k in ("std::result::Result::map", "std::result::Result::and_then", "std::result::Result::inspect",
                         "std::result::Result::inspect_err") for k in ks) and "p" not in t["dest"] and t["dest"]["l"] != local:
                # a combinator that only touches the Ok side hands the error on unchanged: what counts is what happens to its result
                dl2 = t["dest"]["l"]
                ty2 = b.local_ty(dl2)
                if dl2 == 0 or (ty2.startswith("std::result::Result<") and any(ty2.rstrip(">").endswith(e) or (", " + e + ">") in ty2 for e in CANCEL_ERR_TYPES)):
                    ok2, h2 = (True, "return") if dl2 == 0 else result_is_used(b, dl2)
                    if ok2:
                        how.append("mapped:" + h2)
                        continue
                    return False, "mapped with %s, then: %s" % (ks[0].split("::")[-1], h2)
            if any(k.startswith("std::result::Result::expect") or k.startswith("std::result::Result::unwrap_or_else")
                   for k in ks):
                how.append("asserted:" + ks[0].split("::")[-1])   # listed in C04's panic table
                continue
            return False, "passed to %s which is not a listed consumer of a cancellation-carrying Result" % (ks[0] if ks else "?")
        if kind.startswith("ref"):
            # borrowed (e.g. for Debug formatting / tracing) - not a consumer, keep looking
            continue
        if kind == "yield":
            how.append("yield")
    if not how:
        return False, "result is never inspected (dropped or ignored)"
    from facts import iter_places_read
    ty = b.local_ty(local)
    # a hand-written match that tells the variants of the error enum apart (`Err(Cancelled(..)) => ..`) has an arm of its own for the
    # cancellation; that arm must take the payload out, whatever the other arms do with theirs (seed C15-12: `Err(Cancelled(_)) => break`
    # next to `Err(err) => return Err(err)`)
    nested = False
    if "PropagationError" in ty or "UnsolvableOrCancelled" in ty:
        for bb, j, p, kind in iter_places_read(b):
            if p["l"] == local and kind == "discr" and [e.get("as") for e in p.get("p", []) if isinstance(e, dict) and "as" in e] == ["Err"]:
                nested = True
    if "return" in how and nested:
        # the value is also returned whole: if that return lies on the Err side of the match, the payload leaves with it
        for c in q.conds(b, ()):
            if c.kind == "discr" and (c.adt or "").endswith("result::Result") and c.src_place is not None and c.src_place.get("l") == local \
                    and not c.src_place.get("p") and c.target("Err") is not None:
                after = b.reachable([c.target("Err")])
                if any(i in after for i, j, s_ in b.assigns() if s_["p"]["l"] == 0 and not s_["p"].get("p") and s_["r"]["k"] == "use" and
                       (operand_place(s_["r"]["o"]) or {}).get("l") == local and not (operand_place(s_["r"]["o"]) or {}).get("p")):
                    return True, ",".join(sorted(set(how)))
    if set(how) == {"match"} or ("match" in how and nested):
        # a hand-written match must take the cancellation payload out of the Err arm
        want_variant = "Cancelled" if ("PropagationError" in ty or "UnsolvableOrCancelled" in ty) else "Err"
        taken = False
        for bb, j, p, kind in iter_places_read(b):
            if p["l"] != local or kind in ("discr",):
                continue
            names = [e.get("as") for e in p.get("p", []) if isinstance(e, dict) and "as" in e]
            if want_variant in names and any(isinstance(e, dict) and "f" in e for e in p.get("p", [])):
                if want_variant == "Cancelled" or names == ["Err"]:
                    taken = True
        if not taken:
            # `match r { Ok(v) => v, Err(_) => unreachable!(..) }` asserts instead of swallowing: the Err edge cannot return
            rets = set(b.return_blocks())
            for c in q.conds(b, ()):
                if c.kind == "discr" and (c.adt or "").endswith("result::Result") and c.target("Err") is not None:
                    sp = c.src_place
                    from_local = (sp is not None and sp.get("l") == local) or \
                        (c.src and c.src.get("k") == "call" and b.blocks[c.src["bb"]]["term"]["dest"].get("l") == local)
                    if from_local and not (rets & b.reachable([c.target("Err")])):
                        return True, "asserted:match-arm-diverges"
            return False, "result is matched but the %s payload is never taken out: cancellation is swallowed" % want_variant
    return True, ",".join(sorted(set(how)))
