"""C20 - SolverCache answers are consistent with the provider and stable (structural clause).

  memoisation / choke-points   shared with C09 (repeated queries never consult the provider again)
  filter-siblings    filter_candidates(.., inverse=false) feeds version_set_candidates, inverse=true feeds
                     version_set_inverse_candidates; both filter the package's full candidate list obtained for
                     version_set_name(version_set) with the queried version set
  sorted-provenance  the vector handed to sort_candidates is a copy of the matching list of the same version set;
                     after the sort it is only touched inside the favored branch
  favored-move       the favored candidate is moved to the front by an order-preserving rotation of the
                     prefix [0..=pos] by one (pos = position of the favored id)
  availability       truthful availability query; hint bits written only when candidates arrive, and exactly
                     for the candidates the provider's hint names (None / All / Some arms)
  no-guard-across-await  re-entrant cache use from sort_candidates cannot hit a held RefCell borrow

Added after the second and third seeding rounds:
  hint-bits-grow-only / hint-bits-only-set-true  the hint bit vector only grows and bits are only switched on
"""
from common import *
import q, mech

CAND_ADT = "resolvo::Candidates"


def run(ctx):
    ctx.explanation = (
        "Static clause of C20: memoisation and choke points (no second provider call), agreement of the two filter call sites "
        "(inverse flag <-> destination map, same version set, full candidate list of the version set's package), provenance of "
        "the sorted list (copy of the matching list; only the favored branch touches it after the provider sorted it; the move "
        "to the front is rotate_right(1) on [0..=pos], the order-preserving form), truthful availability query and hint-bit "
        "writes driven by the provider's hint arms, and no RefCell borrow held across an await in the cache (re-entrancy from "
        "sort_candidates). Value-level equality with filter_candidates' definition is NOT decided.")
    ctx.assumptions += ["slice::rotate_right(1) on [0..=pos] moves element pos to the front and keeps the others' order (std)"]
    for cfg in (["cfgA"] if ctx.tier == "quick" else ["cfgA", "cfgC"]):
        tag = "" if cfg == "cfgA" else "@" + cfg
        crate = lib(ctx, cfg)
        crs = crates(ctx, cfg)
        ctx.count("functions_analysed", len(crate.bodies))
        mech.memo_check(ctx, "memoisation", crate, crs, tag)
        mech.choke_points(ctx, "choke-points", crate, tag)
        mech.filter_siblings(ctx, crate, crs, tag)
        sorted_provenance(ctx, crate, crs, tag)
        mech.availability_query(ctx, "availability", crate, crs, tag)
        mech.hint_writers(ctx, "availability", crate, tag)
        mech.hint_arms(ctx, crate, crs, tag)
        mech.guards(ctx, crate, tag)
        # a union's sorted list is the concatenation of all member lists: an error of one member must reach the caller instead
        # of being dropped from the (insert-only) cached list - the join census of C12, restricted to the cache
        import c12
        ctx.guard("short-circuit" + tag, c12.fan_outs, ctx, crate, tag, "resolvo::solver::cache::", 1)
        ctx.guard("result-must-use" + tag, c12.results_used, ctx, crate, tag, ("resolvo::solver::cache::",), 0)
        # a repeated query is answered from the table alone: the provider is not even polled for cancellation on a hit (seed C20-13)
        import c04
        ctx.guard("cached-implies-ok" + tag, c04.cached_implies_ok, ctx, crate, crs, tag)
        # the per-requirement list of a union is the concatenation of its members' lists in the union's own order (seed C20-18)
        import c07
        ctx.guard("order-preserved" + tag, c07.order_preserved, ctx, crate, crs, tag)


def sorted_provenance(ctx, crate, crs, tag):
    fn = CACHE + "get_or_cache_sorted_candidates_for_version_set"
    b = body_by_key(crate, fn, coroutine=True)
    if b is None:
        ctx.ob("sorted-provenance" + tag, fn, "anchor", False, "", "async body not found")
        return
    sorts = b.calls_to(lambda f: provider_call(f, "sort_candidates"))
    ctx.floor("sorted-provenance" + tag, "sort_candidates call", len(sorts), 1)
    cs = q.conds(b, crs)
    for si, st in sorts:
        vd, chain = q.origin_thru(b, st["args"][2])
        vec_local = vd.get("l") if vd["k"] in ("call", "rvalue", "multi") else None
        # the vector itself is the local the `&mut` handed to the provider points at (the value-origin above looks through copies such
        # as `matching.to_vec()` and may end at the matching list instead)
        bl = _base_local(b, st["args"][2])
        if bl is not None and "Vec<" in b.local_ty(bl):
            vec_local = bl
        # the vector is filled by extend_from_slice(matching) with matching = get_or_cache_matching_candidates(vs).await?
        filled = False
        fills = []
        for i, t in b.calls():
            f = t.get("f")
            if f is None or not t["args"]:
                continue
            a0 = operand_place(t["args"][0])
            d0, _ = q.origin_thru(b, t["args"][0], transparent=set()) if a0 else ({"k": "none"}, [])
            touches = d0.get("l") == vec_local and d0["k"] in ("call", "rvalue", "multi") or \
                (d0["k"] == "call" and d0.get("l") == vec_local)
            if not touches:
                continue
            mut = t.get("arg_tys", [""])[0].startswith("&mut")
            if not mut:
                continue
            fills.append((i, t))
        pre = [(i, t) for i, t in fills if i != si and si in b.reachable_after(i) and i not in b.reachable_after(si)]
        post = [(i, t) for i, t in fills if i in b.reachable_after(si)]
        for i, t in pre:
            if t["f"]["name"] == "extend_from_slice":
                md, _ = q.origin_thru(b, t["args"][1], transparent=q.TRANSPARENT | {"std::ops::Try::branch"})
                src, _ = mech._await_source(b, md)
                if src is not None and CACHE + "get_or_cache_matching_candidates" in callee_keys(b.blocks[src]["term"]["f"]):
                    filled = True
        if not filled:
            # any copy of the matching list (`matching.to_vec()`, `Vec::from(matching)`, collect of its iter) - decided by the data slice
            lv = q.leaves(b, st["args"][2])
            lossy = {x[5:] for x in lv if x.startswith("call:")} & {"filter", "rev", "skip", "take", "step_by", "sort", "sort_by", "sort_unstable",
                                                                     "dedup", "retain", "truncate", "skip_while", "take_while", "filter_map"}
            filled = "call:get_or_cache_matching_candidates" in lv and not lossy
        ctx.ob("sorted-provenance" + tag, b.key, "sorted-input-is-matching-list", filled, where_call(b, si),
               "the list given to sort_candidates is a copy of the matching candidates")
        others = [t["f"]["name"] for i, t in pre if t["f"]["name"] not in ("extend_from_slice", "deref_mut", "deref")]
        ctx.ob("sorted-provenance" + tag, b.key, "nothing-else-added-before-sort", not others, where_call(b, si),
               "other mutations before the sort: %s" % others)
        # after the sort: every mutable use is inside the favored = Some branch
        fav_edges = []
        for c in cs:
            if c.kind == "discr" and c.src_place is not None and \
                    any(isinstance(e, dict) and e.get("n") == "favored" and e.get("of") == CAND_ADT for e in c.src_place.get("p", [])):
                if c.target("Some") is not None:
                    fav_edges.append((c.bb, c.target("Some")))
        ctx.floor("sorted-provenance" + tag, "test of Candidates.favored", len(fav_edges), 1)
        # `let pos = match favored { Some(f) => v.iter().position(..), None => None }; if let Some(pos) = pos {..}`: a local Option that
        # can only be Some on the favored branch carries the same guarantee
        for c in cs:
            if c.kind == "discr" and (c.adt or "").endswith("option::Option") and c.src_place is not None and not c.src_place.get("p") \
                    and c.target("Some") is not None and fav_edges:
                defs = b.defs_of(c.src_place["l"])
                if defs and all((idx != "term" and r["k"] == "agg" and r.get("variant") == "None") or q.only_via_edges(b, fav_edges, bb)
                                for bb, idx, r in defs):
                    fav_edges.append((c.bb, c.target("Some")))
        n_post = 0
        for i, t in post:
            if t["f"]["name"] in ("deref", "len", "iter", "as_slice"):
                continue
            if t["f"]["name"] == "deref_mut" and False:
                continue
            n_post += 1
            ok = bool(fav_edges) and q.only_via_edges(b, fav_edges, i)
            ctx.ob("sorted-provenance" + tag, b.key, "post-sort-mutation-only-if-favored:%s" % t["f"]["name"], ok,
                   where_call(b, i), "the provider's order is only changed when a favored candidate exists")
        # ---- favored-move: rotate_right(1) on [0..=pos]
        rots = [(i, t) for i, t in b.calls() if t.get("f") and t["f"]["name"] in ("rotate_right",)]
        perm = [(i, t) for i, t in post if t["f"]["name"] in ("swap", "reverse", "sort", "sort_by", "sort_by_key", "sort_unstable",
                                                               "sort_unstable_by", "sort_unstable_by_key", "rotate_left", "retain",
                                                               "dedup", "truncate", "clear", "swap_remove", "drain", "pop", "push")]
        for i, t in b.calls():
            f = t.get("f")
            if f and f["name"] in ("swap", "reverse", "rotate_left", "swap_remove") and i in b.reachable_after(si):
                ctx.ob("favored-move" + tag, b.key, "order-destroying:%s" % f["name"], False, where_call(b, i),
                       "%s does not keep the relative order of the other candidates" % f["name"])
        ctx.floor("favored-move" + tag, "rotate_right call", len(rots), 1)
        for i, t in rots:
            k = t["args"][1]
            ok_k = k.get("k") == "const" and k.get("v") == 1
            sd, chain = q.origin_thru(b, t["args"][0], transparent=set())
            ok_range = False
            pos_ok = False
            if sd["k"] == "call" and sd["t"]["f"]["name"] == "index_mut":
                it = sd["t"]
                vd2, _ = q.origin_thru(b, it["args"][0], transparent=set())
                rd, _ = q.origin_thru(b, it["args"][1], transparent=set())
                if rd["k"] == "call" and rd["t"]["f"]["name"] == "new" and "RangeInclusive" in rd["t"]["f"]["path"]:
                    lo, hi = rd["t"]["args"]
                    ok_range = lo.get("k") == "const" and lo.get("v") == 0 and (vd2.get("l") == vec_local or _base_local(b, it["args"][0]) == vec_local)
                    pd, _ = q.origin_thru(b, hi, transparent=set())
                    if pd["k"] == "call" and pd["t"]["f"]["name"] == "position" and \
                            any(isinstance(e, dict) and e.get("as") == "Some" for e in pd.get("proj", [])):
                        pos_ok = _position_closure_compares_favored(crate, b, pd["t"])
                    elif pd["k"] in ("multi", "undef") and "call:position" in q.leaves(b, hi):
                        # the position travelled through a local Option (see above): every position(..) call in the function must
                        # be the search for the favored id
                        pcs = [pt for pi, pt in b.calls() if pt.get("f") and pt["f"]["name"] == "position"]
                        pos_ok = bool(pcs) and all(_position_closure_compares_favored(crate, b, pt) for pt in pcs)
            ctx.ob("favored-move" + tag, b.key, "rotate_right(1)", ok_k, where_call(b, i), "rotation amount is 1")
            ctx.ob("favored-move" + tag, b.key, "prefix[0..=pos]", ok_range, where_call(b, i),
                   "the rotated slice is the prefix 0..=pos of the sorted vector")
            ctx.ob("favored-move" + tag, b.key, "pos-is-position-of-favored", pos_ok, where_call(b, i),
                   "pos is the index of the favored id in the sorted vector")
        # the stored value is this vector, under the requirement built from the version set
        ins = q.calls_on_field(b, mech.INSERTS, CACHE_ADT, "requirement_to_sorted_candidates")
        for ii, it in ins:
            d, _ = q.origin_thru(b, it["args"][2], transparent=set())
            ctx.ob("sorted-provenance" + tag, b.key, "stores-the-sorted-vector", d.get("l") == vec_local or _base_local(b, it["args"][2]) == vec_local, where_call(b, ii),
                   "what is cached is the vector the provider sorted")


def _position_closure_compares_favored(crate, b, pos_term):
    """The predicate closure of `.position(..)` compares the element with the captured favored id."""
    d, _ = q.origin_thru(b, pos_term["args"][1], transparent=set())
    if d["k"] != "rvalue" or d["r"].get("ak") != "closure":
        return False
    cb = crate.by_path.get(d["r"]["def"])
    if cb is None:
        return False
    ups = [u["name"] for u in cb.d.get("upvars", [])]
    # captured operand must be the Some payload of Candidates.favored
    cap_ok = False
    for o in d["r"]["ops"]:
        od, _ = q.origin_thru(b, o)
        if any(isinstance(e, dict) and e.get("n") == "favored" for e in od.get("proj", [])):
            cap_ok = True
    eq = [t for i, t in cb.calls() if t.get("f") and t["f"]["name"] in ("eq",)]
    return cap_ok and len(ups) == 1 and len(eq) == 1




def _base_local(b, op):
    """The local an operand is, borrows or re-borrows (follows `&mut x`, `&mut *r`, plain moves / copies and deref_mut)."""
    cur = operand_place(op)
    for _ in range(8):
        if cur is None:
            return None
        ds = b.defs_of(cur["l"])
        if len(ds) != 1:
            return cur["l"]
        bb, idx, r = ds[0]
        if idx == "term":
            f = r.get("f")
            if f and f["name"] in ("deref_mut", "deref", "as_mut_slice", "as_mut", "borrow_mut") and r["args"]:
                cur = operand_place(r["args"][0])
                continue
            return cur["l"]
        if r["k"] == "ref":
            cur = {"l": r["p"]["l"]}
            continue
        if r["k"] == "use" and operand_place(r["o"]) is not None:
            cur = {"l": operand_place(r["o"])["l"]}
            continue
        return cur["l"]
    return cur["l"] if cur else None
