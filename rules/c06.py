"""C06 - same problem, same answer (order sources / entropy census).

  order-sources   T-ORD: every operation that reveals the iteration order of a hash-ordered container
                  (std HashMap/HashSet with any hasher, elsa::FrozenMap) is enumerated from resolved callees and
                  receiver types and must be a classified site whose sink is order-insensitive
  entropy         expected-zero census: no RNG / RandomState::new / thread spawn / wall clock / pointer->integer
                  exposure on the solver path (one frozen exception: SnapshotProvider's timeout poll)
  unstable-sorts  every sort_unstable*/sorted_unstable* site is frozen and sorts a type whose order is total on
                  distinct elements
  ordered-inputs  the containers decide() and the at-most-once encoder iterate are insertion ordered
                  (IndexMap / IndexSet / Vec); union members come from ordered sequences
  serde-hash      hash-typed fields of serialisable snapshot structs are used for membership only
"""
from common import *
import q

HASHY = ("std::collections::HashMap<", "std::collections::HashSet<", "std::collections::hash_map::",
         "std::collections::hash_set::", "ahash::AHashMap", "ahash::AHashSet", "hashbrown::")
REVEAL = {"iter", "iter_mut", "keys", "values", "values_mut", "into_iter", "into_keys", "into_values", "drain",
          "extract_if", "retain", "next", "for_each", "fold", "find", "position", "min", "max", "min_by_key", "max_by_key",
          "collect", "last", "nth", "any", "all"}
# (function key, revealing op) -> (classification, validator name)
CLASSIFIED = {
    ("resolvo::conflict::ConflictGraph::simplify", "into_values"):
        ("groups are pairwise disjoint and only feed a keyed insert", "keyed_sink_loop"),
    ("resolvo::solver::diagnostics::report_diagnostics", "iter"):
        ("diagnostics feature: tracing output only, never feeds the solver", "diagnostics_only"),
}
# order-insensitive things a loop over hash-ordered values may call
KEYED_SINK_OK = {"len", "new", "clone", "insert", "into_iter", "next", "map", "collect", "deref", "iter", "drop",
                 "is_empty", "from_iter", "branch", "from_residual", "as_ref"}

# lazy, order-preserving adaptors: applied to a hash iterator they reveal nothing themselves; what consumes the adapted iterator does
LAZY_ADAPTORS = {"filter", "map", "filter_map", "copied", "cloned", "inspect", "by_ref"}

ENTROPY = ["rand::", "getrandom::", "std::collections::hash_map::RandomState::new", "ahash::RandomState::new",
           "ahash::RandomState::with_seed", "std::thread::spawn", "std::thread::Builder", "std::time::Instant::now",
           "std::time::SystemTime::now", "std::process::id", "std::env::var", "std::ptr::addr", "expose_provenance",
           "std::fmt::Pointer::fmt", "fastrand::", "std::thread::current"]
ENTROPY_OK = {("<resolvo::snapshot::SnapshotProvider<'_> as resolvo::DependencyProvider>::should_cancel_with_value",
               "std::time::SystemTime::now"): "timeout poll of the snapshot provider; C06 presupposes a deterministic provider"}

UNSTABLE_OK = {("resolvo::conflict::ConflictGraph::simplify", "sorted_unstable"):
               "petgraph NodeIndex: total order, equal elements are indistinguishable"}


def is_hashy(ty):
    return any(h in ty for h in HASHY)


def run(ctx):
    ctx.explanation = (
        "C06 is decided by locating every syntactic source of nondeterminism in the type-checked program: (1) all "
        "order-revealing operations on hash-ordered containers (receiver type resolved by rustc, any hasher) - each must be a "
        "classified site with an order-insensitive sink, a new site is a violation; (2) an expected-zero census of RNG, "
        "RandomState::new, threads, clocks and pointer exposure; (3) a frozen list of unstable sorts over totally ordered keys; "
        "(4) type facts: decide()'s inputs are IndexMap/IndexSet/Vec; (5) hash-typed serialisable fields are membership-only. "
        "Same binary + same provider then gives the same sequence of operations. Floating-point reproducibility across "
        "targets is assumed.")
    ctx.assumptions += ["IndexMap/IndexSet/petgraph iterate in insertion/index order", "the provider is deterministic and non-yielding (premise of C06)",
                        "same binary => same IEEE operations for the f32 activity scores"]
    cfgs = ["cfgA"] if ctx.tier == "quick" else ["cfgA", "cfgB", "cfgC"]
    for cfg in cfgs:
        tag = "" if cfg == "cfgA" else "@" + cfg
        F = ctx.facts(cfg)
        for cname in ("resolvo", "resolvo_cpp"):
            if cname not in F.crates:
                continue
            crate = F.crate(cname)
            ctx.count("functions_analysed", len(crate.bodies))
            order_sources(ctx, crate, tag)
            entropy(ctx, crate, tag)
            unstable_sorts(ctx, crate, tag)
        crate = F.crate("resolvo")
        ordered_inputs(ctx, crate, tag)
        serde_hash(ctx, crate, tag)
    # positive control for the zero-count rules: the matcher must recognise a known site
    crate = ctx.facts("cfgA").crate("resolvo")
    hits = sum(1 for b in crate.bodies for i, t in b.calls() if t.get("f") and "std::time::SystemTime::now" in callee_keys(t["f"]))
    ctx.ob("entropy", "-", "positive-control:SystemTime::now", hits >= 1, "", "the census matcher sees the known clock read (%d)" % hits)


def reveal_sites(b):
    """Calls that expose the iteration order of a hash container: by receiver type or by the resolved iterator impl."""
    out = []
    for i, t in b.calls():
        f = t.get("f")
        if f is None:
            continue
        if any(e.startswith("macro:") and ("Debug" in e or "Deserialize" in e or "Serialize" in e or "PartialEq" in e or "Hash" in e or "Clone" in e)
               for e in (t.get("exp") or [])):
            continue
        name = f["name"]
        at = (t.get("arg_tys") or [""])[0]
        st = f.get("self_ty") or ""
        res = f.get("resolved") or ""
        path = f["path"]
        recv_hash = is_hashy(at) or is_hashy(st)
        # generic: the call *produces* an iterator type of the hash_map / hash_set modules
        dty = b.local_ty(t["dest"]["l"]) if "p" not in t["dest"] else ""
        if ("std::collections::hash_map::" in dty or "std::collections::hash_set::" in dty or "hashbrown::" in dty) \
                and "Entry" not in dty and "RandomState" not in dty.split("<")[0] and not dty.startswith("std::option::Option<") \
                and name not in ("iter", "iter_mut", "keys", "values", "values_mut", "into_keys", "into_values", "drain",
                                 "extract_if", "difference", "intersection", "union", "symmetric_difference", "into_iter",
                                 "clone", "default", "new"):
            if name in LAZY_ADAPTORS and f["path"].startswith("std::iter::Iterator::") and is_hashy(at):
                # judged where the upstream hash iteration is judged (keyed_sink_loop follows the adapted iterator to its consumer)
                continue
            out.append((i, t, "produces:" + name))
            continue
        if not recv_hash and not is_hashy(res) and not is_hashy(path):
            if "elsa::" in path and name not in ("get", "insert", "new", "default", "len", "is_empty", "get_copy", "map_get", "with_hasher", "as_mut", "get_key_value"):
                out.append((i, t, "frozenmap:" + name))
            continue
        if name in ("iter", "iter_mut", "keys", "values", "values_mut", "into_keys", "into_values", "drain", "extract_if", "retain",
                    "difference", "intersection", "union", "symmetric_difference"):
            if "::Entry" in path or "::OccupiedEntry" in path:
                continue
            out.append((i, t, name))
        elif name == "into_iter" and (is_hashy(st) or is_hashy(at)) and not st.startswith("std::collections::hash_map::Into") \
                and "::Iter<" not in st and "::IntoIter<" not in st and "::IntoValues<" not in st and "::IntoKeys<" not in st \
                and "::Keys<" not in st and "::Values<" not in st and "::Drain<" not in st:
            out.append((i, t, "into_iter"))
        elif name in ("serialize",) and recv_hash:
            out.append((i, t, "serialize"))
    return out


def order_sources(ctx, crate, tag):
    n = 0
    for b in crate.bodies:
        sites = reveal_sites(b)
        for i, t, op in sites:
            n += 1
            ctx.count("order_revealing_sites")
            fn = q.enclosing_fn(crate, b)
            cls = CLASSIFIED.get((fn, op))
            if cls is None:
                ctx.ob("order-sources" + tag, fn, "hash-order:%s" % op, False, where_call(b, i),
                       "iteration order of a hash-ordered container (%s) is revealed here; not a classified order-insensitive site"
                       % (t.get("arg_tys") or ["?"])[0][:70])
                continue
            why, validator = cls
            ok, detail = VALIDATORS[validator](crate, b, i, t)
            ctx.ob("order-sources" + tag, fn, "hash-order:%s" % op, ok, where_call(b, i), (why if ok else detail))
    if crate.name == "resolvo" and "feature=diagnostics" in crate.cfg:
        ctx.floor("order-sources" + tag, "classified hash-order sites in resolvo", n, 2)
    elif crate.name == "resolvo":
        ctx.floor("order-sources" + tag, "classified hash-order sites in resolvo", n, 1)


def keyed_sink_loop(crate, b, i, t):
    """The values of the hash iteration feed a loop whose body only calls order-insensitive sinks."""
    after = b.reachable_after(i)
    loops = [(h, body) for h, body, _ in b.loops() if h in after]
    src = t["dest"]["l"]
    nxt = [(j, tt) for j, tt in b.calls() if tt.get("f") and tt["f"]["name"] == "next" and
           (is_hashy(tt["f"].get("resolved") or tt["f"].get("self_ty") or "") or (tt["args"] and src in q.slice_locals(b, tt["args"][0])))]
    if not nxt:
        return False, "the hash iterator is not consumed by a plain loop"
    # closures handed to lazy adaptors between the hash iteration and the loop run once per element, in hash order: same discipline
    for j, tt in b.calls():
        f = tt.get("f")
        if f and f["name"] in LAZY_ADAPTORS and len(tt["args"]) > 1 and src in q.slice_locals(b, tt["args"][0]):
            d = b.origin(tt["args"][1])
            cdef = (d.get("r") or {}).get("def") if d.get("k") == "rvalue" else None
            cbs = [c for c in crate.bodies if c.kind == "Closure" and cdef and (c.path == cdef or (c.parent and c.parent == cdef))]
            if not cbs:
                return False, "the closure given to %s over hash-ordered values could not be found" % f["name"]
            for c in cbs:
                for k, ct in c.calls():
                    if ct.get("f") and ct["f"]["name"] not in KEYED_SINK_OK | LAZY_ADAPTORS:
                        return False, "closure of %s over hash-ordered values calls %s (possibly order-sensitive)" % (f["name"], ct["f"]["path"])
    for j, tt in nxt:
        for h, body in loops:
            if j not in body:
                continue
            for k in body:
                term = b.blocks[k]["term"]
                if term["k"] == "call" and term.get("f"):
                    nm = term["f"]["name"]
                    if nm not in KEYED_SINK_OK:
                        return False, "loop over hash-ordered values calls %s (possibly order-sensitive sink)" % term["f"]["path"]
                    if nm == "insert":
                        at = (term.get("arg_tys") or [""])[0]
                        if not (is_hashy(at) or "Map" in at or "Set" in at):
                            return False, "insert into a positional container inside a hash-ordered loop"
                if term["k"] == "return":
                    return False, "early return inside a hash-ordered loop (first-match depends on order)"
            return True, ""
    return False, "no loop found over the hash iterator"


def diagnostics_only(crate, b, i, t):
    ok = b.key.startswith("resolvo::solver::diagnostics::")
    # the function returns nothing and is only called from solve() under the feature
    out = b.d.get("sig", {}).get("output", "()") if b.kind != "Closure" else "()"
    root = crate.by_path.get(b.root) if b.root else b
    sig_out = (root.d.get("sig", {}) if root else {}).get("output", "()")
    return ok and sig_out == "()", "diagnostics iteration escapes the diagnostics module or returns a value"


VALIDATORS = {"keyed_sink_loop": keyed_sink_loop, "diagnostics_only": diagnostics_only}


def entropy(ctx, crate, tag):
    n = 0
    for b in crate.bodies:
        for i, t in b.calls():
            f = t.get("f")
            if f is None:
                continue
            keys = callee_keys(f) + [f["path"]]
            for pat in ENTROPY:
                if any(pat in k for k in keys):
                    n += 1
                    fn = q.enclosing_fn(crate, b)
                    allowed = (fn, pat) in ENTROPY_OK or b.key.startswith("resolvo::solver::diagnostics::")
                    ctx.ob("entropy" + tag, fn, "source:%s" % pat, allowed, where_call(b, i),
                           ENTROPY_OK.get((fn, pat), "diagnostics only") if allowed else
                           "entropy source %s on a path that can influence results" % keys[0])
        for i, j, s in b.assigns():
            r = s["r"]
            if r["k"] == "cast" and r["ck"] in ("PointerExposeProvenance",) and not s.get("exp"):
                # pointer -> integer: allowed only in the C++ container arithmetic (alignment / size), never in resolvo
                n += 1
                ok = crate.name == "resolvo_cpp"
                ctx.ob("entropy" + tag, b.key, "ptr-to-int", ok, "%s:%s" % (b.file, s["line"]),
                       "address exposed as integer" + ("" if ok else " in the solver crate"))
    ctx.count("entropy_sites", n)


def unstable_sorts(ctx, crate, tag):
    for b in crate.bodies:
        for i, t in b.calls():
            f = t.get("f")
            if f is None:
                continue
            nm = f["name"]
            if "unstable" in nm and ("sort" in nm):
                fn = q.enclosing_fn(crate, b)
                why = UNSTABLE_OK.get((fn, nm))
                elem_ok = False
                if why:
                    tys = " ".join(f.get("targs", []) + (t.get("arg_tys") or []))
                    elem_ok = "petgraph::graph::NodeIndex" in tys or "NodeIndex" in (f.get("self_ty") or "") or \
                        "NodeIndex" in b.local_ty(t["dest"]["l"])
                ctx.ob("unstable-sorts" + tag, fn, "unstable:%s" % nm, bool(why) and elem_ok, where_call(b, i),
                       why if (why and elem_ok) else "unstable sort whose tie order may leak (not in the frozen list or element type changed)")


def ordered_inputs(ctx, crate, tag):
    def field_ty(adt, name):
        a = crate.adts.get(adt)
        if not a:
            return None
        for f in a["variants"][0]["fields"]:
            if f["name"] == name:
                return f["ty"]
        return None
    checks = [
        (STATE_ADT, "requires_clauses", ("indexmap::IndexMap<",)),
        ("resolvo::solver::binary_encoding::AtMostOnceTracker", "variables", ("indexmap::IndexSet<", "indexmap::IndexMap<")),
        (STATE_ADT, "negative_assertions", ("std::vec::Vec<",)),
        (STATE_ADT, "learnt_clause_ids", ("std::vec::Vec<",)),
        ("resolvo::solver::decision_tracker::DecisionTracker", "stack", ("std::vec::Vec<",)),
        ("resolvo::conflict::Conflict", "clauses", ("std::vec::Vec<", "indexmap::")),
    ]
    for adt, name, okp in checks:
        ty = field_ty(adt, name)
        ctx.ob("ordered-inputs" + tag, adt, "field:%s" % name, ty is not None and ty.startswith(okp), "",
               "%s.%s: %s" % (adt.split("::")[-1], name, (ty or "missing")[:90]))
    # decide() iterates requires_clauses (an IndexMap) - and no hash container
    d = body_by_key(crate, SOLVER + "decide")
    if d is not None:
        its = [t for i, t in d.calls() if t.get("f") and t["f"]["name"] == "iter" and "indexmap::" in t["f"]["path"]]
        ctx.ob("ordered-inputs" + tag, d.key, "iterates-IndexMap", bool(its), d.loc(), "decide() walks requires_clauses in insertion order")


def serde_hash(ctx, crate, tag):
    """Hash-typed fields of the snapshot's serialisable structs: membership use only."""
    if "feature=serde" not in crate.cfg:
        return
    n = 0
    for path, a in crate.adts.items():
        if not path.startswith("resolvo::snapshot::"):
            continue
        for v in a["variants"]:
            for f in v["fields"]:
                if not is_hashy(f["ty"]):
                    continue
                n += 1
                uses = []
                for b in crate.bodies:
                    if any(str(e).startswith("macro:serde") or str(e).startswith("macro:Debug") or str(e).startswith("macro:Clone")
                           for e in (b.d.get("exp") or [])):
                        continue
                    for i, t in b.calls():
                        if not t["args"] or t.get("exp") and any("macro:" in e for e in t["exp"]):
                            continue
                        d, _ = q.origin_thru(b, t["args"][0])
                        if q.mentions_field(d, path, f["name"]):
                            uses.append((t["f"]["name"] if t.get("f") else "?", where_call(b, i)))
                bad = [u for u in uses if u[0] not in ("contains", "len", "is_empty", "clone", "deref", "fmt", "borrow", "get")]
                ctx.ob("serde-hash" + tag, path, "field:%s" % f["name"], not bad, bad[0][1] if bad else "",
                       "hash-typed serialisable field is used for membership tests only (%d uses)" % len(uses) if not bad else
                       "hash-typed field %s is used by %s: its order can leak" % (f["name"], bad[0][0]))
    ctx.count("hash_typed_snapshot_fields", n)
