"""C08 - direct requirements get their best candidate whenever that is possible (necessary structural conditions only).

  explicit-flag      in decide(), `is_explicit_requirement` is exactly `parent == VariableId::root()` and is the value stored in
                     the proposed decision
  explicit-first     a proposal from a non-explicit requirement can never replace a best proposal that is explicit: within one
                     iteration over the requiring solvables every path to a replacement of the best proposal passes a test
                     `best.is_explicit_requirement && !is_explicit_requirement` whose true side skips the requirement
                     (the order of this test relative to the activity / count tie-breakers is irrelevant and not checked)
  first-candidate    for each requirement the proposal is the first unassigned candidate in cached order (shared with C07)
  root-true-decisions the only constant-true decisions are the run's solvable and decide()'s proposal (shared with C05)

Added after the second and third seeding rounds:
  requirement-skipped-only-by-trail-or-flag  every test between the start of an iteration over requires_clauses and the walk over
                     that solvable's requirements reads only the trail, the explicit flag and the best proposal

Added after the fifth seeding round:
  candidate-lists / core(verdict)  the best candidate of a direct requirement is given up only when the problem's clauses rule it
                     out: cache lists are the provider's (seed C08-13), conflict reports do not become permanent assertions (C08-15)
"""
from common import *
import q, enc, c05, c07
from enc import *

PD = "PossibleDecision"


def run(ctx):
    ctx.explanation = (
        "Only necessary structural conditions of C08 are decided: the explicit-requirement flag of decide() is the comparison of "
        "the requiring solvable with the root and is what the proposal records; no assignment of `best_decision` that replaces an "
        "existing proposal can happen when the existing one is explicit and the new one is not (guard on every path); each requirement proposes its first unassigned candidate; nothing "
        "else decides a solvable true.  Whether the choice survives conflicts, learning and backjumps - the actual content of "
        "C08 - depends on run-time activity scores and levels and is NOT decided.")
    ctx.assumptions += ["activity scores only reorder proposals of equal explicitness (follows from explicit-first)"]
    for cfg in (["cfgA"] if ctx.tier == "quick" else ["cfgA", "cfgB", "cfgC"]):
        tag = "" if cfg == "cfgA" else "@" + cfg
        crate = lib(ctx, cfg)
        crs = crates(ctx, cfg)
        ctx.count("functions_analysed", len(crate.bodies))
        ctx.guard("explicit-first" + tag, explicit_first, ctx, crate, crs, tag)
        ctx.guard("first-candidate" + tag, c07.first_candidate, ctx, crate, crs, tag)
        ctx.guard("order-preserved" + tag, c07.order_preserved, ctx, crate, crs, tag)   # the lists decide() picks from are complete and in order
        ctx.guard("root-true-decisions" + tag, c05.true_decisions, ctx, crate, crs, tag)
        # the best candidate of a direct requirement is given up only when the clauses rule it out: everything the solver adds on
        # its own - negative assertions, conflict reports of the encoder, learnt clauses - must follow from the problem, or a
        # transitive choice that was undone long ago keeps the direct requirement downgraded (rules of C01/C02 and C03)
        import c01, c03
        ctx.guard("registration" + tag, c01.registration, ctx, crate, crs, tag)
        ctx.guard("antecedents" + tag, c03.antecedents, ctx, crate, crs, tag)
        import core
        ctx.guard("core" + tag, core.soundness, ctx, crate, crs, tag)      # see rules/core.py
        # the candidate lists the clauses are built from are the provider's (filter flag / map agreement, memoised under the right key)
        import mech
        ctx.guard("candidate-lists" + tag, mech.memo_check, ctx, "candidate-lists", crate, crs, tag)
        ctx.guard("candidate-lists" + tag, mech.filter_siblings, ctx, crate, crs, tag, "candidate-lists")


def explicit_first(ctx, crate, crs, tag):
    R = "explicit-first" + tag
    F = "explicit-flag" + tag
    b = body_by_key(crate, SOLVER + "decide")
    if b is None:
        ctx.ob(R, SOLVER + "decide", "exists", False, "", "decide not found")
        return
    cs = q.conds(b, crs)
    # --- the flag: a local defined as `eq(parent, root())` / Eq
    flag_locals = set()
    for i, t in b.calls():
        f = t.get("f")
        if f and f["name"] == "eq" and len(t["args"]) == 2:
            a0, _ = q.origin_thru(b, t["args"][0], transparent=set())
            a1, _ = q.origin_thru(b, t["args"][1], transparent=set())
            if any(x["k"] == "call" and x["t"]["f"]["name"] == "root" for x in (a0, a1)):
                if "p" not in t["dest"]:
                    flag_locals.add(t["dest"]["l"])
                    # the other operand is the key of the requires_clauses entry
    ctx.ob(F, b.key, "is_explicit=(parent==root)", bool(flag_locals), b.loc(), "the explicit flag is computed by comparing the requiring solvable with VariableId::root()")
    # --- constructions of PossibleDecision
    aggs = [(i, j, s) for i, j, s in b.assigns() if s["r"]["k"] == "agg" and str(s["r"].get("adt", "")).endswith(PD)]
    ctx.floor(R, "PossibleDecision constructions", len(aggs), 1)
    for i, j, s in aggs:
        r = s["r"]
        ok = False
        for nm, o in zip(r.get("fields", []), r["ops"]):
            if nm == "is_explicit_requirement":
                p = operand_place(o)
                cur = p["l"] if p else None
                for _ in range(4):
                    if cur in flag_locals:
                        ok = True
                        break
                    ds = b.defs_of(cur) if cur is not None else []
                    if len(ds) == 1 and ds[0][1] != "term" and ds[0][2]["k"] == "use" and operand_place(ds[0][2]["o"]) is not None:
                        cur = operand_place(ds[0][2]["o"])["l"]
                    else:
                        break
        ctx.ob(F, b.key, "proposal-records-the-flag", ok, "%s:%s" % (b.file, s["line"]), "the proposal stores the explicit flag of the requirement it came from")
    # --- guards: switch on best.is_explicit_requirement (true) then on !is_explicit (i.e. flag false) -> continue
    guards = []          # (cond on best.is_explicit, cond on flag) pairs; the `skip` edge is (flag cond, False target)
    for c in cs:
        if c.kind == "bool" and c.src is not None and any(isinstance(e, dict) and e.get("n") == "is_explicit_requirement" for e in c.src.get("proj", [])):
            tr = c.target(True)
            # next cond on the flag
            for c2 in cs:
                if c2.kind == "bool" and c2.bb in b.reachable([tr]) and c2.src is not None:
                    l2 = None
                    if c2.src.get("k") == "call" and c2.src.get("l") in flag_locals:
                        l2 = c2.src.get("l")
                    p2 = operand_place(b.blocks[c2.bb]["term"]["d"])
                    d2 = b.origin(b.blocks[c2.bb]["term"]["d"])
                    if d2.get("k") == "call" and d2["t"]["f"]["name"] == "eq":
                        guards.append((c, c2))
    # direct detection: switches whose discriminant (through Not) is a flag local
    flag_conds = []
    for c in cs:
        if c.kind == "bool":
            d = b.origin(b.blocks[c.bb]["term"]["d"])
            if d["k"] == "call" and d.get("l") in flag_locals or (c.src and c.src.get("k") == "call" and c.src.get("l") in flag_locals):
                flag_conds.append(c)
    best_conds = [c for c in cs if c.kind == "bool" and c.src is not None and
                  any(isinstance(e, dict) and e.get("n") == "is_explicit_requirement" for e in c.src.get("proj", []))]
    ctx.floor(R, "tests of best.is_explicit_requirement", len(best_conds), 1)
    # skip edges: best explicit (true) && current not explicit (flag false)
    skip_edges = []
    for bc in best_conds:
        tr = bc.target(True)
        for fc in flag_conds:
            if fc.bb in b.reachable([tr]) and q.edge_dominates(b, bc.bb, tr, fc.bb):
                skip_edges.append((fc.bb, fc.target(False)))
    # replacement constructions: those dominated by the `Some(best)` edge of a match on best_decision
    repl = []
    for i, j, s in aggs:
        for c in cs:
            if c.kind == "discr" and c.adt == "std::option::Option" and c.src_place is not None and \
                    "PossibleDecision" in (c.src_place.get("ty") or b.local_ty(c.src_place["l"])):
                st = c.target("Some")
                # a construction that can be reached, within the same iteration, with an existing best proposal
                hd = [h for h, body, _ in b.loops() if i in body]
                if st is not None and (q.edge_dominates(b, c.bb, st, i) or i in b.reachable([st], avoid=hd)) and \
                        not any(x[0] == i for x in repl):
                    repl.append((i, s, c))
    ctx.floor(R, "replacement of an existing best proposal", len(repl), 1)
    outer = [l for l in for_loops(b, crs) if "requires_clauses" in loop_source_fields(b, l)]
    ctx.floor(R, "loop over requires_clauses", len(outer), 1)
    for i, s, c in repl:
        if not outer:
            break
        oh, obody, onbb, ost, ont, oc = outer[0]
        hdrs = [h for h, body, _ in b.loops() if i in body]
        # (1) every path, within one iteration of the loop over requiring solvables, from the start of the iteration to the
        #     replacement passes a test of `best.is_explicit_requirement` whose true side tests the current flag
        guards = [bc for bc in best_conds if any(fc.bb in b.reachable([bc.target(True)], avoid=hdrs) for fc in flag_conds)]
        # a guard wrapped in `if let Some(best) = &best_decision` is bypassed when there is no proposal yet at the start of the
        # iteration; from then on all proposals of this iteration share the iteration's flag, so that bypass is harmless: cut it
        cut = []
        for cN in cs:
            if cN.kind == "discr" and cN.adt == "std::option::Option" and cN.src_place is not None and \
                    "PossibleDecision" in (cN.src_place.get("ty") or b.local_ty(cN.src_place["l"])):
                stN, ntN = cN.target("Some"), cN.target("None")
                if stN is not None and ntN is not None and any(q.edge_dominates(b, cN.bb, stN, bc.bb) for bc in guards):
                    cut.append((cN.bb, ntN))
        seen_r = q.reach_cut(b, cut, start=ost)
        # reachability avoiding guards and the outer header, with the harmless bypass edges removed
        S = b.succs()
        avoid = set([bc.bb for bc in guards] + [oh])
        vis = {ost}
        stack = [ost]
        while stack:
            x = stack.pop()
            for y in S[x]:
                if (x, y) in cut or y in avoid or y in vis:
                    continue
                vis.add(y)
                stack.append(y)
        passes_guard = bool(guards) and i not in vis
        # (2) on the side `best explicit && current not explicit` the replacement is not reachable in this iteration
        rel = []
        for bc in guards:
            for fc in flag_conds:
                if fc.bb in b.reachable([bc.target(True)], avoid=hdrs) and q.edge_dominates(b, bc.bb, bc.target(True), fc.bb):
                    rel.append((fc.bb, fc.target(False)))
        skipped = bool(rel) and all(t is not None and i not in b.reachable([t], avoid=hdrs) for sb, t in rel)
        ctx.ob(R, b.key, "explicit-best-is-never-replaced-by-non-explicit", passes_guard and skipped, "%s:%s" % (b.file, s["line"]),
               "every path to a replacement of the best proposal passes `best.is_explicit && !is_explicit`, whose true side skips the requirement")
    # --- which requiring solvables are considered at all: between the start of an iteration over requires_clauses and the
    #     walk over that solvable's requirements, the only tests are on the best proposal, on the explicit flag and on the trail
    #     (is the solvable installed); a test on any other solver state could hide an open root requirement from decide()
    if outer:
        oh, obody, onbb, ost, ont, oc = outer[0]
        inner_loops = [l for l in for_loops(b, crs) if l[0] != oh and l[0] in obody]
        if inner_loops:
            first_inner = min(inner_loops, key=lambda l: l[0])
            W = first_inner[0]
            pre = b.reachable([ost], avoid=[W, oh])
            nested = set()
            for l in inner_loops:
                nested |= set(l[1])
            n = 0
            for c in cs:
                if c.bb not in pre or c.bb in nested or c.bb == oh:
                    continue
                if c in best_conds or (c.kind == "discr" and c.src_place is not None and
                                       "PossibleDecision" in (c.src_place.get("ty") or b.local_ty(c.src_place["l"]))):
                    continue
                # the same question asked through an Option combinator on the best proposal (`best.as_ref().is_some_and(|b| b.is_explicit..)`)
                if c.kind == "bool" and c.src and c.src.get("k") == "call" and c.src["t"].get("f") and \
                        c.src["t"]["f"]["name"] in ("is_some_and", "is_some", "is_none", "is_none_or", "map_or") and c.src["t"]["args"]:
                    a0 = operand_place(c.src["t"]["args"][0])
                    if a0 is not None and "PossibleDecision" in b.local_ty(a0["l"]):
                        continue
                lv = q.leaves(b, b.blocks[c.bb]["term"]["d"])
                flds = {x[6:] for x in lv if x.startswith("field:")}
                bad = sorted(f for f in flds if f.split(".")[-1] not in ("requires_clauses", "decision_tracker"))
                unk = sorted(x for x in lv if x.startswith("unknown:"))
                n += 1
                ctx.ob(R, b.key, "requirement-skipped-only-by-trail-or-flag#%d" % n, not bad and not unk, where_call(b, c.bb),
                       "a requiring solvable is passed over only because of the explicit flag, the best proposal or its assignment "
                       "(reads: %s)" % ", ".join(sorted(flds) + unk))
            ctx.floor(R, "tests before a solvable's requirements are walked", n, 2)
    # early skip at the top of the outer loop (optimisation) must use the same two values
    ctx.count("flag_tests", len(flag_conds))
