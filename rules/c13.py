"""C13 - a solver can be reused (structural clause).

  state-reset        Solver::solve stores SolverState::default() into self.state before anything else
  field-writes       no field of Solver other than `state` is written or mutably borrowed after construction
                     (the cache persists; nothing per-solve lives outside `state`)
  cancel-safety      T-SUSP c: every manual acquire in a RefCell-held map of SolverCache that is followed by a
                     suspension point before its release is covered by a drop guard that performs the release
                     (a dropped future runs only destructors)
  availability       are_dependencies_available_for answers from the dependencies map / hint bits only (shared with C09/C20)

Added after the second and third seeding rounds:
  new-solvables  (shared with C09) per-solve bookkeeping, not the persistent cache, decides what still has to be encoded

Added after the fifth seeding round:
  core           all rules of C01 and C02 (rules/core.py): a reused solver drives the core into states a fresh one never sees
                 (eager encoding of undecided solvables through cached dependencies), so their slips show only here (C13-13, C13-14)
  memoisation/table-written-only-by-its-fetch-function  nothing but the provider's answer enters the persistent tables (C13-15)
"""
from common import *
import q, mech


def run(ctx):
    ctx.explanation = (
        "Static clause of C13: (1) solve() overwrites self.state with SolverState::default() and that store dominates every "
        "other action of solve; (2) who-may-write census over Solver's fields: only `state` is ever written/mutably borrowed "
        "outside constructors, so per-solve data cannot leak through another field and the cache is never reset; (3) "
        "cancellation safety of manual acquire/release pairs across suspension points in SolverCache coroutines: on the "
        "Yield's drop edge only destructors run, so a release after the await must be backed by a live guard local whose Drop "
        "impl performs the same release; (4) the availability query reads only the dependencies map and hint bits. Equality "
        "of later verdicts with a fresh solver is NOT decided.")
    ctx.assumptions += ["dropping a suspended future runs exactly the destructors of its live locals (Rust semantics)"]
    for cfg in (["cfgA"] if ctx.tier == "quick" else ["cfgA", "cfgC"]):
        tag = "" if cfg == "cfgA" else "@" + cfg
        crate = lib(ctx, cfg)
        crs = crates(ctx, cfg)
        ctx.count("functions_analysed", len(crate.bodies))
        state_reset(ctx, crate, tag)
        field_writes(ctx, crate, tag)
        mech.cancel_safety(ctx, crate, crs, tag)
        mech.availability_query(ctx, "availability", crate, crs, tag)
        # "provider metadata obtained by earlier calls is not requested again"
        mech.memo_check(ctx, "memoisation", crate, crs, tag)
        mech.choke_points(ctx, "choke-points", crate, tag)
        solve_is_exclusive(ctx, crate, tag)
        # per-solve bookkeeping is consulted, not the persistent cache, when deciding what still has to be encoded
        import c09
        ctx.guard("new-solvables" + tag, c09.new_solvables, ctx, crate, crs, tag)
        ctx.guard("cache-persists" + tag, cache_is_created_once, ctx, crate, crs, tag)
        # a Cancelled outcome must not leave a wrong answer behind in the persistent cache: the cancellation error of a
        # sub-query is propagated, never turned into an (empty) list that is then stored (rule of C12, cache only)
        import core
        ctx.guard("core" + tag, core.soundness, ctx, crate, crs, tag)      # see rules/core.py
        import c04
        ctx.guard("guarded-index" + tag, c04.guarded_index, ctx, crate, crs, tag)     # a panic under one completion order / on a warm solver is not "the same verdict"
        import c12
        ctx.guard("result-must-use" + tag, c12.results_used, ctx, crate, tag, ("resolvo::solver::cache::",), 0)


def state_reset(ctx, crate, tag):
    b = body_by_key(crate, SOLVER + "solve")
    if b is None:
        ctx.ob("state-reset" + tag, SOLVER + "solve", "anchor", False, "", "Solver::solve not found")
        return
    store = None
    for i, j, s in b.assigns():
        fs = [(e.get("of"), e.get("n")) for e in s["p"].get("p", []) if isinstance(e, dict) and "f" in e]
        if fs == [(SOLVER_ADT, "state")]:
            d, chain = q.origin_thru(b, s["r"]["o"], transparent=set()) if s["r"]["k"] == "use" else ({"k": "?"}, [])
            if d["k"] == "call" and d["t"].get("f") and "std::default::Default::default" in callee_keys(d["t"]["f"]) \
                    and "SolverState" in (d["t"]["f"].get("self_ty") or d["t"]["f"].get("resolved", "")):
                store = (i, j, d["bb"])
    ctx.ob("state-reset" + tag, b.key, "state = SolverState::default()", store is not None, b.loc(),
           "solve() re-initialises the per-solve state")
    if store is None:
        return
    si, sj, defbb = store
    # the store dominates every call of solve except the Default::default call itself and the drop of the old state
    bad = []
    for i, t in b.calls():
        if i == defbb or t.get("exp"):
            continue
        if not b.dominates(si, i) or i == si and False:
            bad.append(i)
        elif i == si:
            bad.append(i) if False else None
    # statements before the store in its own block / calls in dominating blocks other than default
    for i, t in b.calls():
        if i != defbb and i != si and b.dominates(i, si):
            bad.append(i)
    ctx.ob("state-reset" + tag, b.key, "reset-is-first", not bad, b.loc(si),
           "no call of solve() runs before the state is reset" if not bad else
           "call at %s is not preceded by the state reset" % b.loc(bad[0]))


def field_writes(ctx, crate, tag):
    """Assignments / mutable borrows whose place passes through a field of Solver."""
    n_state = 0
    for b in crate.bodies:
        for i, j, s in b.assigns():
            places = [("assign", s["p"])]
            r = s["r"]
            if r["k"] == "ref" and r["bk"] == "mut":
                places.append(("&mut", r["p"]))
            if r["k"] == "rawptr" and "Mut" in r["m"]:
                places.append(("&raw mut", r["p"]))
            for how, p in places:
                for e in p.get("p", []):
                    if isinstance(e, dict) and e.get("of") == SOLVER_ADT and "f" in e:
                        if e.get("n") == "state":
                            n_state += 1
                        else:
                            # a by-value rebuild (`Solver { ..self }`) is an aggregate, not a place write
                            ctx.ob("field-writes" + tag, b.key, "%s Solver.%s" % (how, e.get("n")), False,
                                   "%s:%s" % (b.file, s["line"]),
                                   "field of Solver other than `state` is written/mutably borrowed: persists across solves")
        # closures capturing a Solver field mutably
        for u in (b.d.get("upvars") or []):
            nm = u["name"]
            if (u["by"].startswith("ref:Mut") or u["by"].startswith("ref:Unique")) and \
                    (nm.startswith("self.cache") or nm.startswith("*self.cache") or ".cache" in nm.split("state")[0]) \
                    and b.root and strip_generics(b.root).startswith(SOLVER):
                ctx.ob("field-writes" + tag, b.key, "closure captures %s mutably" % nm, False, b.loc(),
                       "solver cache captured mutably")
    ctx.count("mutable_accesses_through_Solver.state", n_state)
    ctx.ob("field-writes" + tag, SOLVER_ADT, "only-state-is-mutated", True, "",
           "%d mutable accesses go through Solver.state; none through another field" % n_state)
    ctx.floor("field-writes" + tag, "mutable accesses through Solver.state", n_state, 14)
    # type facts: fields of Solver
    a = crate.adts.get(SOLVER_ADT)
    if a:
        names = [f["name"] for f in a["variants"][0]["fields"]]
        ctx.notes.append("Solver fields: %s" % names)


def cache_is_created_once(ctx, crate, crs, tag):
    """The memo tables live as long as the solver: SolverCache::new is called where a Solver (or a snapshot capture) is created and
    nowhere else, and a builder that rebuilds the Solver by value (`with_runtime`) carries `self.cache` over unchanged (seed
    C13-17: with_runtime rebuilt the cache around the provider - everything is requested again by the next solve)."""
    import mech
    R = "cache-persists" + tag
    mech.callers_exact(ctx, "cache-persists", crate, CACHE + "new",
                       {SOLVER + "new", "resolvo::snapshot::DependencySnapshot::from_provider_async"}, tag, 1)
    n = 0
    for b in crate.bodies:
        if not b.key.startswith(SOLVER) or b.kind not in ("Fn", "AssocFn"):
            continue
        sig = b.d.get("sig") or {}
        ins = sig.get("inputs") or []
        if not ins or not ins[0].startswith(SOLVER_ADT) or not str(sig.get("output", "")).startswith(SOLVER_ADT):
            continue
        for i, j, s_ in b.assigns():
            r = s_["r"]
            if r["k"] != "agg" or r.get("adt") != SOLVER_ADT:
                continue
            a = crate.adts.get(SOLVER_ADT)
            names = [f["name"] for f in a["variants"][0]["fields"]]
            for fi, o in enumerate(r["ops"]):
                fname = (r["fields"][fi] if r.get("fields") else names[fi])
                fname = names[int(fname)] if str(fname).isdigit() else fname
                if fname != "cache":
                    continue
                n += 1
                d = b.origin(o)
                kept = d.get("k") == "arg" and d.get("l") == 1 and [e.get("n") for e in d.get("proj", []) if isinstance(e, dict) and "f" in e] == ["cache"]
                ctx.ob(R, b.key, "builder-keeps-the-cache", kept, b.loc(),
                       "the Solver returned by this builder holds self.cache itself (what earlier solves fetched is not requested again)")
    ctx.floor(R, "by-value builders of Solver", n, 1)


def solve_is_exclusive(ctx, crate, tag):
    b = body_by_key(crate, SOLVER + "solve")
    if b is None:
        return
    recv = (b.d.get("sig", {}).get("inputs") or ["?"])[0]
    ctx.ob("state-reset" + tag, b.key, "solve(&mut self)", recv.startswith("&mut "), b.loc(),
           "solve takes the solver exclusively: %s" % recv[:50])
