"""C13 - a solver can be reused (structural clause).

  state-reset        Solver::solve stores SolverState::default() into self.state before anything else
  field-writes       no field of Solver other than `state` is written or mutably borrowed after construction
                     (the cache persists; nothing per-solve lives outside `state`)
  cancel-safety      T-SUSP c: every manual acquire in a RefCell-held map of SolverCache that is followed by a
                     suspension point before its release is covered by a drop guard that performs the release
                     (a dropped future runs only destructors)
  availability       are_dependencies_available_for answers from the dependencies map / hint bits only (shared with C09/C20)
"""
from common import *
import q, mech


def run(ctx):
    ctx.explanation = (
        "Static clause of C13: (1) solve() overwrites self.state with SolverState::default() and that store dominates every "
        "other action of solve; (2) who-may-write census over Solver's fields: only `state` is ever written/mutably borrowed "
        "outside constructors, so per-solve data cannot leak through another field and the cache is never reset; (3) "
        "cancellation safety of manual acquire/release pairs across suspension points in SolverCache coroutines: on the "
        "Yield's drop edge only destructors run, so a release after the await must be backed by a live guard local whose Drop "
        "impl performs the same release; (4) the availability query reads only the dependencies map and hint bits. Equality "
        "of later verdicts with a fresh solver is NOT decided.")
    ctx.assumptions += ["dropping a suspended future runs exactly the destructors of its live locals (Rust semantics)"]
    for cfg in (["cfgA"] if ctx.tier == "quick" else ["cfgA", "cfgC"]):
        tag = "" if cfg == "cfgA" else "@" + cfg
        crate = lib(ctx, cfg)
        crs = crates(ctx, cfg)
        ctx.count("functions_analysed", len(crate.bodies))
        state_reset(ctx, crate, tag)
        field_writes(ctx, crate, tag)
        cancel_safety(ctx, crate, crs, tag)
        mech.availability_query(ctx, "availability", crate, crs, tag)
        solve_is_exclusive(ctx, crate, tag)


def state_reset(ctx, crate, tag):
    b = body_by_key(crate, SOLVER + "solve")
    if b is None:
        ctx.ob("state-reset" + tag, SOLVER + "solve", "anchor", False, "", "Solver::solve not found")
        return
    store = None
    for i, j, s in b.assigns():
        fs = [(e.get("of"), e.get("n")) for e in s["p"].get("p", []) if isinstance(e, dict) and "f" in e]
        if fs == [(SOLVER_ADT, "state")]:
            d, chain = q.origin_thru(b, s["r"]["o"], transparent=set()) if s["r"]["k"] == "use" else ({"k": "?"}, [])
            if d["k"] == "call" and d["t"].get("f") and "std::default::Default::default" in callee_keys(d["t"]["f"]) \
                    and "SolverState" in (d["t"]["f"].get("self_ty") or d["t"]["f"].get("resolved", "")):
                store = (i, j, d["bb"])
    ctx.ob("state-reset" + tag, b.key, "state = SolverState::default()", store is not None, b.loc(),
           "solve() re-initialises the per-solve state")
    if store is None:
        return
    si, sj, defbb = store
    # the store dominates every call of solve except the Default::default call itself and the drop of the old state
    bad = []
    for i, t in b.calls():
        if i == defbb or t.get("exp"):
            continue
        if not b.dominates(si, i) or i == si and False:
            bad.append(i)
        elif i == si:
            bad.append(i) if False else None
    # statements before the store in its own block / calls in dominating blocks other than default
    for i, t in b.calls():
        if i != defbb and i != si and b.dominates(i, si):
            bad.append(i)
    ctx.ob("state-reset" + tag, b.key, "reset-is-first", not bad, b.loc(si),
           "no call of solve() runs before the state is reset" if not bad else
           "call at %s is not preceded by the state reset" % b.loc(bad[0]))


def field_writes(ctx, crate, tag):
    """Assignments / mutable borrows whose place passes through a field of Solver."""
    n_state = 0
    for b in crate.bodies:
        for i, j, s in b.assigns():
            places = [("assign", s["p"])]
            r = s["r"]
            if r["k"] == "ref" and r["bk"] == "mut":
                places.append(("&mut", r["p"]))
            if r["k"] == "rawptr" and "Mut" in r["m"]:
                places.append(("&raw mut", r["p"]))
            for how, p in places:
                for e in p.get("p", []):
                    if isinstance(e, dict) and e.get("of") == SOLVER_ADT and "f" in e:
                        if e.get("n") == "state":
                            n_state += 1
                        else:
                            # a by-value rebuild (`Solver { ..self }`) is an aggregate, not a place write
                            ctx.ob("field-writes" + tag, b.key, "%s Solver.%s" % (how, e.get("n")), False,
                                   "%s:%s" % (b.file, s["line"]),
                                   "field of Solver other than `state` is written/mutably borrowed: persists across solves")
        # closures capturing a Solver field mutably
        for u in (b.d.get("upvars") or []):
            nm = u["name"]
            if (u["by"].startswith("ref:Mut") or u["by"].startswith("ref:Unique")) and \
                    (nm.startswith("self.cache") or nm.startswith("*self.cache") or ".cache" in nm.split("state")[0]) \
                    and b.root and strip_generics(b.root).startswith(SOLVER):
                ctx.ob("field-writes" + tag, b.key, "closure captures %s mutably" % nm, False, b.loc(),
                       "solver cache captured mutably")
    ctx.count("mutable_accesses_through_Solver.state", n_state)
    ctx.ob("field-writes" + tag, SOLVER_ADT, "only-state-is-mutated", True, "",
           "%d mutable accesses go through Solver.state; none through another field" % n_state)
    ctx.floor("field-writes" + tag, "mutable accesses through Solver.state", n_state, 20)
    # type facts: fields of Solver
    a = crate.adts.get(SOLVER_ADT)
    if a:
        names = [f["name"] for f in a["variants"][0]["fields"]]
        ctx.notes.append("Solver fields: %s" % names)


def cancel_safety(ctx, crate, crs, tag):
    """Acquire = HashMap::insert into a RefCell<HashMap> field of SolverCache inside a coroutine;
    release = HashMap::remove on the same field."""
    cache = crate.adts.get(CACHE_ADT)
    fields = [f["name"] for f in cache["variants"][0]["fields"]
              if f["ty"].startswith("std::cell::RefCell<std::collections::HashMap<")] if cache else []
    ctx.floor("cancel-safety" + tag, "RefCell<HashMap> fields of SolverCache", len(fields), 1)
    n_acq = 0
    for b in crate.bodies:
        if not b.coroutine or not b.key.startswith("resolvo::solver::"):
            continue
        for F in fields:
            acqs = q.calls_on_field(b, "std::collections::HashMap::insert", CACHE_ADT, F)
            rels = [i for i, _ in q.calls_on_field(b, "std::collections::HashMap::remove", CACHE_ADT, F)]
            for ai, at in acqs:
                n_acq += 1
                held = b.reachable_after(ai, avoid=rels)
                ys = sorted(y for y in b.yields() if y in held)
                if not ys:
                    ctx.ob("cancel-safety" + tag, b.key, "acquire:%s" % F, True, where_call(b, ai),
                           "no suspension point while the entry is held")
                    continue
                guards = drop_guards(crate, b, F)
                uncovered = []
                for y in ys:
                    if not any(guard_live_at(b, gl, gdef, y, ai) for gl, gdef in guards):
                        uncovered.append(y)
                ctx.ob("cancel-safety" + tag, b.key, "acquire:%s" % F, not uncovered, where_call(b, ai),
                       ("entry held across %d suspension point(s); a guard whose Drop removes it is live at each" % len(ys))
                       if not uncovered else
                       "entry is held across the .await at %s and released only by code after it: a dropped "
                       "(cancelled) future leaves the entry behind" % b.loc(uncovered[0]))
    ctx.floor("cancel-safety" + tag, "manual acquire sites in SolverCache coroutines", n_acq, 1)


def drop_guards(crate, b, field):
    """Locals of b whose type is a crate ADT with a Drop impl that removes from `field`
    (the guard holds a reference to the RefCell; matched by type of that reference's origin)."""
    out = []
    for li, l in enumerate(b.locals):
        adt = q.adt_of_type(l["ty"])
        if adt not in crate.adts:
            continue
        db = None
        for c in crate.bodies:
            if c.d.get("impl_trait") == "std::ops::Drop" and c.d.get("impl_adt") == adt:
                db = c
        if db is None:
            continue
        removes = db.calls_to("std::collections::HashMap::remove")
        if not removes:
            continue
        # the guard aggregate in b must be built from a reference to CACHE.field
        for i, j, s in b.assigns():
            if s["p"]["l"] == li and "p" not in s["p"] and s["r"]["k"] == "agg" and s["r"].get("adt") == adt:
                for o in s["r"]["ops"]:
                    d, _ = q.origin_thru(b, o)
                    if q.mentions_field(d, CACHE_ADT, field):
                        # does the Drop impl also notify waiters?
                        out.append((li, i))
    return out


def guard_live_at(b, gl, gdef, y, acquire_bb):
    """Guard local gl (defined in block gdef) is live at yield y: gdef dominates y and no drop/move of gl
    lies on a path from gdef to y."""
    if not b.dominates(gdef, y):
        return False
    kills = set()
    for i, t in b.terms("drop"):
        if t["p"]["l"] == gl and "p" not in t["p"]:
            kills.add(i)
    for i, j, s in b.assigns():
        r = s["r"]
        if r["k"] == "use" and r["o"].get("k") == "move" and r["o"]["p"]["l"] == gl:
            kills.add(i)
    for i, t in b.calls():
        for a in t["args"]:
            if a.get("k") == "move" and a["p"]["l"] == gl and "p" not in a["p"]:
                kills.add(i)      # e.g. mem::forget(guard) / drop(guard)
    live = b.reachable_after(gdef, avoid=kills) | {gdef}
    if y not in live:
        return False
    # no yield between the acquire and the guard's creation (the entry would be unprotected there)
    mid = q.between(b, [acquire_bb], gdef)
    return not any(b.blocks[m]["term"]["k"] == "yield" for m in mid)


def solve_is_exclusive(ctx, crate, tag):
    b = body_by_key(crate, SOLVER + "solve")
    if b is None:
        return
    recv = (b.d.get("sig", {}).get("inputs") or ["?"])[0]
    ctx.ob("state-reset" + tag, b.key, "solve(&mut self)", recv.startswith("&mut "), b.loc(),
           "solve takes the solver exclusively: %s" % recv[:50])
