"""C11 - independent metadata requests are issued concurrently.

  no-await-in-loop    in coroutines of solver::encoding / solver::cache no Yield lies inside a user loop
                      (only inside the await's own poll loop); one frozen join point: encode's drain loop,
                      which must await StreamExt::next on the FuturesUnordered field
  queue-before-suspend the TaskResult consumers and the queue_* functions are not coroutines, do not block on
                      futures, and never create cache futures outside the four queued async blocks
  join-fanout         per-version-set fetches of a requirement/union go through try_join_all
  push-pairing        every async block created by a queue_* function is pushed to pending_futures
  drain-type          pending_futures is a FuturesUnordered

Added after the second and third seeding rounds:
  queued-in-consumer   everything a received Dependencies value implies is queued by the consumer itself, on every path, and the
                       queue_* functions are called from nowhere else
"""
from common import *
import q, mech

ASYNC_CACHE_FNS = ["get_or_cache_candidates", "get_or_cache_dependencies", "get_or_cache_matching_candidates",
                   "get_or_cache_non_matching_candidates", "get_or_cache_sorted_candidates",
                   "get_or_cache_sorted_candidates_for_version_set"]
BLOCKING = ["futures::FutureExt::now_or_never", "resolvo::runtime::AsyncRuntime::block_on",
            "futures::executor::block_on", "tokio::runtime::Runtime::block_on", "async_std::task::block_on"]


def run(ctx):
    ctx.explanation = (
        "Static clause of C11 over the pre-transform coroutine MIR (Yield terminators present): no suspension point inside "
        "a user loop on the solver path except the single drain loop over the FuturesUnordered; consumers/queueing functions "
        "cannot suspend or block and do not create cache futures themselves; fan-out over version sets uses try_join_all; "
        "every queued async block reaches FuturesUnordered::push. Together: everything implied by a received Dependencies "
        "value is queued before control returns to the only suspension point of the encoder. Structural by nature; no "
        "timing is measured.")
    ctx.assumptions += ["FuturesUnordered and try_join_all poll all their members when polled (futures crate)"]
    for cfg in (["cfgA"] if ctx.tier == "quick" else ["cfgA", "cfgC"]):
        tag = "" if cfg == "cfgA" else "@" + cfg
        crate = lib(ctx, cfg)
        crs = crates(ctx, cfg)
        ctx.count("functions_analysed", len(crate.bodies))
        no_await_in_loop(ctx, crate, tag)
        queue_before_suspend(ctx, crate, tag)
        join_fanout(ctx, crate, tag)
        push_pairing(ctx, crate, tag)
        drain_type(ctx, crate, tag)
        ctx.guard("queued-in-consumer" + tag, queued_in_consumer, ctx, crate, crs, tag)
        ctx.guard("one-encode-per-round" + tag, one_encode_per_round, ctx, crate, tag)
        # nothing but the encoder's queued futures (and the cache itself) enters the cache's fetching entry points: a prefetch
        # issued from run_sat is a barrier in front of the queue (seed C11-16)
        import c09
        ctx.guard("causality" + tag, c09.causality, ctx, crate, tag)


def one_encode_per_round(ctx, crate, tag):
    """run_sat hands *all* solvables selected since the last round to one Encoder::encode future and blocks on it once per
    round of its main loop.  A block_on inside a nested loop (one encode per solvable) waits for the requests of one solvable
    before it issues those of the next."""
    R = "one-encode-per-round" + tag
    b = body_by_key(crate, SOLVER + "run_sat")
    if b is None:
        ctx.ob(R, SOLVER + "run_sat", "exists", False, "", "run_sat not found")
        return
    loops = b.loops()
    n = 0
    for i, t in b.calls():
        f = t.get("f")
        if f is None or f["name"] != "block_on":
            continue
        n += 1
        depth = sum(1 for h, body, back in loops if i in body)
        ctx.ob(R, b.key, "block_on-once-per-round", depth <= 1, where_call(b, i),
               "the encoder future is driven once per round of run_sat's main loop" if depth <= 1 else
               "block_on sits in a loop nested inside run_sat's main loop (depth %d): the requests of the solvables selected in one round are issued one solvable after the other" % depth)
    ctx.floor(R, "block_on calls in run_sat", n, 1)


def solver_coroutines(crate):
    return [b for b in crate.bodies if b.coroutine and
            (b.key.startswith("resolvo::solver::encoding::") or b.key.startswith("resolvo::solver::cache::"))]


def no_await_in_loop(ctx, crate, tag):
    cos = solver_coroutines(crate)
    ctx.floor("no-await-in-loop" + tag, "solver-path coroutines", len(cos), 8)
    n_y = 0
    for b in cos:
        loops = b.loops()
        for y in b.yields():
            n_y += 1
            ctx.count("suspension_points")
            user_loops = [(h, body) for h, body, _ in loops if y in body and not is_await_loop(b, body)]
            if not user_loops:
                ctx.ob("no-await-in-loop" + tag, b.key, "yield@%s" % _await_name(b, y), True, b.loc(y),
                       "suspension point is not inside any user loop")
                continue
            # frozen join point: encode's drain loop awaiting StreamExt::next(pending_futures)
            d, _ = awaited_origin(b, y)
            is_drain = False
            if b.key == ENC + "encode::{closure#0}" and d is not None and d["k"] == "call" and \
                    "futures::StreamExt::next" in callee_keys(d["t"]["f"]):
                r, _c = q.origin_thru(b, d["t"]["args"][0])
                if q.mentions_field(r, ENCODER_ADT, "pending_futures"):
                    is_drain = True
            ctx.ob("no-await-in-loop" + tag, b.key, "yield@%s" % _await_name(b, y), is_drain, b.loc(y),
                   "the only await inside a loop is the drain of pending_futures" if is_drain else
                   "an .await sits inside a loop: requests behind it are serialised")
    ctx.floor("no-await-in-loop" + tag, "suspension points on the solver path", n_y, 10)
    # the initial queueing loop of encode must not suspend (all explicit solvables are queued first)
    enc = body_by_key(crate, ENC + "encode", coroutine=True)
    if enc is not None:
        loops = enc.loops()
        for i, t in enc.calls_to(ENC + "queue_solvable"):
            bad = [y for h, body, _ in loops if i in body for y in enc.yields() if y in body]
            ctx.ob("no-await-in-loop" + tag, enc.key, "initial-queue-loop-has-no-yield", not bad, where_call(enc, i),
                   "all explicitly passed solvables are queued before the encoder first suspends")


def _await_name(b, y):
    d, _ = awaited_origin(b, y)
    if d is None:
        return "?"
    if d["k"] == "call" and d["t"].get("f"):
        return d["t"]["f"]["name"]
    return d["k"]


def queue_before_suspend(ctx, crate, tag):
    fns = ["on_task_result", "on_dependencies_available", "on_candidates_available",
           "on_requirement_candidates_available", "on_constraint_candidates_available",
           "queue_solvable", "queue_package", "queue_requirement", "queue_constraint",
           "add_exclusion_clause", "add_locked_package_clauses"]
    for fn in fns:
        b = body_by_key(crate, ENC + fn)
        if b is None:
            ctx.ob("queue-before-suspend" + tag, ENC + fn, "exists", False, "", "function not found")
            continue
        ok = not b.coroutine and not b.yields()
        ctx.ob("queue-before-suspend" + tag, b.key, "not-a-coroutine", ok, b.loc(),
               "consumer/queueing function cannot suspend")
        # no blocking on futures and no direct creation of cache futures in the synchronous part
        bodies = [b] + [c for c in crate.bodies if c.root and strip_generics(c.root) == ENC + fn and not c.coroutine
                        and not _inside_coroutine(crate, c)]
        for bb in bodies:
            for i, t in bb.calls():
                f = t.get("f")
                if f is None:
                    continue
                ks = callee_keys(f)
                if any(k in BLOCKING for k in ks):
                    ctx.ob("queue-before-suspend" + tag, b.key, "blocks-on-future", False, where_call(bb, i),
                           "synchronous encoder code blocks on a future (%s)" % ks[0])
                if any(k == CACHE + a for a in ASYNC_CACHE_FNS for k in ks):
                    ctx.ob("queue-before-suspend" + tag, b.key, "creates-cache-future", False, where_call(bb, i),
                           "cache future %s created outside a queued async block" % ks[0].split("::")[-1])
    # who creates cache futures in the encoder module: only the four async blocks
    n = 0
    for b in crate.bodies:
        if not b.key.startswith("resolvo::solver::encoding::"):
            continue
        for i, t in b.calls():
            f = t.get("f")
            if f and any(k == CACHE + a for a in ASYNC_CACHE_FNS for k in callee_keys(f)):
                n += 1
                root = q.enclosing_fn(crate, b)
                in_async_block = bool(b.coroutine) or _inside_coroutine(crate, b)
                ctx.ob("queue-before-suspend" + tag, root, "cache-future-in-async-block:%s" % f["name"],
                       in_async_block and root.split("::")[-1].startswith("queue_"), where_call(b, i),
                       "cache futures are created only inside the async blocks pushed by queue_*")
    ctx.floor("queue-before-suspend" + tag, "cache futures created by the encoder", n, 4)


def _inside_coroutine(crate, b):
    p = b.parent
    while p:
        pb = crate.by_path.get(p)
        if pb is None:
            return False
        if pb.coroutine:
            return True
        p = pb.parent
    return False


def join_fanout(ctx, crate, tag):
    target = CACHE + "get_or_cache_sorted_candidates_for_version_set"
    sites = q.callers_of(crate, target)
    n_join = 0
    for b, i, t in sites:
        root = q.enclosing_fn(crate, b)
        if root not in (ENC + "queue_requirement", CACHE + "get_or_cache_sorted_candidates"):
            continue
        # the call must sit in a closure (mapped over version sets) whose parent coroutine awaits a try_join_all
        parent = crate.by_path.get(b.parent) if b.parent else None
        ok = False
        why = "per-version-set fetch is not created inside a closure mapped into try_join_all"
        if b.kind == "Closure" and not b.coroutine and parent is not None:
            joins = parent.calls_to("futures::future::try_join_all")
            if joins:
                # closure value must flow into the try_join_all argument (through Iterator::map)
                ok = any(_closure_flows_to(parent, b.path, ji) for ji, _ in joins)
                if not ok:
                    why = "closure creating the fetch does not feed try_join_all"
        elif root == CACHE + "get_or_cache_sorted_candidates" and b.coroutine:
            # Requirement::Single arm: one version set, awaited directly (no fan-out needed)
            ok = True
            why = "single version set"
        if ok and b.kind == "Closure" and not b.coroutine:
            n_join += 1
        ctx.ob("join-fanout" + tag, root, "fetch-per-version-set", ok, where_call(b, i),
               "fetches for the version sets of one requirement are joined, not awaited one by one" if ok else why)
    ctx.floor("join-fanout" + tag, "try_join_all fan-outs", n_join, 2)


def _closure_flows_to(parent, closure_path, join_bb):
    # find the aggregate constructing the closure, then follow its local into call args until join_bb
    start = None
    for i, j, s in parent.assigns():
        r = s["r"]
        if r["k"] == "agg" and r.get("ak") == "closure" and r.get("def") == closure_path and "p" not in s["p"]:
            start = s["p"]["l"]
    if start is None:
        return False
    frontier = {start}
    for _ in range(10):
        new = set()
        for i, t in parent.calls():
            for a in t["args"]:
                p = operand_place(a)
                if p is not None and p["l"] in frontier:
                    if i == join_bb:
                        return True
                    if "p" not in t["dest"]:
                        new.add(t["dest"]["l"])
        for i, j, s in parent.assigns():
            r = s["r"]
            if r["k"] == "use":
                p = operand_place(r["o"])
                if p is not None and p["l"] in frontier and "p" not in s["p"]:
                    new.add(s["p"]["l"])
        if not new - frontier:
            break
        frontier |= new
    return False


def push_pairing(ctx, crate, tag):
    n = 0
    for fn in ("queue_solvable", "queue_package", "queue_requirement", "queue_constraint"):
        b = body_by_key(crate, ENC + fn)
        if b is None:
            continue
        aggs = [(i, s) for i, j, s in b.assigns() if s["r"]["k"] == "agg" and s["r"].get("ak") == "coroutine"]
        pushes = q.calls_on_field(b, "futures::stream::FuturesUnordered::push", ENCODER_ADT, "pending_futures")
        for i, s in aggs:
            n += 1
            ok = bool(pushes) and postdominated_modulo_errors(b, i, [pi for pi, _ in pushes]) if b.blocks[i]["term"]["k"] != "return" else False
            # the aggregate's block may itself contain the push call
            if not ok and any(pi == i for pi, _ in pushes):
                ok = True
            # the pushed value must be this async block (through boxed_local)
            flows = False
            for pi, pt in pushes:
                d, chain = q.origin_thru(b, pt["args"][1], transparent=q.TRANSPARENT | {"futures::FutureExt::boxed_local"})
                if d["k"] == "rvalue" and d["r"].get("ak") == "coroutine" and d["r"].get("def") == s["r"].get("def"):
                    flows = True
                elif d["k"] in ("multi", "undef") and "p" not in s["p"] and s["p"]["l"] in q.slice_locals(b, pt["args"][1]):
                    flows = True        # one of several async blocks joined by a match / if (each boxed), all of which are pushed
            ctx.ob("push-pairing" + tag, b.key, "async-block-is-pushed", ok and flows, "%s:%s" % (b.file, s["line"]),
                   "the request future is handed to pending_futures on every path, not awaited in place")
    ctx.floor("push-pairing" + tag, "async blocks created by queue_*", n, 4)


def drain_type(ctx, crate, tag):
    a = crate.adts.get(ENCODER_ADT)
    ok = False
    ty = "?"
    if a:
        for f in a["variants"][0]["fields"]:
            if f["name"] == "pending_futures":
                ty = f["ty"]
                ok = ty.startswith("futures::stream::FuturesUnordered<")
    ctx.ob("drain-type" + tag, ENCODER_ADT, "pending_futures", ok, "", "pending_futures: %s" % ty[:80])


class _DepsConsumerOnly:
    """Keeps the obligations of C01's encoding rule that concern the dependencies consumer's queueing."""
    def __init__(self, ctx):
        self._c = ctx

    def __getattr__(self, n):
        return getattr(self._c, n)

    def ob(self, rule, fn, inst, ok, where="", detail=""):
        if str(fn).endswith("on_dependencies_available") and str(inst).startswith("queue_"):
            self._c.ob(rule.replace("encoding", "queued-in-consumer"), fn, inst, ok, where, detail)

    def floor(self, rule, what, n, least, where=""):
        if "in the dependencies consumer" in what:
            self._c.floor(rule.replace("encoding", "queued-in-consumer"), what, n, least)


def queued_in_consumer(ctx, crate, crs, tag):
    """Everything a received Dependencies value implies is queued by the consumer itself (complete, unconditional loops over the
    requirements and the constrains), i.e. before control returns to the poll loop - not parked for a later round."""
    import c01, mech
    c01.encoding(_DepsConsumerOnly(ctx), crate, crs, tag)
    for callee in ("queue_package", "queue_requirement", "queue_constraint"):
        mech.callers_exact(ctx, "queued-in-consumer", crate, ENC + callee, {ENC + "on_dependencies_available"}, tag, 1)
