"""C01 - every returned solution satisfies all requirements, constraints and exclusions (structural clause).

  encoding      T-PAIR on the encoder's consumers: every requirement / constraint / package of a Dependencies value is
                queued (unconditionally, inside loops over requirements and constrains); Unknown dependencies get an
                exclusion clause; a locked package forbids every other candidate; every excluded candidate gets an
                exclusion clause; every candidate of a requirement goes through the at-most-one tracker of *its own*
                package; one Requires clause per requirement over all candidates; one Constrains clause per
                non-matching candidate
  registration  every Clauses::alloc is handed to the mechanism that propagates it (watches / negative assertions /
                learnt ids / requires_clauses / conflicting_clauses), keyed by the constructor that built it
  clause-shape  T-SIB: per Clause variant, the constructor's watch literals and try_fold_literals' literals agree in
                field and polarity; binary variants are exactly the unmovable ones; Excluded is asserted false
  extraction    the solution is exactly the decisions with value true whose variable is a solvable
  assertions    decide_assertions walks *all* negative assertions each round with value false; propagate runs both
                assertion passes before the watch loop

Added after the second and third seeding rounds:
  watch-list    (rules/wl.py) slot / literal agreement of the two-watched-literal lists: start_watching, cursor, next_node, next, update
  restart       every undo inside run_sat goes to the run's own starting level (shared with C14); D15 known finding: the conflict-driven
                backjump can go below it
  new-solvables what run_sat hands to the encoder (shared with C09): the run's solvable first, then every selected-but-unencoded
                solvable found on the whole trail
  soft-solvables-registered (shared with C15) a soft requirement's solvable is registered with its package's at-most-one tracker
                before it is installed (D11)
  encoding      + consumer totality: every path through on_dependencies_available reaches the three queueing loops (or the
                Unknown-dependencies exclusion)

Added after the sixth seeding round:
  encoding/marked-implies-queued  a solvable / package marked as encoded is queued for encoding on every path (C02-17)
  result-must-use / soft-loop     an interrupted or failed run is never presented as a solution (C15-12, C05-14)
"""
from common import *
import q, enc, mech
from enc import *
import wl


def restart_level(ctx, crate, crs, tag):
    """A restart after a lazily added clause conflicts with the partial solution undoes the *whole* run (to its starting level):
    every clause reported in that round - not only the first - may be violated by earlier decisions."""
    import c14
    c14.isolation(_Rename(ctx, "soft-isolation", "restart"), crate, crs, tag)


class _Rename:
    def __init__(self, ctx, a, b):
        self._c, self._a, self._b = ctx, a, b

    def __getattr__(self, n):
        return getattr(self._c, n)

    def ob(self, rule, *a, **k):
        self._c.ob(rule.replace(self._a, self._b), *a, **k)

    def floor(self, rule, *a, **k):
        self._c.floor(rule.replace(self._a, self._b), *a, **k)


def run(ctx):
    ctx.explanation = (
        "Static clause of C01 (necessary conditions; breaking any lets the solver accept assignments that violate a provider "
        "fact): encoding completeness of the four TaskResult consumers (loops over requirements/constrains/candidates/excluded "
        "whose bodies unconditionally reach the queue/alloc calls; at-most-one tracker keyed by the candidate's own package), "
        "registration of every allocated clause with the propagation machinery, sibling agreement of the three descriptions of "
        "each Clause variant (constructor watches / try_fold_literals / movability), negative assertions re-applied in full "
        "each propagation round, and solution extraction = true-valued solvable decisions. Does NOT decide that propagation, "
        "learning and backtracking compute a model of those clauses.")
    ctx.assumptions += ["the watch-list propagation, conflict analysis and backjumping are correct (value-level, C02's undecided half)",
                        "AtMostOnceTracker's arithmetic is correct (C15, not applicable here)"]
    for cfg in (["cfgA"] if ctx.tier == "quick" else ["cfgA", "cfgB", "cfgC"]):
        tag = "" if cfg == "cfgA" else "@" + cfg
        crate = lib(ctx, cfg)
        crs = crates(ctx, cfg)
        ctx.count("functions_analysed", len(crate.bodies))
        encoding(ctx, crate, crs, tag)
        registration(ctx, crate, crs, tag)
        clause_shape(ctx, crate, crs, tag)
        extraction(ctx, crate, crs, tag)
        assertions(ctx, crate, crs, tag)
        mech.drain_complete(ctx, "encoding", crate, crs, tag)
        ctx.guard("watch-list" + tag, wl.run, ctx, crate, crs, tag)
        ctx.guard("restart" + tag, restart_level, ctx, crate, crs, tag)
        import c09
        ctx.guard("new-solvables" + tag, c09.new_solvables, ctx, crate, crs, tag)  # every newly selected solvable gets encoded
        import c15
        ctx.guard("soft-solvables-registered" + tag, c15.soft_registered, ctx, crate, crs, tag)
        # the candidate lists the clauses are built from are the provider's (filter flag / map agreement, memoised under the right key)
        mech.memo_check(ctx, "candidate-lists", crate, crs, tag)
        mech.filter_siblings(ctx, crate, crs, tag, rule="candidate-lists")
        import c12, c14
        ctx.guard("result-must-use" + tag, c12.results_used, ctx, crate, tag)     # an interrupted run is never presented as a solution
        ctx.guard("soft-loop" + tag, c14.soft_loop, ctx, crate, crs, tag)


# ------------------------------------------------------------------------------------------------
def encoding(ctx, crate, crs, tag):
    R = "encoding" + tag
    # a solvable / package that is marked as encoded is queued for encoding on every path (and only then): the mark is what
    # run_sat trusts when it looks for selected solvables that still need clauses
    ctx.guard(R, mech.dedup_guard, ctx, "encoding", crate, crs, ENC + "queue_solvable", "clauses_added_for_solvable", tag)
    ctx.guard(R, mech.dedup_guard, ctx, "encoding", crate, crs, ENC + "queue_package", "clauses_added_for_package", tag)
    # ---- dependencies consumer
    b = body_by_key(crate, ENC + "on_dependencies_available")
    if b is None:
        ctx.ob(R, ENC + "on_dependencies_available", "exists", False, "", "consumer not found")
    else:
        cs = q.conds(b, crs)
        dep = [c for c in cs if c.kind == "discr" and c.adt == "resolvo::Dependencies"]
        ok_unknown = False
        for c in dep:
            ut = c.target("Unknown")
            for i, t in b.calls_to(ENC + "add_exclusion_clause"):
                if ut is not None and q.edge_dominates(b, c.bb, ut, i):
                    d, _ = q.origin_thru(b, t["args"][2])
                    same_solvable = b.origin(t["args"][1])["k"] in ("arg", "rvalue", "multi", "call") and \
                        any(isinstance(e, dict) and e.get("n") == "solvable_id" for e in b.origin(t["args"][1]).get("proj", []))
                    if any(isinstance(e, dict) and e.get("as") == "Unknown" for e in d.get("proj", [])) and same_solvable:
                        ok_unknown = True
        ctx.ob(R, b.key, "Unknown->exclusion", ok_unknown, b.loc(), "a solvable with Unknown dependencies is excluded with the provider's reason")
        for callee, srcs in (("queue_package", {"requirements", "constrains"}), ("queue_requirement", {"requirements"}),
                             ("queue_constraint", {"constrains"})):
            sites = b.calls_to(ENC + callee)
            ctx.floor(R, "%s call in the dependencies consumer" % callee, len(sites), 1)
            for i, t in sites:
                ok, loop = unconditional_in_loop(b, crs, i)
                flds = loop_source_fields(b, loop) if loop else set()
                ctx.ob(R, b.key, "%s:for-every-item" % callee, ok and srcs <= flds and visits_all(b, loop), where_call(b, i),
                       "%s runs for every element of a loop over %s (loop source fields: %s)" % (callee, sorted(srcs), sorted(flds & {"requirements", "constrains"})))
                if callee != "queue_package":
                    ctx.ob(R, b.key, "%s:passes-element-and-parent" % callee,
                           loop is not None and elem_of_loop(b, loop, t["args"][2]) and
                           any(isinstance(e, dict) and e.get("n") == "solvable_id" for e in b.origin(t["args"][1]).get("proj", [])),
                           where_call(b, i), "the queued item is the loop element and the parent is this task's solvable")
        # the consumer is total: every path to its return either excluded the solvable (Unknown dependencies) or went through
        # all three queueing loops - no early return that leaves a solvable marked as encoded without its clauses
        excl = [i for i, t in b.calls_to(ENC + "add_exclusion_clause")]
        rets = b.return_blocks()
        for callee in ("queue_package", "queue_requirement", "queue_constraint"):
            hs = []
            for i, t in b.calls_to(ENC + callee):
                ok_, loop = unconditional_in_loop(b, crs, i)
                if loop:
                    hs.append(loop[0])
            free = b.reachable(0, avoid=hs + excl)
            ctx.ob(R, b.key, "%s:on-every-path" % callee, bool(hs) and not any(r in free for r in rets), b.loc(),
                   "every path through the dependencies consumer reaches the %s loop (or the Unknown-dependencies exclusion)" % callee)
    # ---- candidates consumer
    b = body_by_key(crate, ENC + "on_candidates_available")
    if b is None:
        ctx.ob(R, ENC + "on_candidates_available", "exists", False, "", "consumer not found")
    else:
        # written against the consumer with the lock helper spliced in, so that it holds whether the helper exists or was inlined
        vb = view(crate, ENC + "on_candidates_available", [ENC + "add_locked_package_clauses"])
        vcs = q.conds(vb, crs)
        ok_lock = False
        for c in vcs:
            if c.kind == "discr" and c.src_place is not None and \
                    any(isinstance(e, dict) and e.get("n") == "locked" for e in c.src_place.get("p", [])):
                for i, t in vb.calls_to(WLP + "lock"):
                    if q.edge_dominates(vb, c.bb, c.target("Some"), i):
                        lps = [l for l in for_loops(vb, crs) if i in l[1]]
                        d0, _ = q.origin_thru(vb, t["args"][0], transparent=set())
                        from_locked = False
                        if d0["k"] == "call" and d0["t"]["f"]["name"] == "intern_solvable":
                            d1, _ = q.origin_thru(vb, d0["t"]["args"][1], transparent=set())
                            from_locked = any(isinstance(e, dict) and e.get("n") == "locked" for e in d1.get("proj", [])) and \
                                any(isinstance(e, dict) and e.get("as") == "Some" for e in d1.get("proj", []))
                        if lps and "candidates" in loop_source_fields(vb, lps[0]) and visits_all_except_equal(vb, crate, lps[0]) and from_locked:
                            ok_lock = True
        ctx.ob(R, b.key, "locked->lock-clauses", ok_lock, b.loc(),
               "a locked package forbids the other candidates of the full candidate list")
        ex = b.calls_to(ENC + "add_exclusion_clause")
        ctx.floor(R, "exclusion call in the candidates consumer", len(ex), 1)
        for i, t in ex:
            ok, loop = unconditional_in_loop(b, crs, i)
            flds = loop_source_fields(b, loop) if loop else set()
            ctx.ob(R, b.key, "excluded:for-every-item", ok and "excluded" in flds and elem_of_loop(b, loop, t["args"][1]) and visits_all(b, loop),
                   where_call(b, i), "every provider-excluded candidate gets an exclusion clause")
    # ---- lock clauses
    b = body_by_key(crate, ENC + "add_locked_package_clauses")
    if b is None:
        ctx.ob(R, ENC + "add_locked_package_clauses", "exists", False, "", "not found")
    else:
        cs = q.conds(b, crs)
        skips = []
        for c in cs:
            if c.kind in ("bool", "cmp") and c.src and c.src.get("k") == "call" and c.src["t"]["f"]["name"] == "eq":
                a0, _ = q.origin_thru(b, c.src["t"]["args"][0])
                a1, _ = q.origin_thru(b, c.src["t"]["args"][1])
                if {a0["k"], a1["k"]} & {"arg"}:
                    skips.append((c.bb, c.target(True)))
            if c.kind == "cmp" and c.op == "Eq":
                skips.append((c.bb, c.target(True)))
        for i, t in b.calls_to(WLP + "lock"):
            ok, loop = unconditional_in_loop(b, crs, i, allowed_skip_edges=skips)
            ok_noskip, _ = unconditional_in_loop(b, crs, i)
            ctx.ob(R, b.key, "lock:for-every-other-candidate", ok and loop is not None and visits_all_except_equal(b, crate, loop) and
                   elem_of_loop(b, loop, b.calls_to(VMAP + "intern_solvable")[-1][1]["args"][1]), where_call(b, i),
                   "a Lock clause is created for every candidate; the only skip is equality with the locked one")
            # first argument is the locked solvable's variable, second the loop candidate's
            d0 = b.origin(t["args"][0])
            d1 = b.origin(t["args"][1])
            okargs = d0["k"] == "call" and d1["k"] == "call" and d0["bb"] != d1["bb"] and \
                b.origin(d0["t"]["args"][1])["k"] == "arg" and elem_of_loop(b, loop, d1["t"]["args"][1]) if loop else False
            ctx.ob(R, b.key, "lock(locked,other)", bool(okargs), where_call(b, i), "Lock(locked, other): other is the loop candidate")
        ctx.floor(R, "WatchedLiterals::lock call", len(b.calls_to(WLP + "lock")), 1)
    # ---- requirement consumer
    b = body_by_key(crate, ENC + "on_requirement_candidates_available")
    if b is None:
        ctx.ob(R, ENC + "on_requirement_candidates_available", "exists", False, "", "consumer not found")
    else:
        # (evaluated on the consumer with the shared registration routine spliced in)
        b_plain = b
        b = view(crate, ENC + "on_requirement_candidates_available", [AFMC])
        adds = b.calls_to("resolvo::solver::binary_encoding::AtMostOnceTracker::add")
        ctx.floor(R, "AtMostOnceTracker::add call", len(adds), 1)
        for i, t in adds:
            ok, loop = unconditional_in_loop(b, crs, i)
            flds = loop_source_fields(b, loop) if loop else set()
            ctx.ob(R, b.key, "at-most-one:for-every-candidate", ok and "candidates" in flds, where_call(b, i),
                   "every candidate of the requirement is registered with an at-most-one tracker")
            # tracker = forbidden_clauses_added[solvable_name(candidate)]
            d, ch = q.origin_thru(b, t["args"][0], transparent=q.TRANSPARENT | {"std::collections::hash_map::Entry::or_default"})
            okk = False
            if d["k"] == "call" and d["t"]["f"]["name"] == "entry":
                r, _ = q.origin_thru(b, d["t"]["args"][0])
                kd, _ = q.origin_thru(b, d["t"]["args"][1], transparent=set())
                if q.mentions_field(r, STATE_ADT, "forbidden_clauses_added") and kd["k"] == "call" and \
                        kd["t"]["f"]["name"] == "solvable_name" and loop is not None and elem_of_loop(b, loop, kd["t"]["args"][1]):
                    okk = True
            ctx.ob(R, b.key, "at-most-one:keyed-by-candidate-package", okk, where_call(b, i),
                   "the tracker is the one of solvable_name(candidate) for the candidate of this iteration")
            ctx.ob(R, b.key, "at-most-one:adds-candidate-variable", loop is not None and elem_of_loop(b, loop, t["args"][1]),
                   where_call(b, i), "the variable registered is the candidate's")
        reqs = b.calls_to(WLP + "requires")
        ctx.floor(R, "WatchedLiterals::requires call", len(reqs), 1)
        for i, t in reqs:
            pd = b.postdominators()
            every = i in pd.get(0, set())
            d, ch = q.origin_thru(b, t["args"][2], transparent=q.TRANSPARENT | {"std::iter::Iterator::copied", "std::iter::Iterator::flatten",
                                                                             "bitvec::macros::internal::core::slice::iter"})
            # candidates = version_set_variables (all of them, flattened)
            allc = "std::iter::Iterator::flatten" in ch and d["k"] == "call" and d["t"]["f"]["name"] == "collect"
            par = b.origin(t["args"][0])
            okpar = par["k"] == "call" and par["t"]["f"]["name"] == "intern_solvable_or_root"
            reqd = b.origin(t["args"][1])
            okreq = any(isinstance(e, dict) and e.get("n") == "requirement" for e in reqd.get("proj", []))
            ctx.ob(R, b.key, "requires(parent, requirement, all-candidates)", every and allc and okpar and okreq, where_call(b, i),
                   "exactly one Requires clause per requirement over the flattened candidate variables of all version sets")
    # ---- constraint consumer
    b = body_by_key(crate, ENC + "on_constraint_candidates_available")
    if b is None:
        ctx.ob(R, ENC + "on_constraint_candidates_available", "exists", False, "", "consumer not found")
    else:
        cons = b.calls_to(WLP + "constrains")
        ctx.floor(R, "WatchedLiterals::constrains call", len(cons), 1)
        for i, t in cons:
            ok, loop = unconditional_in_loop(b, crs, i)
            flds = loop_source_fields(b, loop) if loop else set()
            d1 = b.origin(t["args"][1])
            okf = d1["k"] == "call" and d1["t"]["f"]["name"] == "intern_solvable" and loop is not None and elem_of_loop(b, loop, d1["t"]["args"][1])
            par = b.origin(t["args"][0])
            okp = par["k"] == "call" and par["t"]["f"]["name"] == "intern_solvable_or_root"
            vs = b.origin(t["args"][2])
            okv = any(isinstance(e, dict) and e.get("n") == "constraint" for e in vs.get("proj", []))
            ctx.ob(R, b.key, "constrains:for-every-non-matching-candidate", ok and "candidates" in flds and okf and okp and okv and visits_all(b, loop),
                   where_call(b, i), "one Constrains(parent, candidate, constraint) clause per non-matching candidate")
    # ---- exclusion helper
    b = body_by_key(crate, ENC + "add_exclusion_clause")
    if b is not None:
        ex = b.calls_to(WLP + "exclude")
        okx = False
        for i, t in ex:
            v = b.origin(t["args"][0])
            if v["k"] == "call" and v["t"]["f"]["name"] == "intern_solvable_or_root" and b.origin(v["t"]["args"][1])["k"] == "arg":
                okx = True
        ctx.ob(R, b.key, "exclude(variable-of-argument)", okx, b.loc(), "the exclusion clause is about the solvable passed in")
    else:
        ctx.ob(R, ENC + "add_exclusion_clause", "exists", False, "", "not found")


# ------------------------------------------------------------------------------------------------
EXPECT_SINKS = {
    "root": {},
    "requires": {"start_watching": "guarded", "requires_clauses": "always"},
    "constrains": {"start_watching": "always"},
    "lock": {"start_watching": "always"},
    "forbid_multiple": {"start_watching": "always"},
    "exclude": {"negative_assertions": "always"},
    "learnt": {"learnt_clause_ids": "always", "start_watching": "guarded"},
}


def registration(ctx, crate, crs, tag):
    R = "registration" + tag
    sites = q.callers_of(crate, CLAUSES_ALLOC)
    ctx.floor(R, "Clauses::alloc call sites", len(sites), 5)
    seen_ctors = set()
    for b, i, t in sites:
        ctor, cbb, cterm = wl_constructor_of_alloc(b, t)
        fn = q.enclosing_fn(crate, b)
        if ctor is None or ctor not in EXPECT_SINKS:
            ctx.ob(R, fn, "alloc:unknown-constructor", False, where_call(b, i), "clause allocated from an unrecognised constructor")
            continue
        seen_ctors.add(ctor)
        ctx.count("call_sites")
        sk = sinks_after(b, i)
        cs = q.conds(b, crs)
        for sink, mode in EXPECT_SINKS[ctor].items():
            blocks = sk[sink]
            if not blocks:
                ctx.ob(R, fn, "%s->%s" % (ctor, sink), False, where_call(b, i),
                       "the %s clause allocated here is never handed to %s" % (ctor, sink))
                continue
            if mode == "always":
                ok = postdominated_modulo_errors(b, i, blocks) or _postdom_with_expect(b, i, blocks)
                ctx.ob(R, fn, "%s->%s" % (ctor, sink), ok, where_call(b, i),
                       "every %s clause reaches %s on all paths" % (ctor, sink))
            else:
                # guarded by `Some(watched_literals)`: the only bypass is the None edge of the Option<&mut WatchedLiterals>
                none_edges = []
                for c in cs:
                    if c.kind == "discr" and c.adt == "std::option::Option" and c.src and c.src["k"] == "call" and \
                            c.src["t"]["f"]["name"] in ("as_mut", "as_ref"):
                        none_edges.append((c.bb, c.target("None")))
                reach = q.reach_cut(b, none_edges, start=i)
                avoid = set(blocks) | error_exit_blocks(b)
                # with the None edges cut, every path from the alloc to return passes the sink
                S = b.succs()
                seen = {i}
                st = [i]
                leak = False
                while st:
                    x = st.pop()
                    for y in S[x]:
                        if (x, y) in none_edges or y in avoid or y in seen:
                            continue
                        if b.blocks[y]["term"]["k"] == "return":
                            leak = True
                        seen.add(y)
                        st.append(y)
                ctx.ob(R, fn, "%s->%s(if watched)" % (ctor, sink), not leak and bool(none_edges), where_call(b, i),
                       "a %s clause with watch literals is always handed to the watch map" % ctor)
        if ctor == "requires":
            # conflict flag -> conflicting_clauses ; else no candidates -> negative assertion
            ok_c = _flag_guarded_push(b, crs, cbb, sk["conflicting_clauses"], True)
            ctx.ob(R, fn, "requires:conflict->conflicting_clauses", ok_c, where_call(b, i),
                   "a Requires clause that conflicts with current decisions is reported to run_sat")
            ok_n = bool(sk["negative_assertions"])
            ctx.ob(R, fn, "requires:no-candidates->negative_assertions", ok_n, where_call(b, i),
                   "a requirement without candidates asserts its parent false")
            # ... and only such a requirement: the flag that guards the assertion looks at the candidate lists of *all* version
            # sets of the requirement (a union whose first member is empty still has candidates)
            import c07
            for pb in sk["negative_assertions"]:
                for c in cs:
                    if c.kind == "bool" and c.bb != cbb and q.edge_dominates(b, c.bb, c.target(True), pb) and \
                            not _is_conflict_flag(b, c, cbb):
                        t0 = b.blocks[c.bb]["term"]
                        names = c07._chain_names(b, t0["d"])
                        whole = bool(set(names) & {"all", "any", "flatten", "flat_map", "sum", "fold", "count", "max", "min"})
                        partial = sorted(set(names) & {"first", "last", "get", "nth", "split_first", "split_last", "index", "next_back"})
                        ctx.ob(R, fn, "requires:assertion-only-if-no-version-set-has-candidates", whole and not partial, where_call(b, pb),
                               "the parent is asserted false only when every version set of the requirement is without candidates (flag computed by: %s)" % ", ".join(names[:6]))
        if ctor == "constrains":
            ok_c = _flag_guarded_push(b, crs, cbb, sk["conflicting_clauses"], True)
            ctx.ob(R, fn, "constrains:conflict->conflicting_clauses", ok_c, where_call(b, i),
                   "a Constrains clause that conflicts with current decisions is reported to run_sat")
        if ctor == "exclude":
            okx = False
            for c in cs:
                if c.kind in ("cmp", "bool") and any(q.edge_dominates(b, c.bb, c.target(True), pb) for pb in sk["conflicting_clauses"]):
                    okx = True
            ctx.ob(R, fn, "exclude:already-true->conflicting_clauses", okx and bool(sk["conflicting_clauses"]), where_call(b, i),
                   "excluding an already selected solvable is reported as a conflicting clause")
    ctx.ob(R, "-", "all-constructors-registered", seen_ctors >= set(EXPECT_SINKS), "",
           "constructors seen at alloc sites: %s" % sorted(seen_ctors))


def _postdom_with_expect(b, start, blocks):
    return False


def _flag_guarded_push(b, crs, ctor_bb, push_blocks, want):
    if not push_blocks:
        return False
    for c in q.conds(b, crs):
        if c.kind == "bool" and c.src:
            d = c.src
            if d.get("k") == "call" and d.get("bb") == ctor_bb:
                tgt = c.target(want)
                if any(q.edge_dominates(b, c.bb, tgt, pb) for pb in push_blocks):
                    # and the flag alone decides: from the `true` edge every path to return passes the push
                    esc = b.reachable([tgt], avoid=set(push_blocks))
                    if tgt in push_blocks or not any(r in esc for r in b.return_blocks()):
                        return True
    return False


# ------------------------------------------------------------------------------------------------
def literal_sources(b, region, self_local=None):
    """Within `region` (blocks), find literals built by positive()/negative() on clause fields / args / root.
    Returns set of (source, polarity) where source is 'arg<n>', 'field<n>', 'root', 'payload' ..."""
    out = set()
    for i in region:
        t = b.blocks[i]["term"]
        if t["k"] != "call" or not t.get("f"):
            continue
        ks = callee_keys(t["f"])
        pol = "pos" if POS in ks else "neg" if NEG in ks else None
        if pol is None:
            continue
        d, _ = q.origin_thru(b, t["args"][0], transparent=set())
        out.add((_src_name(b, d), pol))
    return out


def _src_name(b, d):
    if d["k"] == "arg":
        fs = [e for e in d.get("proj", []) if isinstance(e, dict) and "f" in e and e.get("of") == CLAUSE]
        if fs:
            return "field%d" % fs[-1]["f"]
        return "arg%d" % d["l"]
    if d["k"] == "call" and d["t"].get("f") and d["t"]["f"]["name"] == "root":
        return "root"
    if d["k"] in ("multi", "rvalue", "call"):
        fs = [e for e in d.get("proj", []) if isinstance(e, dict) and "f" in e and e.get("of") == CLAUSE]
        if fs:
            return "field%d" % fs[-1]["f"]
    return "other:" + d["k"]


CTOR_FIELDS = {  # constructor -> (variant, list of arg locals in field order)
    "requires": "Requires", "constrains": "Constrains", "forbid_multiple": "ForbidMultipleInstances",
    "lock": "Lock", "exclude": "Excluded", "learnt": "Learnt",
}


def _is_conflict_flag(b, c, cbb):
    """The tested bool is (a field of) the tuple returned by the clause constructor at cbb."""
    d = c.src if isinstance(c.src, dict) else {}
    return d.get("k") == "call" and d.get("bb") == cbb


def _requires_watch_predicate(ctx, crate, R):
    """Clause::requires watches the first candidate that is *not assigned false* and reports a conflict only if there is none: a
    candidate that is already true satisfies the clause.  A predicate that asks for an *unassigned* candidate (seed C14-13) flags a
    satisfied requirement as conflicting - harmless restart for a hard requirement, silent rejection of a soft one."""
    root = CLAUSE + "::requires"
    n = 0
    for cb in crate.bodies:
        if cb.kind != "Closure" or not cb.root or strip_generics(cb.root) != root:
            continue
        names = [t["f"]["name"] for i, t in cb.calls() if t.get("f")]
        if "assigned_value" not in names:
            continue
        n += 1
        # positive evidence of the wrong question: a comparison with anything but Some(false), or an assigned / unassigned test.
        # (Other equivalent shapes - a `match` on the Option<bool> - are not pinned down.)
        cmp_other = False
        for i, t in cb.calls():
            f = t.get("f")
            if f and f["name"] in ("ne", "eq") and len(t["args"]) == 2:
                for a in t["args"]:
                    d, _ = q.origin_thru(cb, a)
                    pr = q.promoted_rvalue(crate, cb, d)
                    if pr is not None and pr.get("k") == "agg":
                        is_some_false = pr.get("variant") == "Some" and pr["ops"] and pr["ops"][0].get("k") == "const" \
                            and str(pr["ops"][0].get("v")).lower() in ("false", "0")
                        if not is_some_false:
                            cmp_other = True
        bad = set(names) & {"is_none", "is_some", "is_some_and", "is_none_or"}
        ctx.ob(R, root, "watch-candidate-is-first-not-false", not cmp_other and not bad, cb.loc(),
               "the candidate predicate asks `not assigned false` - it does not test for unassigned / compare with Some(true) or None (calls: %s)" % sorted(set(names)))
    ctx.floor(R, "candidate predicates over the trail in Clause::requires", n, 1)


def _requires_always_watched(ctx, crate, crs, R):
    """A Requires clause with at least one candidate is always watched - also when it is satisfied right now: the watch is what
    re-examines it after the solver backtracks over the satisfying candidate (area seed C04-20: no watches for an already satisfied
    clause; once its candidates are exhausted decide() reaches its unreachable!).  `None` watches are only built on the
    no-candidates path."""
    b = body_by_key(crate, CLAUSE + "::requires")
    if b is None:
        return
    nones = [(i, s_) for i, j, s_ in b.assigns() if s_["r"]["k"] == "agg" and str(s_["r"].get("adt", "")).endswith("option::Option")
             and s_["r"].get("variant") == "None" and "Literal; 2]" in b.local_ty(s_["p"]["l"])]
    empties = []
    for c in q.conds(b, crs):
        if c.kind == "discr" and c.adt == "std::option::Option" and c.src and c.src.get("k") == "call" and \
                c.src["t"]["f"]["name"] in ("copied", "cloned", "peek", "next", "first") and c.target("None") is not None:
            empties.append((c.bb, c.target("None")))
    for i, s_ in nones:
        ok = any(q.edge_dominates(b, sb, tg, i) for sb, tg in empties)
        ctx.ob(R, b.key, "unwatched-only-without-candidates", ok, "%s:%s" % (b.file, s_.get("line")),
               "`None` watches are built only on the path where the candidate iterator was empty")
    ctx.floor(R, "no-watch results in Clause::requires", len(nones), 1)


def clause_shape(ctx, crate, crs, tag):
    R = "clause-shape" + tag
    ctx.guard(R, _requires_watch_predicate, ctx, crate, R)
    ctx.guard(R, _requires_always_watched, ctx, crate, crs, R)
    # (a) constructors in impl Clause
    ctor_lits = {}
    for name, variant in CTOR_FIELDS.items():
        b = body_by_key(crate, CLAUSE + "::" + name)
        if b is None:
            ctx.ob(R, CLAUSE + "::" + name, "exists", False, "", "constructor not found")
            continue
        # map arg local -> field index through the variant aggregate
        amap = {}
        for i, j, s in b.assigns():
            r = s["r"]
            if r["k"] == "agg" and r.get("adt") == CLAUSE and r.get("variant") == variant:
                for fi, o in enumerate(r["ops"]):
                    d = b.origin(o)
                    if d["k"] == "arg":
                        amap["arg%d" % d["l"]] = "field%d" % fi
        lits = set()
        for src, pol in literal_sources(b, range(b.n)):
            lits.add((amap.get(src, src), pol))
        # a literal passed through unchanged (forbid_multiple's constrained literal)
        for i, j, s in b.assigns():
            r = s["r"]
            if r["k"] == "agg" and r.get("ak") == "array":
                for o in r["ops"]:
                    d = b.origin(o)
                    if d["k"] == "arg":
                        lits.add((amap.get("arg%d" % d["l"], "arg%d" % d["l"]), "lit"))
        ctor_lits[variant] = lits
    # (b) try_fold_literals arms
    tf = body_by_key(crate, CLAUSE + "::try_fold_literals")
    fold = {}
    if tf is None:
        ctx.ob(R, CLAUSE + "::try_fold_literals", "exists", False, "", "not found")
    else:
        cs = [c for c in q.conds(tf, crs) if c.kind == "discr" and c.adt == CLAUSE]
        ctx.floor(R, "match on Clause in try_fold_literals", len(cs), 1)
        if cs:
            c = cs[0]
            targets = {v: t for v, t in c.edges.items()}
            wild = tf.blocks[c.otherwise]["term"]["k"] != "unreachable" and c.otherwise not in targets.values()
            ctx.ob(R, tf.key, "match-without-wildcard", not wild and len(targets) >= 7, tf.loc(),
                   "every Clause variant has its own arm in try_fold_literals (%d arms)" % len(targets))
            for v, tgt in targets.items():
                others = [t for vv, t in targets.items() if vv != v]
                region = tf.reachable([tgt], avoid=others)
                # stop at blocks shared with other arms (join): keep blocks dominated by the arm's edge
                region = {x for x in region if q.edge_dominates(tf, c.bb, tgt, x)}
                lits = literal_sources(tf, region)
                # literals produced inside closures created in the arm (map(|&s| s.positive()))
                for x in region:
                    for s in tf.blocks[x]["stmts"]:
                        if s["k"] == "assign" and s["r"]["k"] == "agg" and s["r"].get("ak") == "closure":
                            cb = crate.by_path.get(s["r"]["def"])
                            if cb is not None:
                                for src, pol in literal_sources(cb, range(cb.n)):
                                    lits.add(("candidates", pol))
                    for s in tf.blocks[x]["stmts"]:
                        if s["k"] == "assign" and s["r"]["k"] == "agg" and s["r"].get("ak") == "array":
                            for o in s["r"]["ops"]:
                                d = tf.origin(o)
                                fs = [e for e in d.get("proj", []) if isinstance(e, dict) and "f" in e and e.get("of") == CLAUSE]
                                if d["k"] != "call" and fs:
                                    lits.add(("field%d" % fs[-1]["f"], "lit"))
                    # a stored literal handed to a (virtually inlined) helper as an argument: `try_fold_pair(s1.negative(), s2, ..)`
                    for s in tf.blocks[x]["stmts"]:
                        if s["k"] == "assign" and s.get("inl") == "arg" and s["r"]["k"] == "use" and \
                                tf.local_ty(s["p"]["l"]).endswith("clause::Literal"):
                            d = tf.origin(s["r"]["o"])
                            fs = [e for e in d.get("proj", []) if isinstance(e, dict) and "f" in e and e.get("of") == CLAUSE]
                            if d["k"] != "call" and fs:
                                lits.add(("field%d" % fs[-1]["f"], "lit"))
                fold[v] = lits
    want = {
        "Requires": ({("field0", "neg")}, {("field0", "neg"), ("candidates", "pos")}),
        "Constrains": ({("field0", "neg"), ("field1", "neg")}, {("field0", "neg"), ("field1", "neg")}),
        "ForbidMultipleInstances": ({("field0", "neg"), ("field1", "lit")}, {("field0", "neg"), ("field1", "lit")}),
        "Lock": ({("root", "neg"), ("field1", "neg")}, {("root", "neg"), ("field1", "neg")}),
        "Excluded": (set(), {("field0", "neg")}),
    }
    for v, (wc, wf) in want.items():
        cl = {(s, p) for s, p in ctor_lits.get(v, set()) if not s.startswith("other") and s != "arg3" or True}
        # Requires constructor also makes candidate.positive() watches (sources are locals, not fields)
        cl_fields = {(s, p) for s, p in cl if s.startswith("field") or s == "root"}
        fl = fold.get(v, set())
        ctx.ob(R, CLAUSE + "::" + v, "constructor-watches", wc <= cl_fields and
               not any(p == "pos" and s.startswith("field") for s, p in cl_fields), "",
               "initial watches of %s: %s" % (v, sorted(cl)))
        ctx.ob(R, CLAUSE + "::" + v, "fold-literals", fl == wf, "",
               "try_fold_literals yields %s (expected %s)" % (sorted(fl), sorted(wf)))
        ctx.ob(R, CLAUSE + "::" + v, "watches-subset-of-literals", cl_fields <= fl or v == "Requires" and {("field0", "neg")} <= fl, "",
               "every initial watch literal is a literal of the clause with the same polarity")
    # Requires: the positive watch is on a candidate
    rq = body_by_key(crate, CLAUSE + "::requires")
    if rq is not None:
        pos = [(i, t) for i, t in rq.calls_to(POS)]
        ctx.ob(R, rq.key, "positive-watch-on-candidate", len(pos) >= 1 and all(
            q.origin_thru(rq, t["args"][0], transparent=set())[0]["k"] != "arg" or
            q.origin_thru(rq, t["args"][0], transparent=set())[0]["l"] != 1 for i, t in pos), rq.loc(),
            "positive literals of a Requires clause are candidates, never the parent")
        # the conflict flag is true exactly on the branch where no candidate is non-false
        ctx.ob(R, rq.key, "conflict-flag", _requires_conflict_flag(rq, crs), rq.loc(),
               "conflict = true only when every candidate is already assigned false; false when a watchable candidate exists")
    # (c) movability
    nu = body_by_key(crate, WLP + "next_unwatched_literal")
    if nu is None:
        ctx.ob(R, WLP + "next_unwatched_literal", "exists", False, "", "not found")
    else:
        cs = [c for c in q.conds(nu, crs) if c.kind == "discr" and c.adt == CLAUSE]
        if cs:
            c = cs[0]
            tfc = [i for i, t in nu.calls_to(CLAUSE + "::try_fold_literals")]
            unmov = set()
            mov = set()
            mixed = set()
            for v, tgt in c.edges.items():
                r = nu.reachable([tgt])
                if any(x in r for x in tfc):
                    # every path from this arm must go through the literal search
                    esc = nu.reachable([tgt], avoid=tfc)
                    if any(x in esc for x in nu.return_blocks()) and tgt not in tfc:
                        mixed.add(v)
                    mov.add(v)
                else:
                    unmov.add(v)
            ctx.ob(R, nu.key, "movable-variants-always-search", not mixed, nu.loc(),
                   "for movable kinds every path searches for a replacement literal (partly unmovable: %s)" % sorted(mixed))
            ctx.ob(R, nu.key, "binary-variants-unmovable", unmov >= {"Constrains", "ForbidMultipleInstances", "Lock"} and
                   mov == {"Requires", "Learnt"}, nu.loc(), "movable: %s ; fixed: %s" % (sorted(mov), sorted(unmov)))
            # the replacement literal must differ from the other watch and be not-false
            ok_pred = False
            for cb in crate.bodies:
                if cb.parent == nu.path and cb.kind == "Closure":
                    ne = [s for i, j, s in cb.assigns() if s["r"]["k"] == "bin" and s["r"]["op"] in ("Ne", "Eq")] + \
                         [t for i, t in cb.calls() if t.get("f") and t["f"]["name"] in ("ne", "eq")]
                    ev = [t for i, t in cb.calls() if t.get("f") and t["f"]["name"] == "eval"]
                    uo = [t for i, t in cb.calls() if t.get("f") and t["f"]["name"] == "unwrap_or" and t["args"][1].get("v") is True]
                    # ... or the same decision written as a `match lit.eval(..)` with the undecided case on the accepting side
                    uo_false = [t for i, t in cb.calls() if t.get("f") and t["f"]["name"] == "unwrap_or" and t["args"][1].get("v") is False]
                    matched = [c2 for c2 in q.conds(cb, crs) if c2.kind in ("discr", "int", "bool") and c2.src and c2.src.get("k") == "call"
                               and c2.src["t"]["f"]["name"] == "eval"]
                    undecided_accepts = False
                    for c2 in matched:
                        if c2.kind == "discr" and c2.target("None") is not None:
                            # the None (undecided) edge must be able to reach a Break construction
                            reach = cb.reachable([c2.target("None")])
                            undecided_accepts = any(s_["r"]["k"] == "agg" and s_["r"].get("variant") == "Break"
                                                    for x in reach for s_ in cb.blocks[x]["stmts"] if s_["k"] == "assign")
                    ok_pred = bool(ne) and bool(ev) and (bool(uo) or undecided_accepts) and not uo_false
            ctx.ob(R, nu.key, "replacement-is-unwatched-and-not-false", ok_pred, nu.loc(),
                   "a new watch must differ from the other watched literal and must not evaluate to false")
        else:
            ctx.ob(R, nu.key, "match-on-clause", False, nu.loc(), "no match on the clause kind")


def _requires_conflict_flag(b, crs):
    """In Clause::requires the conflict flag is the constant `true` only on the None edge of `find(..)` (no candidate that is
    not false) and the constant `false` elsewhere.  The flag is looked for as a bool constant operand of any aggregate the
    function builds - the (kind, watches, conflict) triple, an intermediate pair, or a struct with the same role."""
    cs = q.conds(b, crs)
    find_none = []
    for c in cs:
        if c.kind == "discr" and c.adt == "std::option::Option" and c.src and c.src["k"] == "call" and c.src["t"]["f"]["name"] == "find":
            find_none.append((c.bb, c.target("None"), c.target("Some")))
    if not find_none:
        # `let watched = candidates.find(..); let conflict = watched.is_none();` - the flag *is* "find found nothing"
        for i, j, s in b.assigns():
            r = s["r"]
            if r["k"] != "agg" or r.get("ak") != "tuple":
                continue
            for flag in r["ops"]:
                if flag.get("k") == "const":
                    continue
                d, _ = q.origin_thru(b, flag, transparent=set())
                if d["k"] == "call" and d["t"]["f"]["name"] == "is_none" and d["t"]["args"]:
                    d2, _ = q.origin_thru(b, d["t"]["args"][0], transparent=set())
                    if d2["k"] == "call" and d2["t"]["f"]["name"] == "find":
                        return True
        return False
    ok = True
    n_true = n_false = 0
    for i, j, s in b.assigns():
        r = s["r"]
        if r["k"] != "agg" or s.get("exp") or r.get("ak") not in ("tuple", "adt"):
            continue
        if r.get("ak") == "adt" and str(r.get("adt", "")).startswith(("std::", "core::", "alloc::")):
            continue
        for flag in r["ops"]:
            if flag.get("k") != "const" or flag.get("ty") != "bool":
                continue
            on_none = any(q.edge_dominates(b, sb, nt, i) for sb, nt, st in find_none)
            if flag.get("v") is True:
                n_true += 1
                ok = ok and on_none
            elif flag.get("v") is False:
                n_false += 1
                ok = ok and not on_none
    return ok and n_true == 1 and n_false >= 1


# ------------------------------------------------------------------------------------------------
def extraction(ctx, crate, crs, tag):
    R = "extraction" + tag
    fn = STATE_ADT + "::chosen_solvables"
    cl = [b for b in crate.bodies if b.root and strip_generics(b.root) == fn and b.kind == "Closure"]
    ok = False
    for b in cl:
        for c in q.conds(b, crs):
            if c.kind == "bool" and c.src is not None and \
                    any(isinstance(e, dict) and e.get("n") == "value" for e in c.src.get("proj", [])):
                tcalls = [i for i, t in b.calls() if t.get("f") and t["f"]["name"] == "as_solvable"]
                nones = [i for i, j, s in b.assigns() if s["p"]["l"] == 0 and s["r"]["k"] == "agg" and s["r"].get("variant") == "None"]
                if tcalls and all(q.edge_dominates(b, c.bb, c.target(True), i) for i in tcalls) and \
                        all(q.edge_dominates(b, c.bb, c.target(False), i) for i in nones) and nones:
                    ok = True
    ctx.ob(R, fn, "true-valued-solvables-only", ok, "", "a decision contributes to the solution iff its value is true and its variable is a solvable")
    cb = body_by_key(crate, fn)
    if cb is not None:
        st = [t for i, t in cb.calls() if t.get("f") and t["f"]["name"] == "stack"]
        fm = [t for i, t in cb.calls() if t.get("f") and t["f"]["name"] == "filter_map"]
        ctx.ob(R, fn, "walks-the-whole-trail", bool(st) and bool(fm) and len(list(cb.calls())) <= 3, cb.loc(),
               "the solution is a filter_map over the complete decision stack")
    s = body_by_key(crate, SOLVER + "solve")
    if s is not None:
        oks = [(i, ss) for i, j, ss in s.assigns() if ss["p"]["l"] == 0 and ss["r"]["k"] == "agg" and ss["r"].get("variant") == "Ok"]
        good = False
        for i, ss in oks:
            d, ch = q.origin_thru(s, ss["r"]["ops"][0], transparent={"std::iter::Iterator::collect"})
            if d["k"] == "call" and fn in callee_keys(d["t"]["f"]):
                good = True
        ctx.ob(R, s.key, "returns-chosen-solvables", good, s.loc(), "solve returns Ok(chosen_solvables().collect())")


# ------------------------------------------------------------------------------------------------
def assertions(ctx, crate, crs, tag):
    R = "assertions" + tag
    b = body_by_key(crate, SOLVER + "decide_assertions")
    if b is None:
        ctx.ob(R, SOLVER + "decide_assertions", "exists", False, "", "not found")
    else:
        tad = b.calls_to(DT + "try_add_decision")
        ctx.floor(R, "try_add_decision in decide_assertions", len(tad), 1)
        for i, t in tad:
            ok, loop = unconditional_in_loop(b, crs, i)
            flds = loop_source_fields(b, loop) if loop else set()
            # the iterator is the full vector (no skip / slicing adaptor)
            full = False
            if loop:
                nt = b.blocks[loop[2]]["term"]
                d, ch = q.origin_thru(b, nt["args"][0], transparent=q.TRANSPARENT)
                full = q.mentions_field(d, STATE_ADT, "negative_assertions") and not any(
                    x.split("::")[-1] in ("skip", "take", "step_by", "filter", "skip_while", "rev") for x in ch) and d["k"] != "call"
            dec = b.origin(t["args"][1])
            val_false = False
            if dec["k"] == "call" and dec["t"]["f"]["name"] == "new":
                v = dec["t"]["args"][1]
                vd = b.origin(v)
                val_false = (v.get("k") == "const" and v.get("v") is False) or (vd["k"] == "const" and vd["c"].get("v") is False)
            ctx.ob(R, b.key, "all-assertions-each-round", ok and "negative_assertions" in flds and full, where_call(b, i),
                   "every negative assertion is (re)applied on every call, over the whole vector")
            ctx.ob(R, b.key, "assert-false", val_false, where_call(b, i), "negative assertions decide `false`")
    p = body_by_key(crate, SOLVER + "propagate")
    if p is not None:
        da = p.calls_to(SOLVER + "decide_assertions")
        dl = p.calls_to(SOLVER + "decide_learned")
        nx = p.calls_to(DT + "next_unpropagated")
        ok = bool(da) and bool(dl) and bool(nx) and all(p.dominates(da[0][0], x[0]) and p.dominates(dl[0][0], x[0]) for x in nx)
        ctx.ob(R, p.key, "assertions-before-watch-loop", ok, p.loc(),
               "both assertion passes dominate the watch propagation loop")
    # the watch propagation loop exists only inside propagate(): no second propagation routine that skips the assertion passes
    import mech as _m
    _m.callers_exact(ctx, "assertions", crate, DT + "next_unpropagated", {SOLVER + "propagate"}, tag, 1)
    _m.callers_exact(ctx, "assertions", crate, "resolvo::solver::watch_map::WatchMap::cursor", {SOLVER + "propagate"}, tag, 1)
    # nobody truncates / clears the assertion list within a solve
    for b in crate.bodies:
        for i, t in b.calls():
            f = t.get("f")
            if f and f["name"] in ("clear", "truncate", "pop", "remove", "swap_remove", "drain", "retain") and t["args"]:
                d, _ = q.origin_thru(b, t["args"][0])
                if q.mentions_field(d, STATE_ADT, "negative_assertions") or q.mentions_field(d, STATE_ADT, "learnt_clause_ids"):
                    ctx.ob(R, b.key, "assertion-list-shrinks", False, where_call(b, i), "negative assertions / learnt ids are removed during a solve")
