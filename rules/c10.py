"""C10 - any completion order of asynchronous metadata requests gives a correct result
(structural preconditions for schedule independence).

  upvars           the async blocks queued by the encoder capture no `&mut` and no SolverState
  no-guard-across-await  no RefCell Ref/RefMut local is live across a Yield in any coroutine of the crate
  hand-off         after registering an in-flight request: result insert, marker removal and notify(usize::MAX)
                   are on every completing path, with no suspension point between result insert and notify;
                   the listener awaits the event and then reads the result map under the same key
  consumers        TaskResult consumers mutate state through `&mut self` outside of any future
"""
from common import *
import q, mech

USIZE_MAX = 18446744073709551615


def run(ctx):
    ctx.explanation = (
        "Static clause of C10: the three structural preconditions for schedule independence named by the anchors, decided on "
        "pre-transform coroutine MIR: (1) queued futures capture only shared references/Copy ids (type facts of closure "
        "upvars), all state mutation is in non-coroutine &mut self consumers; (2) no RefCell guard is live across any "
        "suspension point (liveness over the CFG incl. the resume edge) - a violation is a BorrowMutError panic under exactly "
        "the overlapping interleavings; (3) in-flight hand-off: insert/remove/notify(usize::MAX) post-dominate the "
        "registration, without a Yield between publishing the result and waking listeners; listeners re-read the result map. "
        "Equality of verdicts across interleavings is NOT decided.")
    ctx.assumptions += ["event-listener: notify(usize::MAX) wakes every registered listener",
                        "single-threaded executor (futures are !Send: LocalBoxFuture)"]
    for cfg in (["cfgA"] if ctx.tier == "quick" else ["cfgA", "cfgC"]):
        tag = "" if cfg == "cfgA" else "@" + cfg
        crate = lib(ctx, cfg)
        crs = crates(ctx, cfg)
        ctx.count("functions_analysed", len(crate.bodies))
        upvars(ctx, crate, tag)
        guards(ctx, crate, tag)
        hand_off(ctx, crate, crs, tag)
        consumers(ctx, crate, tag)


def upvars(ctx, crate, tag):
    n = 0
    for fn in ("queue_solvable", "queue_package", "queue_requirement", "queue_constraint"):
        for b in crate.bodies:
            if not (b.root and strip_generics(b.root) == ENC + fn):
                continue
            if b.d.get("upvars") is None:
                continue
            for u in b.d["upvars"]:
                n += 1
                ty = u["ty"]
                bad = ty.startswith("&mut") or "SolverState" in ty or u["by"].startswith("ref:Mut") or \
                    u["by"].startswith("ref:Unique") or "RefCell" in ty or "&'a mut" in ty
                ctx.ob("upvars" + tag, b.key, "captures:%s" % u["name"], not bad, b.loc(),
                       "%s captured %s" % (ty[:70], u["by"]))
    ctx.floor("upvars" + tag, "captured variables of queued futures", n, 8)


def guard_locals(b):
    return [i for i, l in enumerate(b.locals) if l["ty"].startswith("std::cell::Ref<") or l["ty"].startswith("std::cell::RefMut<")]


def live_blocks(b, local):
    """Blocks in which `local` may be live: reachable from a definition without passing its drop /
    StorageDead (normal + resume edges)."""
    defs = [bb for bb, idx, r in b.defs_of(local)]
    kills = set()
    for i, t in b.terms("drop"):
        if t["p"]["l"] == local and "p" not in t["p"]:
            kills.add(i)
    for i, blk in enumerate(b.blocks):
        for s in blk["stmts"]:
            if s["k"] == "dead" and s["l"] == local:
                kills.add(i)
    # moved out: `_x = move _local` also ends the guard's life in this local
    out = set()
    for d in defs:
        out |= b.reachable_after(d, avoid=kills)
        t = b.blocks[d]["term"]
    return out, kills


def guards(ctx, crate, tag):
    cos = [b for b in crate.bodies if b.coroutine]
    ctx.floor("no-guard-across-await" + tag, "coroutines with suspension points",
              sum(1 for b in cos if b.yields()), 12)
    n = 0
    for b in cos:
        ys = set(b.yields())
        if not ys:
            continue
        ordinal = {}
        for l in guard_locals(b):
            n += 1
            fld = _guard_field(b, l)
            ordinal[fld] = ordinal.get(fld, 0) + 1
            live, kills = live_blocks(b, l)
            crossing = sorted(live & ys)
            ctx.ob("no-guard-across-await" + tag, b.key, "guard:%s#%d" % (fld, ordinal[fld]), not crossing,
                   b.loc(crossing[0]) if crossing else b.loc(),
                   "RefCell guard dropped before every suspension point" if not crossing else
                   "RefCell guard %s is live across the .await at %s" % (b.local_ty(l)[:60], b.loc(crossing[0])))
    ctx.count("guard_locals", n)
    ctx.floor("no-guard-across-await" + tag, "RefCell guard locals in coroutines", n, 4)


def _guard_field(b, l):
    for bb, idx, r in b.defs_of(l):
        if idx == "term" and r["args"]:
            d, _ = q.origin_thru(b, r["args"][0])
            fs = q.fields_of(d)
            if fs:
                return fs[-1][1]
    return "?"


def hand_off(ctx, crate, crs, tag):
    b = body_by_key(crate, CACHE + "get_or_cache_candidates", coroutine=True)
    if b is None:
        ctx.ob("hand-off" + tag, CACHE + "get_or_cache_candidates", "anchor", False, "", "async body not found")
        return
    F = "package_name_to_candidates_in_flight"
    regs = q.calls_on_field(b, "std::collections::HashMap::insert", CACHE_ADT, F)
    rems = q.calls_on_field(b, "std::collections::HashMap::remove", CACHE_ADT, F)
    pubs = q.calls_on_field(b, mech.INSERTS, CACHE_ADT, "package_name_to_candidates")
    nots = b.calls_to("event_listener::Event::notify")
    ctx.floor("hand-off" + tag, "in-flight registration", len(regs), 1)
    for ri, rt in regs:
        for what, sites in (("result-insert", pubs), ("marker-removal", rems), ("notify", nots)):
            ok = bool(sites) and postdominated_modulo_errors(b, ri, [i for i, _ in sites])
            ctx.ob("hand-off" + tag, b.key, "after-register:%s" % what, ok, where_call(b, ri),
                   "%s happens on every completing path after the in-flight registration" % what)
        # same key for registration, publication and removal
        rk = mech.key_desc(b, rt["args"][1])
        for what, sites in (("result-insert", pubs), ("marker-removal", rems)):
            for i, t in sites:
                ctx.ob("hand-off" + tag, b.key, "same-key:%s" % what, q.same_origin(rk, mech.key_desc(b, t["args"][1])),
                       where_call(b, i), "uses the package name that was registered")
    # no suspension between publishing the result and waking the listeners
    for pi, _ in pubs:
        for ni, _ in nots:
            mid = (q.between(b, [pi], ni) | q.between(b, [ni], pi))
            ys = [y for y in mid if b.blocks[y]["term"]["k"] == "yield"]
            ctx.ob("hand-off" + tag, b.key, "no-yield-between-publish-and-notify", not ys, where_call(b, ni),
                   "listeners are woken in the same poll that published the result")
    for ni, nt in nots:
        a = nt["args"][1]
        ctx.ob("hand-off" + tag, b.key, "notify-all", a.get("k") == "const" and a.get("v") == USIZE_MAX, where_call(b, ni),
               "notify(usize::MAX) wakes every listener (argument: %s)" % a.get("v"))
        # the notified event is the one removed from the in-flight map
        d, chain = q.origin_thru(b, nt["args"][0], transparent=q.TRANSPARENT | {"std::option::Option::expect", "std::option::Option::unwrap"})
        ctx.ob("hand-off" + tag, b.key, "notify-removed-event", d["k"] == "call" and any(d["bb"] == i for i, _ in rems),
               where_call(b, ni), "the event notified is the one taken out of the in-flight map")
    # listener side: awaits listen() of the event found in the map, then reads the result map with the same key
    lis = b.calls_to("event_listener::Event::listen")
    ctx.floor("hand-off" + tag, "listener branch", len(lis), 1)
    lookups = q.calls_on_field(b, mech.LOOKUPS, CACHE_ADT, "package_name_to_candidates")
    for li, lt in lis:
        ys = [y for y in b.yields() if y in b.reachable_after(li)]
        awaited = False
        for y in ys:
            d, _ = awaited_origin(b, y)
            if d is not None and d["k"] == "call" and d["bb"] == li:
                awaited = True
                after = [i for i, t in lookups if i in b.reachable([b.blocks[y]["term"]["resume"]])]
                ctx.ob("hand-off" + tag, b.key, "listener-rereads-result", bool(after), b.loc(y),
                       "after the event fires the listener reads the result map again")
        ctx.ob("hand-off" + tag, b.key, "listener-awaits-event", awaited, where_call(b, li),
               "the listener future is awaited (not dropped)")


def consumers(ctx, crate, tag):
    for fn in ("on_task_result", "on_dependencies_available", "on_candidates_available",
               "on_requirement_candidates_available", "on_constraint_candidates_available"):
        b = body_by_key(crate, ENC + fn)
        if b is None:
            ctx.ob("consumers" + tag, ENC + fn, "exists", False, "", "consumer not found")
            continue
        sig = b.d.get("sig", {})
        recv = (sig.get("inputs") or ["?"])[0]
        ctx.ob("consumers" + tag, b.key, "takes-&mut-self-and-is-sync", recv.startswith("&mut ") and not b.coroutine,
               b.loc(), "receiver %s" % recv[:60])
    # state is only reachable mutably through the encoder: SolverState is held as `&'a mut`
    a = crate.adts.get(ENCODER_ADT)
    ty = "?"
    if a:
        for f in a["variants"][0]["fields"]:
            if f["name"] == "state":
                ty = f["ty"]
    ctx.ob("consumers" + tag, ENCODER_ADT, "state-is-exclusive", ty.startswith("&'a mut ") or ty.startswith("&mut "), "",
           "Encoder.state: %s" % ty)
