"""C10 - any completion order of asynchronous metadata requests gives a correct result
(structural preconditions for schedule independence).

  upvars           the async blocks queued by the encoder capture no `&mut` and no SolverState
  no-guard-across-await  no RefCell Ref/RefMut local is live across a Yield in any coroutine of the crate
  hand-off         after registering an in-flight request: result insert, marker removal and notify(usize::MAX)
                   are on every completing path, with no suspension point between result insert and notify;
                   the listener awaits the event and then reads the result map under the same key
  consumers        TaskResult consumers mutate state through `&mut self` outside of any future

Added after the second and third seeding rounds:
  append-only / chunk-stability  the arena rules of C18 (references held across awaits stay valid)
  queued-in-consumer             the dependencies consumer is total: a result that arrives late is expanded like an early one

Added after the fifth seeding round:
  core           all rules of C01 and C02 (rules/core.py): "the same verdict ... with a solution valid per C01"
"""
from common import *
import q, mech



def run(ctx):
    ctx.explanation = (
        "Static clause of C10: the three structural preconditions for schedule independence named by the anchors, decided on "
        "pre-transform coroutine MIR: (1) queued futures capture only shared references/Copy ids (type facts of closure "
        "upvars), all state mutation is in non-coroutine &mut self consumers; (2) no RefCell guard is live across any "
        "suspension point (liveness over the CFG incl. the resume edge) - a violation is a BorrowMutError panic under exactly "
        "the overlapping interleavings; (3) in-flight hand-off: insert/remove/notify(usize::MAX) post-dominate the "
        "registration, without a Yield between publishing the result and waking listeners; listeners re-read the result map. "
        "Equality of verdicts across interleavings is NOT decided.")
    ctx.assumptions += ["event-listener: notify(usize::MAX) wakes every registered listener",
                        "single-threaded executor (futures are !Send: LocalBoxFuture)"]
    for cfg in (["cfgA"] if ctx.tier == "quick" else ["cfgA", "cfgC"]):
        tag = "" if cfg == "cfgA" else "@" + cfg
        crate = lib(ctx, cfg)
        crs = crates(ctx, cfg)
        ctx.count("functions_analysed", len(crate.bodies))
        upvars(ctx, crate, tag)
        mech.guards(ctx, crate, tag)
        mech.hand_off(ctx, crate, crs, tag)
        consumers(ctx, crate, tag)
        # "never asks the provider twice" / "never waits on something that cannot complete"
        mech.memo_check(ctx, "at-most-once", crate, crs, tag)
        mech.dedup_guard(ctx, "at-most-once", crate, crs, ENC + "queue_solvable", "clauses_added_for_solvable", tag)
        mech.dedup_guard(ctx, "at-most-once", crate, crs, ENC + "queue_package", "clauses_added_for_package", tag)
        mech.cancel_safety(ctx, crate, crs, tag)
        mech.drain_complete(ctx, "drain-complete", crate, crs, tag)
        # "frozen (insert-only) caches return stable references across awaits": the arena / frozen-map rules of C18
        import c18
        ctx.guard("append-only" + tag, c18.append_only, ctx, crate, crs, tag)
        ctx.guard("chunk-stability" + tag, c18.chunk_stability, ctx, crate, crs, tag)
        # a result that arrives late is expanded like one that arrives early: the dependencies consumer is total (no early return
        # that depends on what other tasks have already reported) - shared with C01 / C11
        import core
        ctx.guard("core" + tag, core.soundness, ctx, crate, crs, tag)      # see rules/core.py
        import c04
        ctx.guard("guarded-index" + tag, c04.guarded_index, ctx, crate, crs, tag)     # a panic under one completion order / on a warm solver is not "the same verdict"
        import c11
        ctx.guard("queued-in-consumer" + tag, c11.queued_in_consumer, ctx, crate, crs, tag)


def upvars(ctx, crate, tag):
    n = 0
    for fn in ("queue_solvable", "queue_package", "queue_requirement", "queue_constraint"):
        for b in crate.bodies:
            if not (b.root and strip_generics(b.root) == ENC + fn):
                continue
            if b.d.get("upvars") is None:
                continue
            for u in b.d["upvars"]:
                n += 1
                ty = u["ty"]
                bad = ty.startswith("&mut") or "SolverState" in ty or u["by"].startswith("ref:Mut") or \
                    u["by"].startswith("ref:Unique") or "RefCell" in ty or "&'a mut" in ty
                ctx.ob("upvars" + tag, b.key, "captures:%s" % u["name"], not bad, b.loc(),
                       "%s captured %s" % (ty[:70], u["by"]))
    ctx.floor("upvars" + tag, "captured variables of queued futures", n, 6)


def consumers(ctx, crate, tag):
    for fn in ("on_task_result", "on_dependencies_available", "on_candidates_available",
               "on_requirement_candidates_available", "on_constraint_candidates_available"):
        b = body_by_key(crate, ENC + fn)
        if b is None:
            ctx.ob("consumers" + tag, ENC + fn, "exists", False, "", "consumer not found")
            continue
        sig = b.d.get("sig", {})
        recv = (sig.get("inputs") or ["?"])[0]
        ctx.ob("consumers" + tag, b.key, "takes-&mut-self-and-is-sync", recv.startswith("&mut ") and not b.coroutine,
               b.loc(), "receiver %s" % recv[:60])
    # state is only reachable mutably through the encoder: SolverState is held as `&'a mut`
    a = crate.adts.get(ENCODER_ADT)
    ty = "?"
    if a:
        for f in a["variants"][0]["fields"]:
            if f["name"] == "state":
                ty = f["ty"]
    ctx.ob("consumers" + tag, ENCODER_ADT, "state-is-exclusive", ty.startswith("&'a mut ") or ty.startswith("&mut "), "",
           "Encoder.state: %s" % ty)
