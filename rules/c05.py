"""C05 - solutions contain no extraneous solvables (mechanism census).

  positive-literals   who may create a positive literal: Clause::requires (candidates), the Requires arm of
                      try_fold_literals, and the at-most-one encoder on *helper* variables; nothing else -> only Requires and
                      learnt clauses can imply a solvable true
  true-decisions      Decision::new(_, true, _) with a constant `true` occurs only for the root / soft solvable of a run and
                      for the candidate picked by decide(); every other decision value is literal.satisfying_value() or false
  decide-installed-parents   decide() looks at the requirements of a solvable only behind assigned_value(parent) == Some(true),
                      proposes only candidates that are currently unassigned, taken from the requirement's cached candidates
  undo-total          undo_until stops only at a decision whose level is <= the target (or on an empty trail; level 0 clears);
                      undo_last pops the trail and resets exactly that variable in the decision map

Added after the second and third seeding rounds:
  trail-shrinks  decisions leave DecisionTracker.stack only through undo_last's pop (which resets their map entry)
  antecedents    (shared with C03) a learnt clause keeps every lower-level literal it was derived from
Added after the fourth round:
  clause-shape, watch-list  (shared with C01/C02) a clause forces its last literal only when it is unit

Added after the fifth seeding round:
  core(verdict) / result-must-use / soft-loop  a literal is asserted only by a clause that follows from the problem, at the level
                      where it is unit (C05-13), and an interrupted soft run is not presented as a solution (C05-14); rules/core.py
"""
from common import *
import q, enc
from enc import *

LIT_NEW = "resolvo::solver::clause::Literal::new"
DEC_NEW = "resolvo::solver::decision::Decision::new"
DMAP = "resolvo::solver::decision_map::DecisionMap::"


def run(ctx):
    ctx.explanation = (
        "Mechanism census for C05 over the type-checked program: (1) the complete set of call sites that create positive "
        "literals - so the only clauses that can force a solvable to true are Requires clauses (of a true parent) and learnt "
        "clauses; (2) the complete set of decisions made with a constant true; (3) decide() expands only parents that are "
        "assigned true and proposes only unassigned candidates of that parent's cached requirement; (4) undoing is total above "
        "the target level and resets the map entry of exactly the popped decision, so abandoned choices leave nothing behind. "
        "The support property of returned sets as such (a reachability statement about runtime values) is NOT decided.")
    ctx.assumptions += ["learnt clauses are implied by the problem clauses (C02's undecided half)"]
    for cfg in (["cfgA"] if ctx.tier == "quick" else ["cfgA", "cfgB", "cfgC"]):
        tag = "" if cfg == "cfgA" else "@" + cfg
        crate = lib(ctx, cfg)
        crs = crates(ctx, cfg)
        ctx.count("functions_analysed", len(crate.bodies))
        ctx.guard("positive-literals" + tag, positive_literals, ctx, crate, crs, tag)
        ctx.guard("true-decisions" + tag, true_decisions, ctx, crate, crs, tag)
        ctx.guard("decide-installed-parents" + tag, decide_rule, ctx, crate, crs, tag)
        ctx.guard("undo-total" + tag, undo_total, ctx, crate, crs, tag)
        # learnt clauses keep every lower-level literal they were derived from (shared with C03): a clause learnt while a soft
        # requirement or an abandoned choice was installed must stay conditional on it
        import c03
        ctx.guard("antecedents" + tag, c03.antecedents, ctx, crate, crs, tag)
        # a solvable is forced true only when its clause is unit: which literals a clause has, which of them may take over a
        # watch (all of them, for Requires and learnt clauses) and the slot bookkeeping of the watch lists decide "unit"
        import c01, wl
        ctx.guard("clause-shape" + tag, c01.clause_shape, ctx, crate, crs, tag)
        ctx.guard("watch-list" + tag, wl.run, ctx, crate, crs, tag)
        # a literal is asserted true only by a clause that follows from the problem, at the level the clause becomes unit (seed
        # C05-13: a "restart" that backtracks further than the learnt clause's level leaves its asserted literal without its
        # premise), and a run that was interrupted half-way is never handed out as a solution (seed C05-14)
        import core, c12, c14
        ctx.guard("core" + tag, core.soundness, ctx, crate, crs, tag)      # see rules/core.py
        ctx.guard("result-must-use" + tag, c12.results_used, ctx, crate, tag)
        ctx.guard("soft-loop" + tag, c14.soft_loop, ctx, crate, crs, tag)


def positive_literals(ctx, crate, crs, tag):
    R = "positive-literals" + tag
    allowed = {
        "resolvo::solver::clause::Clause::requires": "candidate of a Requires clause",
        "resolvo::solver::clause::Clause::try_fold_literals": "Requires arm: candidates",
        ENC + "on_requirement_candidates_available": "helper variable of the at-most-one encoding",
    }
    sites = q.callers_of(crate, POS)
    # vacuity guard: the three mechanisms that legitimately create positive literals are all still seen
    # a literal whose polarity is computed (`Literal::new(helper, !positive)`) can be positive too: same census
    dyn = [(b, i, t) for b, i, t in q.callers_of(crate, LIT_NEW) if t["args"][1].get("k") != "const" and not b.crate.is_test and
           not q.enclosing_fn(crate, b).endswith(("::positive", "::negative"))]
    ctx.floor(R, "functions creating positive literals", len({q.enclosing_fn(crate, b) for b, i, t in sites + dyn}), 3)
    for b, i, t in dyn:
        fn = q.enclosing_fn(crate, b)
        d = b.origin(t["args"][0])
        ok = fn in (ENC + "on_requirement_candidates_available", AFMC) and d["k"] == "arg" and d["l"] == 3
        # reviewed: propagate builds the literal a decision falsifies (to walk its watch list), analyze the literal that is false under
        # the current assignment (learnt clause); neither can imply a solvable true by itself
        if fn in (SOLVER + "propagate", SOLVER + "analyze"):
            ok = True
        ctx.ob(R, fn, "Literal::new(_,computed)", ok, where_call(b, i),
               "a literal of computed polarity is only built for the helper variable of the at-most-one encoding")
    for b, i, t in sites:
        if b.crate.is_test:
            continue
        fn = q.enclosing_fn(crate, b)
        ok = fn in allowed
        detail = allowed.get(fn, "positive literal created in a function that is not a Requires/helper encoder")
        if fn == AFMC:
            ok = True
        if fn in (ENC + "on_requirement_candidates_available", AFMC):
            # receiver must be the *second* callback argument (the helper variable), never the candidate itself
            d = b.origin(t["args"][0])
            ok = d["k"] == "arg" and d["l"] == 3
            detail = "positive() applied to callback argument #%s (helper variable expected)" % d.get("l")
        if fn == "resolvo::solver::clause::Clause::requires":
            d, _ = q.origin_thru(b, t["args"][0], transparent=set())
            ok = not (d["k"] == "arg" and d["l"] == 1)
            detail = "positive literal on a candidate (not the parent)"
        ctx.ob(R, fn, "positive()", ok, where_call(b, i), detail)
    # Literal::new(_, negate = const false) outside VariableId::positive
    for b, i, t in q.callers_of(crate, LIT_NEW):
        a = t["args"][1]
        if a.get("k") == "const" and a.get("v") is False:
            fn = q.enclosing_fn(crate, b)
            ctx.ob(R, fn, "Literal::new(_,false)", fn.endswith("::positive") or b.crate.is_test, where_call(b, i),
                   "a constant positive literal may only be built by VariableId::positive")
    # the AtMostOnceTracker callback: helper variables come from alloc_forbid_multiple_variable
    b = view(crate, ENC + "on_requirement_candidates_available", [AFMC])
    if b is not None:
        adds = b.calls_to("resolvo::solver::binary_encoding::AtMostOnceTracker::add")
        okh = False
        for i, t in adds:
            d = b.origin(t["args"][3])
            if d["k"] == "rvalue" and d["r"].get("ak") == "closure":
                cb = crate.by_path.get(d["r"]["def"])
                if cb is not None and any(tt["f"]["name"] == "alloc_forbid_multiple_variable" for ii, tt in cb.calls() if tt.get("f")):
                    okh = True
        ctx.ob(R, b.key, "helper-variables-are-fresh", okh, b.loc(), "new at-most-one variables are allocated as ForbidMultiple helper variables")


def true_decisions(ctx, crate, crs, tag):
    R = "true-decisions" + tag
    allowed_true = {SOLVER + "run_sat": "root / soft solvable of the run", SOLVER + "set_propagate_learn": "candidate chosen by decide()"}
    sites = q.callers_of(crate, DEC_NEW)
    ctx.floor(R, "Decision::new call sites", len(sites), 5)
    n_true = 0
    for b, i, t in sites:
        if b.crate.is_test:
            continue
        fn = q.enclosing_fn(crate, b)
        v = t["args"][1]
        vd, _ = q.origin_thru(b, v, transparent=set())
        if (v.get("k") == "const" and v.get("v") is True) or (vd["k"] == "const" and vd["c"].get("v") is True):
            n_true += 1
            ok_true = fn in allowed_true
            why = allowed_true.get(fn, "a solvable is decided true outside the root/soft decision and the decide() choice")
            if not ok_true:
                # the helper may have been inlined by hand: the decided variable must then be decide()'s own result
                lv = q.leaves(b, t["args"][0])
                if "call:decide" in lv and not any(x.startswith("unknown:") for x in lv):
                    ok_true, why = True, "candidate chosen by decide() (decided in place)"
            ctx.ob(R, fn, "Decision(_, true, _)", ok_true, where_call(b, i), why)
        elif (v.get("k") == "const" and v.get("v") is False) or (vd["k"] == "const" and vd["c"].get("v") is False):
            ctx.ob(R, fn, "Decision(_, false, _)", True, where_call(b, i), "constant false")
        else:
            ok = vd["k"] == "call" and vd["t"]["f"]["name"] == "satisfying_value"
            ctx.ob(R, fn, "Decision(_, literal.satisfying_value(), _)", ok, where_call(b, i),
                   "implied decisions take the value that satisfies the implied literal" if ok else
                   "decision value comes from %s" % (vd["t"]["f"]["name"] if vd["k"] == "call" else vd["k"]))
    ctx.floor(R, "constant-true decisions", n_true, 2)
    # set_propagate_learn is only called with decide()'s result
    for b, i, t in q.callers_of(crate, SOLVER + "set_propagate_learn"):
        d, _ = q.origin_thru(b, t["args"][2], transparent=set())
        ok = d["k"] == "call" and d["t"]["f"]["name"] == "decide"
        ctx.ob(R, q.enclosing_fn(crate, b), "set_propagate_learn(decide())", ok, where_call(b, i),
               "the variable decided true is the one decide() returned")


def decide_rule(ctx, crate, crs, tag):
    R = "decide-installed-parents" + tag
    b = body_by_key(crate, SOLVER + "decide")
    if b is None:
        ctx.ob(R, SOLVER + "decide", "exists", False, "", "decide not found")
        return
    cs = q.conds(b, crs)
    loops = for_loops(b, crs)
    # outer loop over requires_clauses, inner loop over that entry's requirements
    outer = [l for l in loops if "requires_clauses" in loop_source_fields(b, l)]
    ctx.floor(R, "loop over requires_clauses", len(outer), 1)
    guard = None
    for c in cs:
        if c.kind == "bool" and c.src and c.src.get("k") == "call" and c.src["t"]["f"]["name"] in ("ne", "eq"):
            a0, _ = q.origin_thru(b, c.src["t"]["args"][0], transparent=set())
            a1, _ = q.origin_thru(b, c.src["t"]["args"][1], transparent=set())
            calls = [x for x in (a0, a1) if x["k"] == "call" and x["t"]["f"]["name"] == "assigned_value"]
            somes = []
            for x in (a0, a1):
                r = x["r"] if x["k"] == "rvalue" else q.promoted_rvalue(crate, b, x)
                if r is not None and r.get("variant") == "Some" and r["ops"] and r["ops"][0].get("v") is True:
                    somes.append(x)
            if calls and somes:
                ne = c.src["t"]["f"]["name"] == "ne"
                guard = (c, c.target(False) if ne else c.target(True), calls[0])
    ctx.ob(R, b.key, "tests-parent-is-true", guard is not None, b.loc(), "decide() compares assigned_value(parent) with Some(true)")
    if guard and outer:
        c, tgt, call = guard
        # the parent tested is the key of the current requires_clauses entry
        okp = elem_of_loop(b, outer[0], call["t"]["args"][1])
        ctx.ob(R, b.key, "tested-parent-is-the-entry-key", okp, b.loc(c.bb), "the tested variable is the solvable whose requirements follow")
        inner = [l for l in loops if l[0] in outer[0][1] and l[0] != outer[0][0] and len(l[1]) < len(outer[0][1])]
        okd = bool(inner) and all(q.edge_dominates(b, c.bb, tgt, l[0]) for l in inner)
        ctx.ob(R, b.key, "requirements-only-of-true-parents", okd, b.loc(c.bb),
               "every inner loop of decide() (over requirements / version sets) is dominated by the parent-is-true edge")
    # candidates come from requirement_to_sorted_candidates
    idx = q.calls_on_field(b, "std::ops::Index::index", STATE_ADT, "requirement_to_sorted_candidates")
    ctx.ob(R, b.key, "candidates-from-cached-requirement", bool(idx), b.loc(), "candidate variables are read from requirement_to_sorted_candidates")
    # the proposed candidate is unassigned: built only on the None arm of assigned_value in the fold closure
    okc = False
    for cb in crate.bodies:
        if not (cb.root and strip_generics(cb.root) == SOLVER + "decide") or cb.kind != "Closure":
            continue
        av = [(i, t) for i, t in cb.calls() if t.get("f") and t["f"]["name"] == "assigned_value"]
        if not av:
            continue
        ccs = q.conds(cb, crs)
        import c07
        for i, s in c07.proposal_aggs(cb):
            r = s["r"]
            if True:
                d0, _ = q.origin_thru(cb, r["ops"][0], transparent=set())
                if d0["k"] == "arg" and d0["l"] == 3 or d0["k"] in ("multi",):
                    # new first candidate: must be under the None edge
                    for c in ccs:
                        if c.kind == "discr" and c.adt == "std::option::Option" and c.src and c.src["k"] == "call" and \
                                c.src["t"]["f"]["name"] == "assigned_value":
                            if q.edge_dominates(cb, c.bb, c.target("None"), i):
                                okc = True
    ctx.ob(R, SOLVER + "decide", "proposes-unassigned-candidate", okc, b.loc(),
           "a candidate becomes the proposal only on the `assigned_value(candidate) == None` arm")


def undo_total(ctx, crate, crs, tag):
    R = "undo-total" + tag
    b = body_by_key(crate, DT + "undo_until")
    if b is None:
        ctx.ob(R, DT + "undo_until", "exists", False, "", "not found")
    else:
        cs = q.conds(b, crs)
        ul = b.calls_to(DT + "undo_last")
        ctx.floor(R, "undo_last call in undo_until", len(ul), 1)
        loops = b.loops()
        okloop = bool(ul) and any(ul[0][0] in body for h, body, _ in loops)
        ctx.ob(R, b.key, "undo_last-in-loop", okloop, b.loc(), "decisions are undone one by one in a loop")
        # exits of that loop: (a) stack.last() == None, (b) level(decision) <= level
        exits_ok = False
        for h, body, _ in loops:
            if not ul or ul[0][0] not in body:
                continue
            kinds = set()
            for c in cs:
                if c.bb not in body:
                    continue
                outs = [(lab, tgt) for lab, tgt in list(c.edges.items()) + [("otherwise", c.otherwise)] if tgt is not None and tgt not in body]
                if not outs:
                    continue
                if c.kind == "discr" and c.src and c.src["k"] == "call" and c.src["t"]["f"]["name"] == "last":
                    kinds.add("empty")
                elif c.kind == "bool" and c.src and c.src.get("k") == "call" and c.src["t"]["f"]["name"] == "is_some_and" and \
                        any(lab is False for lab, _t in outs):
                    # `while stack.last().is_some_and(|d| level(d) > target)`: leaves the loop on None or when the
                    # closure's comparison is false
                    ld, _ = q.origin_thru(b, c.src["t"]["args"][0], transparent=set())
                    cd = b.origin(c.src["t"]["args"][1])
                    okcl = False
                    if cd["k"] == "rvalue" and cd["r"].get("ak") == "closure":
                        cb = crate.by_path.get(cd["r"]["def"])
                        if cb is not None:
                            for ii, jj, ss in cb.assigns():
                                r = ss["r"]
                                if ss["p"]["l"] == 0 and r["k"] == "bin" and r["op"] == "Gt":
                                    a, _ = q.origin_thru(cb, r["a"], transparent=set())
                                    bb2, _ = q.origin_thru(cb, r["b"], transparent=set())
                                    okcl = a["k"] == "call" and a["t"]["f"]["name"] == "level" and bb2["k"] == "arg"
                    if ld["k"] == "call" and ld["t"]["f"]["name"] == "last" and okcl:
                        kinds.add("empty")
                        kinds.add("level<=target")
                    else:
                        kinds.add("other")
                elif c.kind == "cmp" and c.op == "Le":
                    a, _ = q.origin_thru(b, c.a, transparent=set())
                    bb_, _ = q.origin_thru(b, c.b, transparent=set())
                    if a["k"] == "call" and a["t"]["f"]["name"] == "level" and bb_["k"] == "arg" and bb_["l"] == 2 and \
                            any(lab is True for lab, _t in outs):
                        kinds.add("level<=target")
                    else:
                        kinds.add("other-cmp")
                else:
                    kinds.add("other")
            exits_ok = kinds == {"empty", "level<=target"}
            ctx.ob(R, b.key, "loop-exits", exits_ok, b.loc(h), "the undo loop exits only on an empty trail or at level(decision) <= target (found: %s)" % sorted(kinds))
        # level 0 clears everything
        okz = False
        for c in cs:
            if c.kind == "cmp" and c.op == "Eq" and c.b.get("v") == 0:
                cl = b.calls_to(DT + "clear")
                okz = bool(cl) and q.edge_dominates(b, c.bb, c.target(True), cl[0][0])
        ctx.ob(R, b.key, "level-0-clears", okz, b.loc(), "undo_until(0) clears the whole tracker")
    b = body_by_key(crate, DT + "undo_last")
    if b is None:
        ctx.ob(R, DT + "undo_last", "exists", False, "", "not found")
    else:
        pops = [(i, t) for i, t in b.calls() if t.get("f") and t["f"]["name"] == "pop"]
        rs = b.calls_to(DMAP + "reset")
        ok = False
        if pops and rs:
            d, _ = q.origin_thru(b, rs[0][1]["args"][1], transparent={"std::option::Option::unwrap", "std::option::Option::expect"})
            ok = d["k"] == "call" and d["bb"] == pops[0][0] and any(isinstance(e, dict) and e.get("n") == "variable" for e in d.get("proj", []))
            pd = b.postdominators()
            ok = ok and rs[0][0] in pd.get(0, set()) and pops[0][0] in pd.get(0, set())
        ctx.ob(R, b.key, "pop-and-reset-same-variable", ok, b.loc(), "the popped decision's variable is reset in the decision map on every path")
        # propagate_index is pulled back
        ws = [s for i, j, s in b.assigns() if any(isinstance(e, dict) and e.get("n") == "propagate_index" for e in s["p"].get("p", []))]
        ctx.ob(R, b.key, "propagate_index-reset", bool(ws), b.loc(), "the propagation cursor is pulled back to the new top of the trail")
    b = body_by_key(crate, DMAP + "reset")
    if b is not None:
        ok = False
        for i, j, s in b.assigns():
            d = b.origin(s["r"]["o"]) if s["r"]["k"] == "use" else {"k": "?"}
            if d["k"] == "call" and d["t"]["f"]["name"] == "undecided":
                ok = True
        ctx.ob(R, b.key, "reset-writes-undecided", ok, b.loc(), "reset stores the undecided marker")
    # who may shrink the trail: only undo_last's pop (which resets the map entry of the popped decision); any other removal from
    # `stack` leaves decisions "installed" in the map that decide() and chosen_solvables() read
    TRACKER_ADT = "resolvo::solver::decision_tracker::DecisionTracker"
    n_mut = 0
    for bb_ in crate.bodies:
        if bb_.crate.is_test:
            continue
        for i, t in bb_.calls():
            f = t.get("f")
            if not f or not t["args"] or f["name"] not in ("pop", "truncate", "clear", "drain", "remove", "swap_remove", "retain",
                                                         "split_off", "set_len", "pop_if", "dedup", "resize", "take"):
                continue
            d, _ = q.origin_thru(bb_, t["args"][0])
            if not q.mentions_field(d, TRACKER_ADT, "stack"):
                continue
            n_mut += 1
            fn = q.enclosing_fn(crate, bb_)
            ctx.ob(R, fn, "trail-shrinks:%s" % f["name"], fn == DT + "undo_last" and f["name"] == "pop", where_call(bb_, i),
                   "decisions leave the trail only through undo_last's pop, which also resets their map entry")
    ctx.floor(R, "removals from the trail", n_mut, 1)
    # clear() resets the whole tracker (map, stack, propagate index) via Default
    b = body_by_key(crate, DT + "clear")
    if b is not None:
        ok = any(t.get("f") and "std::default::Default::default" in callee_keys(t["f"]) and "DecisionTracker" in (t["f"].get("resolved") or t["f"].get("self_ty") or "")
                 for i, t in b.calls())
        ctx.ob(R, b.key, "clear=default", ok, b.loc(), "clear replaces the tracker by its Default value")
