"""C04 - solve and conflict rendering always terminate without panicking (structural clause).

  guarded-index      every index / unchecked access into the id-indexed growable tables (SolverState.name_activity,
                     DecisionMap.map, the hint bit vector) is dominated in the same function by a length test or a resize of
                     that table - with one frozen, reasoned exception
  two-watch-distinct binary clause constructors get two variables that are distinct by construction or by a dominating
                     inequality test (Constrains(parent == forbidden) is the known finding D7)
  parent-not-false   the protocol behind the assert_ne! in Clause::requires / Clause::constrains: a solvable is only encoded when
                     it is not assigned false - eager queueing is guarded by `assigned_value != Some(false)` and run_sat
                     only passes true decisions
  soft-precondition  solve() starts a run for a soft requirement only if it is still undecided, re-checked per iteration
  cached-implies-ok  SolverCache getters can fail (cancellation poll) only on a cache miss - Conflict::graph relies on it
  render-terminates  the conflict message traversal marks every candidate as reported before pushing its children
  panic-census       the explicit panic sites (unreachable!/assert!/expect/unwrap/panic!) reachable from solve and the
                     rendering entry points are frozen (function, kind, message) with a discharge class; a new site is a violation

Added after the second and third seeding rounds:
  assertions / conflict-signal / unsolvable-at-root / grow-to-fit  protocols behind `unreachable!` in decide(), the level assertion
                in analyze_unsolvable and Mapping's checked indexing (shared with C01, C02, C19)
  resize-covers-index  a growth site of an id-indexed table computes the new length from the index about to be used
  poll-only-where-the-provider-is-fetched  cancellation is polled in the cache only in get_or_cache_candidates / _dependencies
                (Conflict::graph unwraps the derived caches)

Added after the fifth and sixth seeding rounds:
  unreachable-arms   the `Conflict(_) => unreachable!()` arms in conflict.rs are protected by a test on the whole Conflict variant (C04-13)
  recursion-census   a function on the solve / rendering path that calls itself must be in the reviewed table with its termination
                     argument (C04-17: a memoized recursive rewrite of get_installable_set never returns on a cyclic conflict graph)
  core(verdict)      the trail discipline behind the `expect("bug: ...")` sites: implied decisions at the current level, backjump to the
                     learnt clause's level, undo in step with the map (C04-16); rules/core.py
"""
import json, os
from common import *
import q, enc, mech
from enc import *

HERE = os.path.dirname(os.path.abspath(__file__))
ENTRY = [SOLVER + "solve", "resolvo::conflict::Conflict::graph", "resolvo::conflict::ConflictGraph::graphviz",
         "resolvo::conflict::Conflict::display_user_friendly"]


def run(ctx):
    ctx.explanation = (
        "Static clause of C04: exact disciplines whose violation is a panic or a non-terminating loop on some well-formed input - "
        "guarded indexing of id-indexed growable tables, distinct watch variables for binary clauses, the not-false protocol behind "
        "the assertions in Clause::requires/constrains (eager encoding guarded, only true decisions encoded), the per-iteration "
        "undecided test for soft requirements, failure of cache getters only on a miss, marking conflict-graph candidates reported "
        "before their children are pushed; plus a frozen census of every explicit panic site reachable from the four entry points "
        "(evaluated with and without debug assertions in the thorough tier). Termination of the CDCL loop and the truth of the "
        "runtime invariants classed `assumed` are NOT decided.")
    ctx.assumptions += ["runtime invariants listed with class `assumed` in rules/c04_panic_sites.json hold",
                        "the CDCL loop terminates (no ranking function is derivable here)"]
    cfgs = ["cfgA"] if ctx.tier == "quick" else ["cfgA", "cfgB", "cfgC"]
    for cfg in cfgs:
        tag = "" if cfg == "cfgA" else "@" + cfg
        crate = lib(ctx, cfg)
        crs = crates(ctx, cfg)
        ctx.count("functions_analysed", len(crate.bodies))
        ctx.guard("guarded-index" + tag, guarded_index, ctx, crate, crs, tag)
        ctx.guard("two-watch-distinct" + tag, two_watch, ctx, crate, crs, tag)
        ctx.guard("parent-not-false" + tag, parent_not_false, ctx, crate, crs, tag)
        ctx.guard("soft-precondition" + tag, soft_precondition, ctx, crate, crs, tag)
        ctx.guard("cached-implies-ok" + tag, cached_implies_ok, ctx, crate, crs, tag)
        ctx.guard("recursion-census" + tag, recursion_census, ctx, crate, crs, tag)
        ctx.guard("render-terminates" + tag, render_terminates, ctx, crate, crs, tag)
        ctx.guard("panic-census" + tag, panic_census, ctx, crate, crs, tag, cfg)
        ctx.guard("unreachable-arms" + tag, unreachable_arms, ctx, crate, crs, tag)
        # protocols behind `unreachable!` in decide() and the level assertion in analyze_unsolvable (shared with C01 / C02):
        # negative assertions are re-applied in full each round; a run is declared unsolvable only at its first level
        import c01, c02
        ctx.guard("assertions" + tag, c01.assertions, ctx, crate, crs, tag)
        ctx.guard("conflict-signal" + tag, c02.conflict_signal, ctx, crate, crs, tag)
        ctx.guard("unsolvable-at-root" + tag, c02.unsolvable_at_root, ctx, crate, crs, tag)
        # ... and the trail discipline those `expect("bug: ...")` / debug assertions rest on: implied decisions at the current
        # level, backjump to the learnt clause's level, undo in step with the map (seed C04-16: two harmless-looking edits make the
        # trail non-monotonic in level, undo_until stops early, "already decided" panics)
        import core
        ctx.guard("core" + tag, core.verdict, ctx, crate, crs, tag)      # see rules/core.py
        # id-indexed Mapping (watch lists, learnt_why, snapshot tables): growth covers the index about to be used
        import c19
        ctx.guard("grow-to-fit" + tag, c19.grow_to_fit, ctx, crate, crs, c19.env(), tag)


def unreachable_arms(ctx, crate, crs, tag):
    """conflict.rs groups a node's outgoing Requires edges in a closure whose `ConflictEdge::Conflict(_)` arm is `unreachable!()`.
    That arm is dead only because the same function first skips every node that has *any* outgoing Conflict edge - a test on the
    whole variant.  A guard that looks inside the variant (only some ConflictCause kinds) lets the remaining kinds through."""
    R = "unreachable-arms" + tag
    EDGE_ADT = "resolvo::conflict::ConflictEdge"
    CAUSE_ADT = "resolvo::conflict::ConflictCause"
    n = 0
    fams = {}
    for b in crate.bodies:
        if b.key.startswith("resolvo::conflict::") and not b.crate.is_test:
            fams.setdefault(strip_generics(b.root) if b.root else b.key, []).append(b)
    for root, bodies in sorted(fams.items()):
        panicking = []
        for b in bodies:
            for c in q.conds(b, crs):
                if c.kind == "discr" and c.adt == EDGE_ADT and "Conflict" in c.edges:
                    # the arm itself panics (no further test between the variant match and the panic), inside a closure
                    sw = [x for x in range(b.n) if b.blocks[x]["term"]["k"] == "switch" and x != c.edges["Conflict"]]
                    reach = b.reachable([c.edges["Conflict"]], avoid=[t_ for v_, t_ in c.edges.items() if v_ != "Conflict"] + sw)
                    if b.kind == "Closure" and b.blocks[c.edges["Conflict"]]["term"]["k"] != "switch" and \
                            any(t.get("f") and "panic" in t["f"]["path"] for i, t in b.calls() if i in reach and not b.blocks[i].get("cleanup")):
                        panicking.append(b)
        if not panicking:
            continue
        n += 1
        guards = []
        for b in bodies:
            if b in panicking:
                continue
            for c in q.conds(b, crs):
                if c.kind == "discr" and c.adt == EDGE_ADT and "Conflict" in c.edges:
                    reach = b.reachable([c.edges["Conflict"]])
                    inner = [c2 for c2 in q.conds(b, crs) if c2.kind == "discr" and c2.adt == CAUSE_ADT and c2.bb in reach]
                    if not inner:
                        guards.append(b.key)
        ctx.ob(R, root, "conflict-edges-excluded-as-a-whole", bool(guards), panicking[0].loc(),
               "the `Conflict(_) => unreachable!()` arm is protected by a test on the whole Conflict variant (%s)" % guards[0].split("::")[-1] if guards else
               "no test in this function excludes every kind of Conflict edge before the closure whose Conflict arm is unreachable!(): the kinds let through panic there")
    # no floor: the instances are hazards, not protections - a rewrite without `unreachable!()` arms leaves nothing to protect
    ctx.count("unreachable_conflict_arms" + tag, n)


# ------------------------------------------------------------------------------------------------
TABLES = [(STATE_ADT, "name_activity"), ("resolvo::solver::decision_map::DecisionMap", "map"),
          (CACHE_ADT, "hint_dependencies_available")]
INDEX_EXCEPTIONS = {
    (SOLVER + "decide", "name_activity"):
        "index = package of a version set of a requirement in requires_clauses; queue_package precedes queue_requirement "
        "(C01 encoding) and on_candidates_available sizes the vector before that requirement's candidates are processed",
}


def guarded_index(ctx, crate, crs, tag):
    R = "guarded-index" + tag
    n = 0
    for b in crate.bodies:
        if b.crate.is_test:
            continue
        sites = []
        for i, t in b.calls():
            f = t.get("f")
            if f is None or not t["args"]:
                continue
            nm = f["name"]
            if nm not in ("index", "index_mut", "get_unchecked", "get_unchecked_mut", "set"):
                continue
            d, ch = q.origin_thru(b, t["args"][0])
            for adt, fld in TABLES:
                if q.mentions_field(d, adt, fld):
                    if nm == "set" and "bitvec" not in f["path"]:
                        continue
                    sites.append((i, t, fld, nm))
        if not sites:
            continue
        cs = q.conds(b, crs)
        root_fn = q.enclosing_fn(crate, b)
        for i, t, fld, nm in sites:
            n += 1
            # a dominating length test / resize on the same table
            guard = None
            for c in cs:
                if c.kind != "cmp":
                    continue
                for side in (c.a, c.b):
                    dd, _ = q.origin_thru(b, side, transparent=set())
                    if dd["k"] == "call" and dd["t"]["f"]["name"] == "len":
                        rr, _ = q.origin_thru(b, dd["t"]["args"][0])
                        if any(q.mentions_field(rr, a, fld) for a, f2 in TABLES if f2 == fld):
                            # either edge may lead to the access, as long as the out-of-range edge resizes first
                            strict_ok = (side is c.b and c.op in ("Ge", "Lt")) or (side is c.a and c.op in ("Le", "Gt"))
                            if not strict_ok and len(t["args"]) > 1:
                                # `len < idx + 1` / `idx + 1 > len`: the same test against the required length of this very index
                                other = c.b if side is c.a else c.a
                                lt = (side is c.a and c.op == "Lt") or (side is c.b and c.op == "Gt")
                                od, _ = q.origin_thru(b, other, transparent=set())
                                if lt and od.get("k") == "rvalue" and od["r"]["k"] == "bin" and od["r"]["op"].replace("WithOverflow", "") == "Add" and \
                                        any(o.get("k") == "const" and o.get("v") == 1 for o in (od["r"]["a"], od["r"]["b"])):
                                    base = od["r"]["a"] if od["r"]["b"].get("k") == "const" else od["r"]["b"]
                                    if q.slice_locals(b, base) & q.slice_locals(b, t["args"][1]) or \
                                            (q.leaves(b, base) & q.leaves(b, t["args"][1])) - {"const"}:
                                        strict_ok = True
                            if not strict_ok:
                                # `len < n` is the right test when n is a required *length*: the maximum over a collection of
                                # (index + 1), grown to before the same collection is walked (benign refactor 73: grow once)
                                g = _grown_to_required_length(crate, b, c, side, i, t, fld)
                                if g:
                                    guard = c
                                continue      # `idx > len` / `len < idx` style tests are off by one for an index
                            if b.dominates(c.bb, i):
                                tr, fl = c.target(True), c.target(False)
                                resize = [x for x, tt in b.calls() if tt.get("f") and tt["f"]["name"] in ("resize", "resize_with")]
                                out_edge = tr if (c.op in ("Le", "Lt") and side is c.a) or (c.op in ("Ge", "Gt") and side is c.b) else fl
                                # simple: access reachable from the out-of-range edge only through a resize
                                reach_wo = b.reachable([out_edge], avoid=resize)
                                if i not in reach_wo or out_edge is None:
                                    guard = c
                                    # the resize must cover the index: its new length is computed from the index
                                    idx_locs = q.slice_locals(b, t["args"][1]) if len(t["args"]) > 1 else set()
                                    for x in resize:
                                        tt = b.blocks[x]["term"]
                                        if out_edge is None or x not in b.reachable([out_edge]) or len(tt["args"]) < 2:
                                            continue
                                        rr2, _ = q.origin_thru(b, tt["args"][0])
                                        if not any(q.mentions_field(rr2, a, fld) for a, f2 in TABLES if f2 == fld):
                                            continue
                                        covers = bool(idx_locs & q.slice_locals(b, tt["args"][1]))
                                        ctx.ob(R, root_fn, "%s:resize-covers-index" % fld, covers, where_call(b, x),
                                               "the table is grown to a length computed from the index about to be used")
            exc = INDEX_EXCEPTIONS.get((root_fn, fld))
            ok = guard is not None
            if not ok and exc:
                ctx.ob(R, root_fn, "%s[%s]:frozen-exception" % (fld, nm), True, where_call(b, i), exc)
                continue
            ctx.ob(R, root_fn, "%s[%s]" % (fld, nm), ok, where_call(b, i),
                   "access is dominated by a length test of %s whose out-of-range edge resizes first" % fld if ok else
                   "%s is accessed by index without a dominating length test / resize in this function" % fld)
    ctx.floor(R, "indexed accesses to id-indexed tables", n, 3)


# ------------------------------------------------------------------------------------------------
def _grown_to_required_length(crate, b, c, side, acc_bb, acc_t, fld):
    """cond `len(table) < n` (or `n > len(table)`) dominating the access, where n = max over a collection of (to_usize(..) + 1),
    the in-range edge or a resize(table, n) leads to the access, and the accessed index is to_usize of an element of the same
    collection."""
    other = c.b if side is c.a else c.a
    lt = (side is c.a and c.op == "Lt") or (side is c.b and c.op == "Gt")
    if not lt or not b.dominates(c.bb, acc_bb) or len(acc_t["args"]) < 2:
        return False
    n_locs = q.slice_locals(b, other)
    n_leaves = q.leaves(b, other)
    if "call:max" not in n_leaves:
        return False
    plus_one = False
    for i, j, s_ in b.assigns():
        r = s_["r"]
        if r["k"] == "agg" and r.get("ak") == "closure" and s_["p"]["l"] in n_locs:
            cb = crate.by_path.get(r["def"])
            if cb is None:
                continue
            for ci, cj, cs_ in cb.assigns():
                cr = cs_["r"]
                if cr["k"] == "bin" and cr["op"] in ("Add", "AddWithOverflow", "AddUnchecked") and \
                        any(o.get("k") == "const" and o.get("v") == 1 for o in (cr["a"], cr["b"])) and \
                        any(t2.get("f") and t2["f"]["name"] == "to_usize" for _, t2 in cb.calls()):
                    plus_one = True
    if not plus_one:
        return False
    # out-of-range edge resizes the table to n
    out_edge = c.target(True)
    resized = False
    for x, tt in b.calls():
        if tt.get("f") and tt["f"]["name"] in ("resize", "resize_with") and x in b.reachable([out_edge]) and len(tt["args"]) >= 2:
            rr2, _ = q.origin_thru(b, tt["args"][0])
            if any(q.mentions_field(rr2, a, fld) for a, f2 in TABLES if f2 == fld) and (q.slice_locals(b, tt["args"][1]) & n_locs):
                resized = True
    if not resized or acc_bb in b.reachable([out_edge], avoid=[x for x, tt in b.calls() if tt.get("f") and tt["f"]["name"] in ("resize", "resize_with")]):
        return False
    # the index is to_usize of an element of the collection the maximum was taken over
    idx_leaves = q.leaves(b, acc_t["args"][1])
    if "call:to_usize" not in idx_leaves:
        return False
    src_n = {l for l in n_leaves if l.startswith(("field:", "lfield:", "arg:"))}
    src_i = {l for l in idx_leaves if l.startswith(("field:", "lfield:", "arg:"))}
    shared_locals = (q.slice_locals(b, acc_t["args"][1]) & n_locs)
    return bool(src_n & src_i) or bool(shared_locals)


def two_watch(ctx, crate, crs, tag):
    R = "two-watch-distinct" + tag
    for ctor in ("constrains", "lock", "forbid_multiple"):
        sites = q.callers_of(crate, WLP + ctor)
        ctx.floor(R, "call sites of WatchedLiterals::%s" % ctor, len([s for s in sites if not s[0].crate.is_test]), 1)
        for b, i, t in sites:
            if b.crate.is_test:
                continue
            fn = q.enclosing_fn(crate, b)
            a0, _ = q.origin_thru(b, t["args"][0], transparent=set())
            a1, _ = q.origin_thru(b, t["args"][1], transparent={POS, NEG})
            ok, why = False, ""
            if ctor == "lock":
                # watches are (root, other): other is an interned *solvable* variable, never the root
                ok = a1["k"] == "call" and a1["t"]["f"]["name"] == "intern_solvable"
                why = "Lock watches root and a solvable variable (intern_solvable never returns the root)"
            elif ctor == "forbid_multiple":
                # (candidate, helper literal): callback args #2 and #3 of AtMostOnceTracker::add; the helper is a fresh variable
                src1 = None
                if a1["k"] == "arg":
                    src1 = a1["l"]
                elif a1["k"] == "multi":
                    ls = set()
                    for bb, idx, r in a1.get("defs", []):
                        if idx == "term" and r["args"]:
                            dd = b.origin(r["args"][0])
                            ls.add(dd["l"] if dd["k"] == "arg" else None)
                    src1 = ls.pop() if len(ls) == 1 else None
                if src1 is None and a1["k"] == "call" and a1["t"].get("f") and a1["t"]["f"]["name"] == "new" and a1["t"]["args"]:
                    dd = b.origin(a1["t"]["args"][0])          # Literal::new(helper, ..)
                    src1 = dd["l"] if dd["k"] == "arg" else None
                ok = a0["k"] == "arg" and src1 is not None and a0["l"] != src1
                why = "at-most-one clauses join a candidate with a helper variable"
            else:
                # constrains(parent, forbidden): needs an inequality test on the two variables dominating the call
                for c in q.conds(b, crs):
                    srcs = []
                    if c.kind == "cmp" and c.op in ("Eq", "Ne"):
                        srcs = [q.origin_thru(b, c.a, transparent=set())[0], q.origin_thru(b, c.b, transparent=set())[0]]
                    elif c.kind == "bool" and c.src and c.src.get("k") == "call" and c.src["t"]["f"]["name"] in ("eq", "ne"):
                        srcs = [q.origin_thru(b, x)[0] for x in c.src["t"]["args"][:2]]
                    if len(srcs) == 2 and {(_k(srcs[0])), (_k(srcs[1]))} == {_k(a0), _k(a1)}:
                        neq_edge = c.target(False) if (c.op == "Eq" if c.kind == "cmp" else c.src["t"]["f"]["name"] == "eq") else c.target(True)
                        if q.edge_dominates(b, c.bb, neq_edge, i):
                            ok = True
                why = "parent and forbidden candidate are tested to be different before a two-literal clause is built" if ok else \
                    "Constrains(parent, forbidden) is built without testing parent != forbidden: a solvable whose constrains entry " \
                    "excludes itself yields two identical watches (debug_assert in from_kind_and_initial_watches)"
            ctx.ob(R, fn, ctor, ok, where_call(b, i), why)


def _k(d):
    return (d["k"], d.get("l"), d.get("bb"))


# ------------------------------------------------------------------------------------------------
def parent_not_false(ctx, crate, crs, tag):
    R = "parent-not-false" + tag
    # (1) the assertion exists in both constructors (it documents the protocol; removing it hides violations)
    for ctor in ("requires", "constrains"):
        b = body_by_key(crate, CLAUSE + "::" + ctor)
        has = b is not None and any(t.get("f") and t["f"]["name"] == "assert_failed" for i, t in b.calls())
        ctx.ob(R, CLAUSE + "::" + ctor, "asserts-parent-not-false", has, b.loc() if b else "", "the constructor states its precondition")
    # (2) eager queueing of a candidate is dominated by `assigned_value(candidate_var) != Some(false)`
    b = body_by_key(crate, ENC + "on_requirement_candidates_available")
    if b is None:
        ctx.ob(R, ENC + "on_requirement_candidates_available", "exists", False, "", "not found")
    else:
        for i, t in b.calls_to(ENC + "queue_solvable"):
            ok = False
            wrong_var = False
            for c in q.conds(b, crs):
                if c.kind == "bool" and c.src and c.src.get("k") == "call" and c.src["t"]["f"]["name"] in ("ne", "eq"):
                    xs = [q.origin_thru(b, a, transparent=set())[0] for a in c.src["t"]["args"][:2]]
                    av = [x for x in xs if x["k"] == "call" and x["t"]["f"]["name"] == "assigned_value"]
                    sf = []
                    for x in xs:
                        r = x["r"] if x["k"] == "rvalue" else q.promoted_rvalue(crate, b, x)
                        if r is not None and r.get("variant") == "Some" and r["ops"] and r["ops"][0].get("v") is False:
                            sf.append(x)
                    if av and sf:
                        edge = c.target(True) if c.src["t"]["f"]["name"] == "ne" else c.target(False)
                        if q.edge_dominates(b, c.bb, edge, i):
                            # the tested variable belongs to the queued candidate: both are computed from the same loop
                            # element (a local defined by Iterator::next); testing the requiring parent instead says nothing
                            nexts = {l for l in range(len(b.d["locals"])) for bb_, idx_, r_ in b.defs_of(l)
                                     if idx_ == "term" and r_.get("f") and r_["f"]["name"] == "next"}
                            qs = q.slice_locals(b, t["args"][1]) & nexts if len(t["args"]) > 1 else set()
                            vs_ = set()
                            for x in av:
                                if len(x["t"]["args"]) > 1:
                                    vs_ |= q.slice_locals(b, x["t"]["args"][1])
                            if not qs or (qs & vs_):
                                ok = True
                            else:
                                wrong_var = True
            ctx.ob(R, b.key, "eager-queue-skips-false-candidates", ok, where_call(b, i),
                   "a candidate is encoded eagerly only if it is not already assigned false" if ok else
                   ("the `!= Some(false)` test in front of the eager queueing looks at a variable that is not the queued candidate's: " if wrong_var else "") +
                   "a candidate that is already assigned false can be encoded eagerly: Clause::requires asserts its parent is not false")
    # (3) run_sat encodes only true decisions / the solvable it just decided true
    rs = body_by_key(crate, SOLVER + "run_sat")
    if rs is not None:
        import c09
        okv = c09.stack_filters(crate, crs)[0]
        ctx.ob(R, rs.key, "encodes-only-true-decisions", okv, rs.loc(), "new solvables are filtered on decision.value")
        # root encode happens right after deciding the root solvable true
        encs = rs.calls_to(ENC + "encode")
        tads = rs.calls_to(DT + "try_add_decision")
        root_encs = [i for i, t in encs if {x for x in q.leaves(rs, t["args"][1]) if not x.startswith("call:")} <= {"arg:2", "const"}]
        ok_first = bool(root_encs) and all(any(rs.dominates(j, i) for j, _ in tads) for i in root_encs)
        ctx.ob(R, rs.key, "root-decided-true-before-encode", ok_first, rs.loc(), "the run's solvable is decided true before it is encoded")


# ------------------------------------------------------------------------------------------------
def soft_precondition(ctx, crate, crs, tag):
    R = "soft-precondition" + tag
    b = body_by_key(crate, SOLVER + "solve")
    if b is None:
        ctx.ob(R, SOLVER + "solve", "exists", False, "", "not found")
        return
    runs = b.calls_to(SOLVER + "run_sat")
    loops = for_loops(b, crs)
    in_loop = [(i, t) for i, t in runs if any(i in l[1] for l in loops)]
    ctx.floor(R, "run_sat call inside the soft-requirement loop", len(in_loop), 1)
    for i, t in in_loop:
        loop = [l for l in loops if i in l[1]][0]
        ok, why = False, "no `is_none(assigned_value(var))` test dominating the run"
        for c in q.conds(b, crs):
            # `if x.is_none() { run }` or `if x.is_some() { continue }` (also through a named boolean)
            if c.kind == "bool" and c.src and c.src.get("k") == "call" and c.src["t"]["f"]["name"] in ("is_none", "is_some"):
                undecided_edge = c.target(c.src["t"]["f"]["name"] == "is_none")
                d, _ = q.origin_thru(b, c.src["t"]["args"][0], transparent=set())
                if d["k"] == "call" and d["t"]["f"]["name"] == "assigned_value" and q.edge_dominates(b, c.bb, undecided_edge, i):
                    if d["bb"] in loop[1]:
                        # and it is about this iteration's solvable
                        vd, _ = q.origin_thru(b, d["t"]["args"][1], transparent=set())
                        ok = vd["k"] == "call" and vd["t"]["f"]["name"] == "intern_solvable" and vd["bb"] in loop[1]
                        why = "tested variable is not the current soft solvable" if not ok else ""
                    else:
                        why = "the undecided test is evaluated once, outside the loop: an earlier soft run may have decided this solvable"
        ctx.ob(R, b.key, "soft-run-only-if-undecided-now", ok, where_call(b, i),
               "a soft requirement is attempted only if it is undecided at that moment" if ok else why)
        # the solvable passed to run_sat is this iteration's element
        ctx.ob(R, b.key, "soft-run-on-loop-element", elem_of_loop(b, loop, t["args"][1]), where_call(b, i),
               "run_sat is started for the soft solvable of this iteration")


# ------------------------------------------------------------------------------------------------
def cached_implies_ok(ctx, crate, crs, tag):
    R = "cached-implies-ok" + tag
    n = 0
    for b in crate.bodies:
        if not (b.coroutine and b.key.startswith("resolvo::solver::cache::")):
            continue
        cs = q.conds(b, crs)
        lookups = [(i, t) for i, t in b.calls() if t.get("f") and any(k in mech.LOOKUPS for k in callee_keys(t["f"]))]
        for i, t in b.calls():
            f = t.get("f")
            if f is None or not provider_call(f, "should_cancel_with_value"):
                continue
            n += 1
            ok = False
            for c in cs:
                if c.kind == "discr" and c.src and c.src["k"] == "call" and any(c.src["bb"] == li for li, _ in lookups):
                    miss = c.target("None")
                    if miss is not None and q.edge_dominates(b, c.bb, miss, i):
                        ok = True
            ctx.ob(R, b.key, "poll-only-on-miss", ok, where_call(b, i),
                   "the cancellation poll (the only source of Err) is reached only after a cache miss" if ok else
                   "a cached answer can still fail with a cancellation error; Conflict::graph treats that as unreachable")
    ctx.floor(R, "cancellation polls in the cache", n, 2)
    # ... and only in the two functions that actually fetch from the provider.  The derived caches (matching / sorted / per-
    # requirement lists) can legitimately miss while a conflict is rendered (e.g. the list of a union requirement is never cached
    # during solving); a poll there turns a cancellation signalled *after* solve() into a panic in Conflict::graph
    fetchers = {CACHE + "get_or_cache_candidates", CACHE + "get_or_cache_dependencies"}
    for b in crate.bodies:
        if not b.key.startswith("resolvo::solver::cache::"):
            continue
        for i, t in b.calls():
            f = t.get("f")
            if f is not None and provider_call(f, "should_cancel_with_value"):
                fn = q.enclosing_fn(crate, b)
                ctx.ob(R, fn, "poll-only-where-the-provider-is-fetched", fn in fetchers, where_call(b, i),
                       "cancellation is polled in the cache only right before get_candidates / get_dependencies")
    # the reliance: Conflict::graph unwraps cached lookups
    g = body_by_key(crate, "resolvo::conflict::Conflict::graph")
    if g is not None:
        sites = [(i, t) for i, t in g.calls() if t.get("f") and t["f"]["name"] == "get_or_cache_sorted_candidates"]
        ctx.count("graph_cache_reads", len(sites))


# ------------------------------------------------------------------------------------------------
def render_terminates(ctx, crate, crs, tag):
    R = "render-terminates" + tag
    fn = "resolvo::conflict::DisplayUnsat::fmt_graph"
    b = body_by_key(crate, fn)
    if b is None:
        ctx.ob(R, fn, "exists", False, "", "fmt_graph not found")
        return
    # locals: `stack` (Vec of (DisplayOp, Indenter)) and `reported` (HashSet<SolvableOrRootId>)
    rep = [i for i, l in enumerate(b.locals) if l.get("name") == "reported" or
           (l["ty"].startswith("std::collections::HashSet<resolvo::internal::id::SolvableOrRootId") and l.get("user"))]
    stk = [i for i, l in enumerate(b.locals) if l["ty"].startswith("std::vec::Vec<(resolvo::conflict::DisplayUnsat") and l.get("user")
           or l.get("name") == "stack"]
    ctx.ob(R, fn, "has-reported-set-and-stack", bool(rep) and bool(stk), b.loc(), "traversal state: stack %s, reported %s" % (stk, rep))
    if not rep or not stk:
        return
    cs = q.conds(b, crs)
    # the Candidate arm: switch on DisplayOp discriminant
    arms = [c for c in cs if c.kind == "discr" and (c.adt or "").endswith("DisplayOp")]
    # the traversal's own match is the outermost one (it dominates the pattern matches on children)
    arms = [c for c in arms if all(b.dominates(c.bb, o.bb) for o in arms)]
    cand_edges = [(c.bb, c.target("Candidate")) for c in arms if c.target("Candidate") is not None]
    ctx.floor(R, "match on DisplayOp", len(cand_edges), 1)
    # frozen bypass: the root (solvable() == None) is never the target of a requires edge, so it cannot be on a cycle
    root_bypass = set()
    for c in cs:
        if c.kind == "discr" and c.src and c.src["k"] == "call" and c.src["t"]["f"]["name"] == "solvable" and c.target("None") is not None:
            root_bypass.add(c.target("None"))

    def touches(t, locs):
        if not t["args"]:
            return False
        d, _ = q.origin_thru(b, t["args"][0], transparent=set())
        return d.get("l") in locs or (operand_place(t["args"][0]) or {}).get("l") in locs
    marks = [i for i, t in b.calls() if t.get("f") and t["f"]["name"] in ("insert", "extend") and touches(t, rep)]
    pushes = [(i, t) for i, t in b.calls() if t.get("f") and t["f"]["name"] in ("extend", "push") and touches(t, stk)]
    n = 0
    for i, t in pushes:
        if not any(q.edge_dominates(b, sb, tg, i) for sb, tg in cand_edges):
            continue    # children of a Requirement node are Candidates, which are checked when popped
        n += 1
        # every path from the Candidate arm to this push passes a mark of `reported`
        ok = False
        for sb, tg in cand_edges:
            if q.edge_dominates(b, sb, tg, i):
                reach = b.reachable([tg], avoid=set(marks) | root_bypass)
                ok = i not in reach
        ctx.ob(R, fn, "candidate-marked-before-children-pushed", ok, where_call(b, i),
               "every path that pushes a candidate's requirements first records the candidate in `reported`" if ok else
               "a candidate's children can be pushed without recording the candidate as reported: a cycle never terminates")
    ctx.floor(R, "pushes of a candidate's children", n, 1)
    # and a reported candidate is skipped
    sk = False
    for c in cs:
        if c.kind == "bool" and c.src and c.src.get("k") == "call" and c.src["t"]["f"]["name"] == "contains" and touches(c.src["t"], rep):
            sk = True
    ctx.ob(R, fn, "reported-candidates-are-skipped", sk, b.loc(), "a candidate already in `reported` is not expanded again")
    # ... unconditionally: every push of a candidate's children lies behind the `not yet reported` edge of that test.  If the skip
    # only applies to some candidates (area seed C04-19: leaves only) a shared inner node is expanded once per path to it and the
    # message grows exponentially with the depth of stacked diamonds.
    tests = [c for c in cs if c.kind == "bool" and c.src and c.src.get("k") == "call" and c.src["t"]["f"]["name"] == "contains" and touches(c.src["t"], rep)]
    for i, t in pushes:
        if not any(q.edge_dominates(b, sb, tg, i) for sb, tg in cand_edges):
            continue
        okd = any(q.edge_dominates(b, c.bb, c.target(False), i) for c in tests)
        ctx.ob(R, fn, "children-pushed-only-if-not-yet-reported", okd, where_call(b, i),
               "the push of a candidate's children is dominated by the `!reported.contains(candidate)` edge")


# ------------------------------------------------------------------------------------------------
def reachable_bodies(crate):
    by_key = {}
    for b in crate.bodies:
        by_key.setdefault(b.key, []).append(b)
    entries = [e for e in ENTRY if e in by_key] + [b.key for b in crate.bodies if "DisplayUnsat" in b.key and b.key.endswith("::fmt")]
    seen = set()
    st = list(entries)
    while st:
        k = st.pop()
        if k in seen:
            continue
        seen.add(k)
        for b in by_key.get(k, []):
            out = set()
            for i, t in b.calls():
                f = t.get("f")
                if f:
                    for kk in callee_keys(f):
                        if kk in by_key:
                            out.add(kk)
                        if kk + "::{closure#0}" in by_key:
                            out.add(kk + "::{closure#0}")
            for i, j, s in b.assigns():
                r = s["r"]
                if r["k"] == "agg" and r.get("def"):
                    kk = strip_generics(r["def"])
                    if kk in by_key:
                        out.add(kk)
            st.extend(x for x in out if x not in seen)
    for b in crate.bodies:
        if b.root and strip_generics(b.root) in seen:
            seen.add(b.key)
    return seen, by_key


def panic_sites(crate):
    seen, by_key = reachable_bodies(crate)
    out = []
    for k in sorted(seen):
        if k.startswith("resolvo::solver::diagnostics::"):
            continue
        for b in by_key.get(k, []):
            for i, t in b.calls():
                f = t.get("f")
                if not f:
                    continue
                nm, path = f["name"], f["path"]
                exp = t.get("exp") or []
                if any("valueset" in e or "tracing" in e or "::event" in e for e in exp):
                    continue
                kind = None
                if "panicking" in path or nm in ("panic_fmt", "panic", "assert_failed", "panic_display", "panic_explicit", "begin_panic",
                                                 "unreachable_display", "panic_nounwind", "panic_const"):
                    mac = [e.split(":")[-1] for e in exp if e.startswith("macro:") and "$" not in e]
                    kind = (mac[-1] if mac else "panic")
                elif nm in ("unwrap", "expect", "unwrap_err", "expect_err") and ("Option" in path or "Result" in path):
                    kind = nm
                elif nm == "debug_expect_unchecked":
                    kind = nm
                if not kind:
                    continue
                msg = ""
                for a in t["args"]:
                    d = b.origin(a)
                    if d["k"] == "const" and d["c"].get("s"):
                        msg = d["c"]["s"].strip('"')[:60]
                out.append({"function": q.enclosing_fn(crate, b), "kind": kind, "msg": msg, "where": where_call(b, i)})
    return out


def panic_census(ctx, crate, crs, tag, cfg):
    R = "panic-census" + tag
    table = json.load(open(os.path.join(HERE, "c04_panic_sites.json")))
    allowed = {}
    for e in table["sites"]:
        allowed[(e["function"], e["kind"], e["msg"])] = e
    sites = panic_sites(crate)
    ctx.count("explicit_panic_sites_reachable", len(sites))
    found = {}
    for s in sites:
        key = (s["function"], s["kind"], s["msg"])
        found[key] = found.get(key, 0) + 1
    n_new = 0
    # a reviewed site that merely moved to another function (helper inlined into its caller, code moved between functions) is
    # recognised by (kind, message): the number of reachable sites with that pair must not exceed the reviewed number
    by_msg_allowed, by_msg_found = {}, {}
    for (fn, kind, msg), e in allowed.items():
        by_msg_allowed[(kind, msg)] = by_msg_allowed.get((kind, msg), 0) + e.get("count", 1)
    for (fn, kind, msg), cnt in found.items():
        by_msg_found[(kind, msg)] = by_msg_found.get((kind, msg), 0) + cnt
    for key, cnt in sorted(found.items()):
        e = allowed.get(key)
        if e is None and key[2] and by_msg_found.get(key[1:], 0) <= by_msg_allowed.get(key[1:], 0):
            moved = [k for k in allowed if k[1:] == key[1:]]
            allowed[key] = dict(allowed[moved[0]], moved_from=moved[0][0])
            ctx.notes.append("panic site %s:%r moved from %s to %s" % (key[1], key[2][:40], moved[0][0], key[0]))
            continue
        if e is None:
            n_new += 1
            w = [s["where"] for s in sites if (s["function"], s["kind"], s["msg"]) == key][0]
            ctx.ob(R, key[0], "new-panic-site:%s:%s" % (key[1], key[2][:30]), False, w,
                   "explicit panic site reachable from solve / conflict rendering that is not in the reviewed census "
                   "(rules/c04_panic_sites.json): review its precondition")
        elif cnt > e.get("count", 1):
            ctx.ob(R, key[0], "more-panic-sites:%s:%s" % (key[1], key[2][:30]), False, "",
                   "%d sites with this key, %d reviewed" % (cnt, e.get("count", 1)))
    classes = {}
    for key in found:
        e = allowed.get(key)
        if e:
            classes[e["class"]] = classes.get(e["class"], 0) + 1
    ctx.ob(R, "-", "census-matches-reviewed-table", n_new == 0, "",
           "%d distinct reachable explicit panic sites, all reviewed; by class: %s" % (len(found), classes))
    ctx.floor(R, "reachable explicit panic sites", len(found), 45 if "debug_assertions" in crate.cfg else 35)
    if tag == "":
        ctx.notes.append("panic sites by class (cfgA): %s" % classes)


# ------------------------------------------------------------------------------------------------
RECURSIVE_REVIEWED = {
    # function (root of its closures) : why the recursion is bounded
    "resolvo::solver::Solver::analyze_unsolvable_clause": "recursion over learnt_why: a learnt clause's antecedents were learnt strictly earlier (ids decrease)",
}


def recursion_census(ctx, crate, crs, tag):
    """Functions on the solve / rendering paths that can reach themselves through crate-local calls (closures count for the function
    they are written in).  Recursion over a graph that may contain cycles (the conflict graph does: a=1 -> a 2, a=2 -> a 1) does not
    terminate without a visited set, and no test has a cyclic graph at that spot (seed C04-17); like a new explicit panic site a new
    recursive function is reported for review, the reviewed ones carry their termination argument."""
    R = "recursion-census" + tag
    seen, by_key = reachable_bodies(crate)
    root_of = {}
    for b in crate.bodies:
        root_of[b.key] = strip_generics(b.root) if b.root else b.key
    edges = {}
    for b in crate.bodies:
        if b.crate.is_test or b.key not in seen:
            continue
        src = root_of[b.key]
        for i, t in b.calls():
            f = t.get("f")
            if not f:
                continue
            for kk in callee_keys(f):
                if kk in by_key and all(x.kind != "Closure" for x in by_key[kk]):
                    edges.setdefault(src, set()).add(kk)
    # direct recursion only (a function, or a closure written in it, calls the function itself): calls through trait methods of the
    # provider / interner are resolved too coarsely for a precise cycle search, and every seeded or reviewed instance is direct
    rec = {f0 for f0, outs in edges.items() if f0 in outs}
    # derived impls (Debug / Clone / serde) recurse structurally over finite data and are not on these paths in practice
    rec = {f for f in rec if not any(x in f for x in (" as std::fmt::Debug>", " as std::clone::Clone>", "_serde::", " as std::cmp::", " as std::hash::"))}
    for f in sorted(rec):
        why = RECURSIVE_REVIEWED.get(f)
        ctx.ob(R, f, "recursive-function-is-reviewed", why is not None, (by_key[f][0].loc() if f in by_key else ""),
               ("bounded: " + why) if why else
               "this function can call itself (directly or through other crate functions) on the solve / rendering path and is not in the reviewed table: "
               "recursion over the conflict graph or the clause database needs a visited set to terminate")
    ctx.count("recursive_functions" + tag, len(rec))
