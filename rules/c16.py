"""C16 - a dependency snapshot is a faithful, serialisable copy of a provider (structural clause).

  id-kinds          T-DIM over SnapshotProvider: fresh version-set ids are END + ITEMS, "is additional" is IDX >= END,
                    the offset into the additional list is IDX - END (END = first id after the captured ones)
  capture-pairing   every `seen.insert(Element::X(id))` that reports "new" leads to `queue.push_back(Element::X(id))`
                    with the same id, and nothing is queued without that test (10 discovery sites)
  capture-arms      each arm of the capture loop stores into the mapping of its own kind under the element's own id
  order             per-package order: sort_candidates over a clone of every captured package's solvables
                    (iterating Mapping::iter, complete by C19), order = enumeration index
  union-order       union members are stored and handed back in a sequence (not a hash container)
  provider-siblings SnapshotProvider answers from the captured data: candidates in captured order, filter =
                    (contains != inverse), sort by the captured order key, dependencies cloned

Added after the second and third seeding rounds:
  faithful-copy     every value stored in a snapshot table is built from the provider's answer without lossy / re-ordering operations
  ids-followed      every id the capture learns from the provider is queued for capture or used as a table key
Added after the fourth round:
  builder-keeps-fields  a consuming builder method of SnapshotProvider (with_timeout) hands every field it was not asked to change
                    over from `self` - the version sets added so far (and with them the id numbering) survive
"""
from common import *
import q, dim
from dim import Env, ITEMS, IDX, LAST, END, FRESH, REL

SP = "resolvo::snapshot::SnapshotProvider"
SPP = SP + "::"
SNAP = "resolvo::snapshot::DependencySnapshot"
CAPTURE = "resolvo::snapshot::DependencySnapshot::from_provider_async"
M = "resolvo::internal::mapping::Mapping"
ELEMENT = CAPTURE + "::{closure#0}::Element"
ARM_TABLE = {"Package": "packages", "Solvable": "solvables", "String": "strings", "VersionSet": "version_sets"}


def run(ctx):
    ctx.explanation = (
        "Static clause of C16: (1) dimension analysis of SnapshotProvider's id arithmetic: the first additional id is an "
        "exclusive bound (max()+1, 0 when empty), fresh ids are END+ITEMS, the additional test is IDX>=END and the offset "
        "IDX-END - so added version sets never alias captured ones and the highest captured id stays resolvable; (2) capture "
        "completeness: every discovered id goes through seen.insert -> queue.push_back, each arm stores under its own id in "
        "its own mapping, unions are stored in listing order; (3) the per-package order is computed for every captured package "
        "and stored as the enumeration index; (4) SnapshotProvider's answers are def-use connected to the captured fields. "
        "Verdict equality with the live provider is NOT decided.")
    ctx.assumptions += ["Mapping::iter is complete and ordered (decided by C19)", "serde derive (de)serialises fields faithfully"]
    for cfg in (["cfgA"] if ctx.tier == "quick" else ["cfgA", "cfgB"]):
        tag = "" if cfg == "cfgA" else "@" + cfg
        crate = lib(ctx, cfg)
        crs = crates(ctx, cfg)
        ctx.count("functions_analysed", sum(1 for b in crate.bodies if b.key.startswith("resolvo::snapshot::")))
        id_kinds(ctx, crate, crs, tag)
        capture(ctx, crate, crs, tag)
        ctx.guard("faithful-copy" + tag, faithful_copy, ctx, crate, crs, tag)
        ctx.guard("ids-followed" + tag, ids_followed, ctx, crate, crs, tag)
        ctx.guard("builder-keeps-fields" + tag, builder_keeps_fields, ctx, crate, tag)
        if cfg != "cfgC":      # the serde feature is off without default features
            ctx.guard("serde-complete" + tag, serde_complete, ctx, crate, tag)
        order(ctx, crate, crs, tag)
        union_order(ctx, crate, tag)
        provider_siblings(ctx, crate, crs, tag)
        # the anchors of C16 include the Mapping: its iterator drives the order computation and its serde impls are the
        # snapshot's wire format - the C19 rules for both run here too
        import c19
        e19 = c19.env()
        ctx.guard("mapping-iter" + tag, c19.iter_protocol, ctx, crate, crs, e19, tag)
        ctx.guard("mapping-serde" + tag, c19.serde_shape, ctx, crate, crs, e19, tag)
        ctx.guard("mapping-bounds" + tag, c19.bounds, ctx, crate, crs, c19.mapping_bodies(crate), e19, tag)
        ctx.guard("mapping-bookkeeping" + tag, c19.bookkeeping, ctx, crate, crs, e19, tag)     # `max` bounds serialisation and fresh version-set ids


# ---------------------------------------------------------------------------------------------
def sp_env(crate, crs):
    e = Env(fields={(M, "len"): ITEMS, (M, "max"): LAST},
            calls={M + "::len": ITEMS, M + "::max": LAST, M + "::slots": END,
                   "resolvo::internal::arena::ArenaId::to_usize": IDX})

    def hook(b, term):
        f = term.get("f")
        if f and "std::vec::Vec::len" in callee_keys(f) and term["args"]:
            r, _ = q.origin_thru(b, term["args"][0])
            if q.mentions_field(r, SP, "additional_version_sets"):
                return ITEMS
        return None
    e.hook = hook
    # interprocedural summaries for usize-returning helpers of SnapshotProvider
    for b in crate.bodies:
        if b.d.get("impl_adt") == SP and b.kind == "AssocFn" and b.d.get("sig", {}).get("output") == "usize":
            k = summarise(b, e, crs)
            if k is not None:
                e.calls[b.key] = k
    return e


def summarise(b, e, crs):
    """Return kind of a helper: END if every returned value is END, or const 0 on the is_empty()==true edge."""
    kinds = []
    cs = q.conds(b, crs)
    for i, j, s in b.assigns():
        if s["p"]["l"] != 0 or "p" in s["p"]:
            continue
        r = s["r"]
        if r["k"] == "use":
            k = dim.kind_of(b, r["o"], e)
        elif r["k"] == "bin":
            k = dim.combine(r["op"].replace("WithOverflow", ""), dim.kind_of(b, r["a"], e), dim.kind_of(b, r["b"], e), e)
        else:
            k = dim.TOP
        if k == ("const", 0):
            # only when the mapping is empty
            guarded = False
            for c in cs:
                if c.kind == "bool" and c.src and c.src.get("k") == "call" and c.src["t"]["f"]["name"] == "is_empty" and \
                        q.edge_dominates(b, c.bb, c.target(True), i):
                    guarded = True
            k = END if guarded else "BAD:constant 0 returned without an is_empty() guard"
        kinds.append(k)
    for i, t in b.calls():
        if t["dest"]["l"] == 0 and "p" not in t["dest"]:
            k = dim.TOP
            if e.hook is not None:
                k = e.hook(b, t) or dim.TOP
            for key in callee_keys(t["f"]) if t.get("f") else []:
                if e.calls.get(key) is not None:
                    k = e.calls[key]
            kinds.append(k)
    ks = set(map(str, kinds))
    if len(ks) == 1:
        return kinds[0]
    return "BAD:mixed kinds %s" % sorted(ks) if kinds else None


def id_kinds(ctx, crate, crs, tag):
    e = sp_env(crate, crs)
    helper = SPP + "first_additional_version_set_id"
    n = 0
    bodies = [b for b in crate.bodies if b.d.get("impl_adt") == SP and b.kind in ("AssocFn", "Closure")]
    ctx.floor("id-kinds" + tag, "SnapshotProvider methods", len(bodies), 8)
    for k, v in sorted(e.calls.items()):
        if k.startswith(SPP):
            ctx.ob("id-kinds" + tag, k, "helper-returns-END", v == END, "", "summary: %s" % (v,))
            n += 1
    for b in bodies:
        # every arithmetic result that is ill-kinded
        for i, j, s in b.assigns():
            r = s["r"]
            if r["k"] == "bin" and r["op"].replace("WithOverflow", "") in ("Add", "Sub"):
                a, c = dim.kind_of(b, r["a"], e), dim.kind_of(b, r["b"], e)
                k = dim.combine(r["op"].replace("WithOverflow", ""), a, c, e)
                if dim.is_bad(k):
                    ctx.ob("id-kinds" + tag, b.key, "arith:%s%s%s" % (a, r["op"][:3], c), False, "%s:%s" % (b.file, s["line"]), k[4:])
                elif k in (FRESH, REL, END):
                    n += 1
                    ctx.ob("id-kinds" + tag, b.key, "arith:%s" % k, True, "%s:%s" % (b.file, s["line"]), "%s %s %s" % (a, r["op"], c))
            if r["k"] == "bin" and r["op"] in ("Ge", "Gt", "Le", "Lt"):
                a, c = dim.kind_of(b, r["a"], e), dim.kind_of(b, r["b"], e)
                ok, why = dim.compare_ok(r["op"], a, c)
                if ok is not None:
                    n += 1
                    ctx.ob("id-kinds" + tag, b.key, "cmp:%s~%s" % (a, c), ok, "%s:%s" % (b.file, s["line"]), why)
        # sinks: fresh id construction and the index into the additional list
        for i, t in b.calls():
            f = t.get("f")
            if f is None:
                continue
            if f["name"] == "from_usize" and "VersionSetId" in (f.get("self_ty") or f.get("resolved") or ""):
                k = dim.kind_of(b, t["args"][0], e)
                n += 1
                ctx.ob("id-kinds" + tag, b.key, "fresh-id-is-END+ITEMS", k == FRESH, where_call(b, i),
                       "new version set id has kind %s" % (k,))
            if f["name"] == "index" and t["args"]:
                r, _ = q.origin_thru(b, t["args"][0])
                if q.mentions_field(r, SP, "additional_version_sets"):
                    k = dim.kind_of(b, t["args"][1], e)
                    n += 1
                    ctx.ob("id-kinds" + tag, b.key, "additional-index-is-IDX-END", k == REL, where_call(b, i),
                           "index into additional_version_sets has kind %s" % (k,))
                    # and it is only reached on the IDX >= END edge
                    okd = False
                    for c in q.conds(b, crs):
                        if c.kind == "cmp" and dim.kind_of(b, c.a, e) == IDX and dim.kind_of(b, c.b, e) == END and c.op == "Ge":
                            if q.edge_dominates(b, c.bb, c.target(True), i):
                                okd = True
                    for c in q.conds(b, crs):
                        # `match idx.checked_sub(first_additional) { Some(i) => additional[i], None => .. }`
                        if c.kind == "discr" and c.src and c.src.get("k") == "call" and c.src["t"]["f"]["name"] == "checked_sub" and \
                                len(c.src["t"]["args"]) == 2 and dim.kind_of(b, c.src["t"]["args"][0], e) == IDX and \
                                dim.kind_of(b, c.src["t"]["args"][1], e) == END and c.target("Some") is not None and \
                                q.edge_dominates(b, c.bb, c.target("Some"), i):
                            okd = True
                    ctx.ob("id-kinds" + tag, b.key, "additional-only-if-IDX>=END", okd, where_call(b, i),
                           "the additional list is consulted only for ids at or beyond the first additional id")
    ctx.floor("id-kinds" + tag, "kinded id computations in SnapshotProvider", n, 4)


# ---------------------------------------------------------------------------------------------
LOSSY = {"filter", "filter_map", "skip", "take", "step_by", "skip_while", "take_while", "dedup", "dedup_by_key", "unique", "retain",
         "truncate", "rev", "nth", "last", "first", "sort", "sort_by", "sort_by_key", "sort_unstable", "sort_unstable_by_key", "zip",
         "pop", "remove", "swap_remove", "drain", "split_off"}
TABLES = ("packages", "version_set_unions", "solvables", "version_sets", "strings")


def _edits_in_place(b, held):
    """Names of lossy / re-ordering calls made through a `&mut` borrow of one of the locals in `held`."""
    mutrefs = set()
    changed = True
    while changed:
        changed = False
        for i, j, s_ in b.assigns():
            r = s_["r"]
            dst = s_["p"]
            if "p" in dst and dst.get("p"):
                continue
            src = None
            if r["k"] == "ref" and r.get("bk") == "mut":
                base = r["p"]["l"]
                if (base in held and not [e for e in r["p"].get("p", []) if e == "*"]) or base in mutrefs:
                    src = base
            elif r["k"] == "use":
                pl = operand_place(r["o"])
                if pl is not None and pl["l"] in mutrefs and not pl.get("p"):
                    src = pl["l"]
            if src is not None and dst["l"] not in mutrefs:
                mutrefs.add(dst["l"])
                changed = True
        for i, t in b.calls():
            f = t.get("f")
            if f is None or not t["args"] or "p" in t["dest"] and t["dest"].get("p"):
                continue
            pl = operand_place(t["args"][0])
            if pl is not None and pl["l"] in mutrefs and f["name"] in ("deref_mut", "as_mut_slice", "as_mut", "borrow_mut", "index_mut") \
                    and t["dest"]["l"] not in mutrefs:
                mutrefs.add(t["dest"]["l"])
                changed = True
    out = []
    for i, t in b.calls():
        f = t.get("f")
        if f is None or not t["args"]:
            continue
        pl = operand_place(t["args"][0])
        if pl is not None and pl["l"] in mutrefs and f["name"] in LOSSY | {"reverse", "rotate_left", "rotate_right", "swap", "clear", "dedup_by", "sort_unstable_by", "sort_by_cached_key"}:
            out.append(f["name"])
    return sorted(set(out))


def faithful_copy(ctx, crate, crs, tag):
    """What the capture stores in the snapshot tables is the provider's answer as given: the backward slice of every value
    inserted into a `result.<table>` contains no lossy or re-ordering iterator/vector operation."""
    R = "faithful-copy" + tag
    b = body_by_key(crate, CAPTURE, coroutine=True)
    if b is None:
        return
    n = 0
    seen_tables = set()
    for i, t in b.calls_to(M + "::insert"):
        r, _ = q.origin_thru(b, t["args"][0])
        names = [e.get("n") for e in r.get("proj", []) if isinstance(e, dict) and "f" in e]
        tbl = [x for x in names if x in TABLES]
        if not tbl:
            continue
        n += 1
        seen_tables.add(tbl[-1])
        lv = set()
        for a in t["args"][2:]:
            lv |= q.leaves(b, a)
        bad = sorted(x[5:] for x in lv if x.startswith("call:") and x[5:] in LOSSY)
        # ... and the value is not edited in place on its way into the table (`v.sort_unstable(); v.dedup();` - seed C16-15)
        held = set()
        for a in t["args"][2:]:
            held |= q.slice_locals(b, a)
        bad += ["in-place " + x for x in _edits_in_place(b, held)]
        ctx.ob(R, b.key, "stored-as-given:%s" % tbl[-1], not bad, where_call(b, i),
               "the value stored in %s is built from the provider's answer without dropping or re-ordering elements%s" %
               (tbl[-1], (" (uses %s)" % ", ".join(bad)) if bad else ""))
    ctx.ob(R, b.key, "all-tables-written", seen_tables >= set(TABLES) - {"strings"}, b.loc(),
           "tables written by the capture: %s" % sorted(seen_tables))


ID_TYPES = ("SolvableId", "StringId", "VersionSetId", "NameId", "VersionSetUnionId")


def builder_keeps_fields(ctx, crate, tag):
    """`fn with_x(self, x) -> Self`: each field of the returned provider is the same field of `self`, or computed from an argument."""
    R = "builder-keeps-fields" + tag
    n = 0
    for b in crate.bodies:
        if not b.key.startswith(SPP) or b.kind not in ("Fn", "AssocFn"):
            continue
        sig = b.d.get("sig") or {}
        ins = sig.get("inputs") or []
        if not ins or not ins[0].startswith(SP) or not str(sig.get("output", "")).startswith(SP):
            continue
        a = crate.adts.get(SP)
        names = [f["name"] for f in a["variants"][0]["fields"]]
        n += 1
        for i, j, s in b.assigns():
            r = s["r"]
            if r["k"] != "agg" or r.get("adt") != SP:
                continue
            for fi, o in enumerate(r["ops"]):
                fname = (r["fields"][fi] if r.get("fields") else names[fi])
                fname = names[int(fname)] if str(fname).isdigit() else fname
                d = b.origin(o)
                kept = d.get("k") == "arg" and d.get("l") == 1 and [e.get("n") for e in d.get("proj", []) if isinstance(e, dict)] == [fname]
                lv = q.leaves(b, o, adt=True)
                from_arg = any(x.startswith("arg:") and x != "arg:1" for x in lv)
                ctx.ob(R, b.key, "field-kept-or-set-from-argument:%s" % fname, kept or from_arg, b.loc(),
                       "`%s` of the returned provider is %s" % (fname, "self.%s" % fname if kept else "computed from the method's argument" if from_arg
                                                                 else "neither self.%s nor computed from an argument (%s): what was added to the provider before this call is lost" % (fname, ", ".join(sorted(lv)) or "constant")))
    ctx.floor(R, "consuming builder methods of SnapshotProvider", n, 1)


def ids_followed(ctx, crate, crs, tag):
    """Every id the capture learns from the provider (a named variable of an id type that did not come out of the work queue) is
    followed: it flows into an `Element::X(id)` that is offered to the work queue, or is the key under which a table entry is
    stored.  An id that is looked at and dropped leaves a dangling reference in the snapshot."""
    R = "ids-followed" + tag
    b = body_by_key(crate, CAPTURE, coroutine=True)
    if b is None:
        return
    reached = set()
    for i, j, s in b.assigns():
        r = s["r"]
        if r["k"] == "agg" and str(r.get("adt", "")).endswith("::Element"):
            for o in r["ops"]:
                reached |= q.slice_locals(b, o)
    for i, t in b.calls():
        f = t.get("f")
        if f and f["name"] in ("insert", "get", "get_mut", "index", "index_mut") and len(t["args"]) > 1 and \
                any(k.startswith(M + "::") for k in callee_keys(f)):
            reached |= q.slice_locals(b, t["args"][1])
    n = 0
    for l, d in enumerate(b.locals):
        ty = d.get("ty", "").lstrip("&").replace("mut ", "")
        if not d.get("name") or not d.get("user") or not ty.startswith("resolvo::internal::id::") or ty.split("::")[-1] not in ID_TYPES:
            continue
        # ids taken off the work queue are being processed, not discovered
        o = b.origin({"k": "copy", "p": {"l": l}})
        from_queue = any(isinstance(e, dict) and str(e.get("of", "")).endswith("::Element") for e in o.get("proj", []))
        if not from_queue:
            src = q.slice_locals(b, {"k": "copy", "p": {"l": l}})
            from_queue = False
            for x in src:
                ox = b.origin({"k": "copy", "p": {"l": x}})
                if any(isinstance(e, dict) and str(e.get("of", "")).endswith("::Element") for e in ox.get("proj", [])):
                    pass
        if from_queue:
            continue
        if not b.defs_of(l) and not any(True for _ in q.uses_of_local(b, l)):
            continue
        n += 1
        ctx.ob(R, b.key, "followed:%s:%s" % (d["name"], ty.split("::")[-1]), l in reached, "%s:%s" % (b.file, b.line),
               "the %s `%s` learnt from the provider is queued for capture or used as a table key" % (ty.split("::")[-1], d["name"]))
    ctx.floor(R, "discovered id variables", n, 8)


def capture(ctx, crate, crs, tag):
    b = body_by_key(crate, CAPTURE, coroutine=True)
    if b is None:
        ctx.ob("capture-pairing" + tag, CAPTURE, "anchor", False, "", "async body not found")
        return
    cs = q.conds(b, crs)
    pushes = [(i, t) for i, t in b.calls_to("std::collections::VecDeque::push_back")]
    seens = [(i, t) for i, t in b.calls_to("std::collections::HashSet::insert")
             if "Element" in (t.get("arg_tys") or ["", ""])[1]]
    ctx.floor("capture-pairing" + tag, "queue.push_back sites", len(pushes), 7)
    ctx.floor("capture-pairing" + tag, "seen.insert sites", len(seens), 7)

    def elem(term):
        d = b.origin(term["args"][1])
        if d["k"] == "rvalue" and d["r"]["k"] == "agg" and d["r"].get("adt", "").endswith("Element"):
            return d["r"]["variant"], b.origin(d["r"]["ops"][0])
        return None, None
    ordv = {}
    for pi, pt in pushes:
        pv, pd = elem(pt)
        ordv[pv] = ordv.get(pv, 0) + 1
        ok, why = False, "push_back is not dominated by the `newly inserted` edge of a seen.insert of the same element"
        for si, st in seens:
            sv, sd = elem(st)
            if sv != pv or sd is None or pd is None:
                continue
            if not _same_source(b, sd, pd):
                continue
            for c in cs:
                if c.kind == "bool" and c.src and c.src.get("k") == "call" and c.src.get("bb") == si:
                    if q.edge_dominates(b, c.bb, c.target(True), pi):
                        ok = True
        if not ok and pv is None:
            # the element is a value of its own (`let element = Element::X(id)`, or the item of a loop over ready-made elements):
            # the value that was tested by seen.insert is the very value that is queued
            po = q.origin_thru(b, pt["args"][1], transparent=set())[0]
            for si, st in seens:
                so = q.origin_thru(b, st["args"][1], transparent=set())[0]
                if not (q.same_origin(po, so) or (po.get("l") is not None and po.get("l") == so.get("l") and po["k"] == so["k"])):
                    continue
                for c in cs:
                    if c.kind == "bool" and c.src and c.src.get("k") == "call" and c.src.get("bb") == si:
                        if q.edge_dominates(b, c.bb, c.target(True), pi):
                            ok = True
        ctx.ob("capture-pairing" + tag, b.key, "queue:%s#%d" % (pv, ordv[pv]), ok, where_call(b, pi),
               "discovered %s ids are queued exactly once (seen.insert -> push_back)" % pv if ok else why)
        # ... and on nothing else: whether element A was new says nothing about element B (seed C16-24: the reason string of an
        # exclusion queued only `if enqueue(Solvable(excluded))`, which is false whenever the solvable is also a candidate)
        foreign = None
        po_ = q.origin_thru(b, pt["args"][1], transparent=set())[0]
        for si, st in seens:
            sv, sd = elem(st)
            so_ = q.origin_thru(b, st["args"][1], transparent=set())[0]
            same = (sv == pv and sd is not None and pd is not None and _same_source(b, sd, pd)) or \
                (pv is None and sv is None and (q.same_origin(po_, so_) or (po_.get("l") is not None and po_.get("l") == so_.get("l") and po_["k"] == so_["k"])))
            if same:
                continue
            for c in cs:
                if c.kind == "bool" and c.src and c.src.get("k") == "call" and c.src.get("bb") == si and c.target(True) is not None:
                    if q.edge_dominates(b, c.bb, c.target(True), pi) and not q.edge_dominates(b, c.bb, c.target(False), pi):
                        foreign = (sv, where_call(b, si))
        ctx.ob("capture-pairing" + tag, b.key, "queue:%s#%d:gated-by-its-own-novelty-only" % (pv, ordv[pv]), foreign is None, where_call(b, pi),
               "queueing this element does not depend on whether another element was new" if foreign is None else
               "this element is queued only if the %s element tested at %s was new" % foreign)
    ords = {}
    for si, st in seens:
        sv, sd = elem(st)
        ords[sv] = ords.get(sv, 0) + 1
        used = False
        for c in cs:
            if c.kind == "bool" and c.src and c.src.get("k") == "call" and c.src.get("bb") == si:
                tr = c.target(True)
                if any(pi in b.reachable([tr]) and (elem(pt)[0] == sv or elem(pt)[0] is None or sv is None) for pi, pt in pushes):
                    used = True
        ctx.ob("capture-pairing" + tag, b.key, "seen:%s#%d" % (sv, ords[sv]), used, where_call(b, si),
               "a newly seen %s is put on the work queue" % sv)

    # ---- arms: Mapping::insert on result.<field> keyed by the element's payload
    ins = [(i, t) for i, t in b.calls_to(M + "::insert")]
    found = {}
    for i, t in ins:
        r, _ = q.origin_thru(b, t["args"][0])
        fld = [n for a, n in q.fields_of(r) if a == SNAP]
        if not fld:
            continue
        kd, _ = q.origin_thru(b, t["args"][1], transparent=set())
        variant = None
        for x in kd.get("proj", []):
            if isinstance(x, dict) and "as" in x:
                variant = x["as"]
        found.setdefault(fld[-1], []).append((i, variant, kd))
    for variant, field in ARM_TABLE.items():
        sites = found.get(field, [])
        ok = any(v == variant for i, v, kd in sites)
        ctx.ob("capture-arms" + tag, b.key, "%s->%s" % (variant, field), ok, where_call(b, sites[0][0]) if sites else "",
               "Element::%s is stored into result.%s under its own id" % (variant, field) if ok else
               "no insert into result.%s keyed by the Element::%s payload (found keys: %s)" % (field, variant, [v for _, v, _ in sites]))
    # ... on every path: once an element has been taken off the queue, the loop does not go on to the next element before the
    # element is stored (a `continue` in a sub-case - seed C16-23: a solvable with Dependencies::Unknown - loses the element)
    el_ = [c for c in cs if c.kind == "discr" and (c.adt or "").endswith("Element") and set(c.edges) >= set(ARM_TABLE)]
    for c in el_[:1]:
        lps = sorted([(len(body), h) for h, body, _ in b.loops() if c.bb in body])
        if not lps:
            continue
        head = lps[0][1]
        for variant, field in ARM_TABLE.items():
            sites = {i for i, v, kd in found.get(field, []) if v == variant}
            entry = c.target(variant)
            if not sites or entry is None:
                continue
            skipped = head in b.reachable([entry], avoid=sites)
            ctx.ob("capture-arms" + tag, b.key, "%s-stored-on-every-path" % variant, not skipped, b.loc(entry),
                   "no path from the Element::%s arm back to the head of the work loop avoids result.%s.insert" % (variant, field))
    us = found.get("version_set_unions", [])
    ctx.ob("capture-arms" + tag, b.key, "Union->version_set_unions", any(v == "Union" for i, v, kd in us),
           where_call(b, us[0][0]) if us else "", "union members are stored under the union's own id")
    # each arm's element switch is exhaustive (4 variants)
    el = [c for c in cs if c.kind == "discr" and (c.adt or "").endswith("Element")]
    ok_ex = bool(el) and all(set(c.edges) >= set(ARM_TABLE) and b.blocks[c.otherwise]["term"]["k"] == "unreachable"
                             for c in el if set(c.edges) >= set(ARM_TABLE))
    ctx.ob("capture-arms" + tag, b.key, "match-is-exhaustive", ok_ex and any(set(c.edges) >= set(ARM_TABLE) for c in el), b.loc(),
           "the work-queue match enumerates all four element kinds without a wildcard")


def _same_source(b, d1, d2):
    """Two element payload origins denote the same discovered id (same source call / place)."""
    if q.same_origin(d1, d2):
        return True
    # loop variables: both are derefs of the same iterator item (multi-defs of the pattern local)
    return d1["k"] == d2["k"] == "multi" and d1.get("l") == d2.get("l")


# ---------------------------------------------------------------------------------------------
def order(ctx, crate, crs, tag):
    b = body_by_key(crate, CAPTURE, coroutine=True)
    if b is None:
        return
    sorts = b.calls_to(lambda f: provider_call(f, "sort_candidates"))
    ctx.floor("order" + tag, "sort_candidates in capture", len(sorts), 1)
    for i, t in sorts:
        # the sorted vector is a clone of Package.solvables of an item of Mapping::iter(result.packages)
        d, ch = q.origin_thru(b, t["args"][2], transparent=q.TRANSPARENT | {"std::iter::Iterator::next"})
        ok = any(isinstance(x, dict) and x.get("n") == "solvables" and x.get("of") == "resolvo::snapshot::Package"
                 for x in d.get("proj", []))
        src_iter = d["k"] == "call" and d["t"]["f"]["name"] == "iter" and M + "::iter" in callee_keys(d["t"]["f"])
        pk = False
        if src_iter:
            r, _ = q.origin_thru(b, d["t"]["args"][0])
            pk = q.mentions_field(r, SNAP, "packages")
        ctx.ob("order" + tag, b.key, "sorts-every-captured-package", ok and src_iter and pk, where_call(b, i),
               "sort_candidates runs on the solvables of each package yielded by result.packages.iter()")
    # order = enumerate index
    ws = [(i, j, s) for i, j, s in b.assigns()
          if [(x.get("of"), x.get("n")) for x in s["p"].get("p", []) if isinstance(x, dict) and "f" in x][-1:] ==
          [("resolvo::snapshot::Solvable", "order")]]
    ctx.floor("order" + tag, "write of Solvable.order", len(ws), 1)
    for i, j, s in ws:
        d, ch = q.origin_thru(b, s["r"]["o"], transparent=q.TRANSPARENT | {"std::iter::Iterator::next"}) if s["r"]["k"] in ("use", "cast") else ({"k": "?"}, [])
        ok = d["k"] == "call" and d["t"]["f"]["name"] == "enumerate" and \
            any(isinstance(x, dict) and x.get("f") == 0 and x.get("of") == "tuple" for x in d.get("proj", []))
        # the enumerated sequence is the vector that was just sorted
        ctx.ob("order" + tag, b.key, "order=enumeration-index", ok, "%s:%s" % (b.file, s["line"]),
               "Solvable.order is the position in the provider-sorted list")


def union_order(ctx, crate, tag):
    a = crate.adts.get(SNAP)
    ty = ""
    if a:
        for f in a["variants"][0]["fields"]:
            if f["name"] == "version_set_unions":
                ty = f["ty"]
    ordered = ("std::vec::Vec<" in ty or "indexmap::" in ty or "SmallVec" in ty) and "HashSet" not in ty and "HashMap" not in ty
    ctx.ob("union-order" + tag, SNAP, "version_set_unions-is-a-sequence", ordered, "", "version_set_unions: %s" % ty)
    # what version_sets_in_union iterates
    for b in crate.bodies:
        if b.d.get("impl_adt") == SP and b.path.endswith("::version_sets_in_union"):
            bad = [t["f"]["path"] for i, t in b.calls() if t.get("f") and
                   ("hash_set" in t["f"]["path"] or "hash_map" in t["f"]["path"] or "HashSet" in t["f"]["path"] or "HashMap" in t["f"]["path"])]
            ctx.ob("union-order" + tag, b.key, "iterates-a-sequence", not bad, b.loc(),
                   "union members are handed to the solver in stored order" if not bad else "iterates %s" % bad[0])


# ---------------------------------------------------------------------------------------------
def provider_siblings(ctx, crate, crs, tag):
    def method(name, coroutine=True):
        for b in crate.bodies:
            if b.d.get("impl_adt") == SP and b.d.get("impl_trait") == PROVIDER and b.path.endswith("::" + name):
                if coroutine:
                    for c in crate.bodies:
                        if c.parent == b.path and c.coroutine:
                            return c
                return b
        return None
    # filter_candidates: predicate is contains(c) != inverse
    b = method("filter_candidates")
    ok = False
    if b is not None:
        for c in crate.bodies:
            if c.parent == b.path and c.kind == "Closure":
                for i, j, s in c.assigns():
                    r = s["r"]
                    if r["k"] == "bin" and r["op"] in ("Ne",) and s["p"]["l"] == 0:
                        da = c.origin(r["a"])
                        db, _ = q.origin_thru(c, r["b"])
                        is_contains = da["k"] == "call" and da["t"]["f"]["name"] == "contains"
                        inv = any(isinstance(x, dict) and x.get("n") == "inverse" for x in db.get("proj", []))
                        if is_contains and inv:
                            cd, _ = q.origin_thru(c, da["t"]["args"][0])
                            ok = any(isinstance(x, dict) and x.get("n") == "matching_candidates" for x in cd.get("proj", []))
        ctx.ob("provider-siblings" + tag, b.key, "filter=contains!=inverse", ok, b.loc(),
               "a candidate passes iff membership in the captured matching set differs from `inverse`")
    else:
        ctx.ob("provider-siblings" + tag, SP, "filter_candidates", False, "", "method not found")
    # sort_candidates: key closure returns Solvable.order unchanged
    b = method("sort_candidates")
    ok = False
    if b is not None:
        srt = [(i, t) for i, t in b.calls() if t.get("f") and t["f"]["name"] in ("sort_by_key", "sort_by_cached_key")]
        for c in crate.bodies:
            if c.parent == b.path and c.kind == "Closure":
                for i, j, s in c.assigns():
                    if s["p"]["l"] == 0 and s["r"]["k"] == "use":
                        p = operand_place(s["r"]["o"])
                        if p and any(isinstance(x, dict) and x.get("n") == "order" and x.get("of") == "resolvo::snapshot::Solvable"
                                     for x in p.get("p", [])):
                            ok = True
        ctx.ob("provider-siblings" + tag, b.key, "sort-key=captured-order", ok and bool(srt), b.loc(),
               "candidates are sorted ascending by the captured order (stable sort_by_key)")
    else:
        ctx.ob("provider-siblings" + tag, SP, "sort_candidates", False, "", "method not found")
    # get_candidates: candidates = package.solvables.clone(), excluded = package.excluded.clone()
    b = method("get_candidates")
    if b is not None:
        okc = oke = False
        for i, j, s in b.assigns():
            r = s["r"]
            if r["k"] == "agg" and r.get("adt") == "resolvo::Candidates":
                for nme, o in zip(r.get("fields", []), r["ops"]):
                    d, ch = q.origin_thru(b, o)
                    if nme == "candidates":
                        okc = any(isinstance(x, dict) and x.get("n") == "solvables" for x in d.get("proj", [])) and "std::clone::Clone::clone" in ch
                    if nme == "excluded":
                        oke = any(isinstance(x, dict) and x.get("n") == "excluded" for x in d.get("proj", [])) and "std::clone::Clone::clone" in ch
        ctx.ob("provider-siblings" + tag, b.key, "candidates=captured-solvables", okc, b.loc(), "candidate list is the captured list in captured order")
        ctx.ob("provider-siblings" + tag, b.key, "excluded=captured-excluded", oke, b.loc(), "exclusions are handed back unchanged")
    else:
        ctx.ob("provider-siblings" + tag, SP, "get_candidates", False, "", "method not found")
    b = method("get_dependencies")
    if b is not None:
        ok = False
        for i, t in b.calls_to("std::clone::Clone::clone"):
            d, ch = q.origin_thru(b, t["args"][0])
            if any(isinstance(x, dict) and x.get("n") == "dependencies" for x in d.get("proj", [])) and t["dest"]["l"] == 0:
                ok = True
        ctx.ob("provider-siblings" + tag, b.key, "dependencies=captured", ok, b.loc(), "dependencies are the captured ones")
    else:
        ctx.ob("provider-siblings" + tag, SP, "get_dependencies", False, "", "method not found")


def serde_complete(ctx, crate, tag):
    """The serialised form names everything it stores: a derived `Serialize` of an enum emits every variant under its own tag
    (an untagged Requirement writes Single(3) and Union(3) as the same `3` - seed C16-13), its `Deserialize` reads an enum; a
    derived `Serialize` of a struct emits every field under its name (a skipped field is lost by the round trip unless it is empty),
    and its `Deserialize` reads a struct."""
    R = "serde-complete" + tag
    n = 0
    ser, de = {}, {}
    for b in crate.bodies:
        tr = str(b.d.get("impl_trait") or "")
        x = b.d.get("impl_adt")
        if not x or x not in crate.adts or b.kind not in ("AssocFn", "Fn"):
            continue
        if tr.endswith("_serde::Serialize") and b.key.endswith("serialize"):
            ser[x] = b
        elif "_serde::Deserialize" in tr and b.key.endswith("deserialize"):
            de[x] = b
    for x, b in sorted(ser.items()):
        a = crate.adts[x]
        calls = [(t["f"]["name"], t) for i, t in b.calls() if t.get("f")]
        derived = any(any(str(e).startswith("macro:serde::Serialize") for e in (t.get("exp") or [])) for _, t in calls)
        if not derived:
            continue        # hand-written impls (Mapping, SmallVec) have their own rules
        cnames = lambda t: [str(o.get("s", "")).strip('"') for o in t["args"] if o.get("k") == "const" and o.get("ty") == "&str"]
        dcalls = [t["f"]["name"] for i, t in de[x].calls() if t.get("f")] if x in de else []
        if a["kind"] == "Enum":
            n += 1
            tags = set()
            for nm, t in calls:
                if nm.startswith("serialize_") and nm.endswith("_variant"):
                    tags |= set(cnames(t)[1:])
            want = {v["name"] for v in a["variants"]}
            if want <= tags:
                ctx.ob(R, x, "variants-can-be-told-apart-in-the-serialised-form", True, b.loc(),
                       "every variant is written under its own tag %s" % sorted(tags))
                ctx.ob(R, x, "deserialised-as-a-tagged-enum", "deserialize_enum" in dcalls, de[x].loc() if x in de else "",
                       "Deserialize goes through deserialize_enum (found %s)" % sorted(set(c for c in dcalls if c.startswith("deserialize")))[:4])
            else:
                # untagged: acceptable only when the payloads have pairwise different serialised shapes (a map vs a number ...)
                def shape(ty, depth=0):
                    ty = ty.strip()
                    if ty in ("u8", "u16", "u32", "u64", "usize", "i8", "i16", "i32", "i64", "isize"):
                        return "number"
                    if ty in ("std::string::String", "&str", "str"):
                        return "string"
                    if ty.startswith(("std::vec::Vec<", "[", "&[")):
                        return "sequence"
                    ad = crate.adts.get(ty.split("<")[0])
                    if ad and ad["kind"] == "Struct" and depth < 4:
                        fs = ad["variants"][0]["fields"]
                        if len(fs) == 1 and str(fs[0]["name"]).isdigit():
                            return shape(fs[0]["ty"], depth + 1)       # newtype: serialised as its content
                        if fs and not str(fs[0]["name"]).isdigit():
                            return "map"
                    return "?:" + ty
                shapes = {}
                for v in a["variants"]:
                    shapes[v["name"]] = shape(v["fields"][0]["ty"]) if len(v["fields"]) == 1 else ("unit" if not v["fields"] else "sequence")
                vals = list(shapes.values())
                distinct = len(set(vals)) == len(vals) and not any(s_.startswith("?:") for s_ in vals)
                ctx.ob(R, x, "variants-can-be-told-apart-in-the-serialised-form", distinct, b.loc(),
                       "untagged enum; serialised shapes of the variants: %s" % shapes)
        elif a["kind"] == "Struct" and a["variants"] and a["variants"][0]["fields"] and not str(a["variants"][0]["fields"][0]["name"]).isdigit():
            n += 1
            written = set()
            for nm, t in calls:
                if nm == "serialize_field":
                    written |= set(cnames(t))
            want = {f["name"] for f in a["variants"][0]["fields"]}
            # (a consistent `rename` changes the names but not their number; what must not happen is a field that is never written)
            ctx.ob(R, x, "every-field-serialised-under-its-name", want <= written or len(written) >= len(want), b.loc(),
                   "fields %s; written: %s" % (sorted(want), sorted(written)))
            ctx.ob(R, x, "deserialised-as-a-struct", "deserialize_struct" in dcalls, de[x].loc() if x in de else "",
                   "Deserialize goes through deserialize_struct")
            # a field that may be left out when writing (skip_serializing_if) must be optional when reading (default): otherwise the
            # snapshot of a package without candidates serialises fine and cannot be read back (seed C16-20)
            skipped = set()
            for nm, t in calls:
                if nm == "skip_field":
                    skipped |= set(cnames(t))
            required = set()
            for vb in crate.bodies:
                if vb.key.endswith("::visit_map") and ("for %s>" % x) in str(vb.d.get("impl_adt") or vb.key):
                    for i2, t2 in vb.calls():
                        if t2.get("f") and t2["f"]["name"] == "missing_field":
                            required |= set(cnames(t2))
            ctx.ob(R, x, "skippable-fields-are-optional-when-read", not (skipped & required), b.loc(),
                   "fields that can be skipped when serialising: %s; fields the reader insists on: %s" % (sorted(skipped), sorted(required)))
    ctx.floor(R, "derived Serialize impls of enums / structs with named fields", n, 5)
