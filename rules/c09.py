"""C09 - metadata is fetched lazily, causally and at most once (mechanisms).

  choke-points   provider methods are called only from their SolverCache choke point
  memoisation    T-MEMO for the 6 caches
  in-flight      D::get_candidates additionally dominated by the miss edge of the in-flight map lookup
  dedup          per-solve dedup sets guard the queueing of dependency / candidate futures
  laziness       queue_solvable is called from encode's initial loop and, in the requirement consumer,
                 only behind are_dependencies_available_for == true; the availability query itself is honest
  causality      queue_package / queue_requirement / queue_constraint are only called from the dependencies consumer
  new-solvables  the solvables run_sat hands to the encoder are decisions with value true that were not encoded yet

Added after the second and third seeding rounds:
  encode-inputs  the first encode of a run receives exactly the run's solvable; later ones only solvables read from the complete
                 decision stack (no skipping / truncating adaptor)
  hint-bits-grow-only / hint-bits-only-set-true  a hint once recorded is never lost (shared with C13, C20)

Added after the fifth seeding round:
  causality/calls:get_or_cache_*  who may enter the cache's fetching entry points: the encoder's queued futures, the cache itself
                 (a derived list needs the package's candidates), the snapshot capture and Conflict::graph - never solve() / the
                 decision loop (seed C09-13)
  memoisation/table-written-only-by-its-fetch-function  by receiver *type*: every insert into a table of SolverCache sits in the
                 fetch function that owns the table (seed C13-15: a drop guard storing a placeholder answer)
"""
from common import *
import q, mech


def run(ctx):
    ctx.explanation = (
        "Static clause of C09: every provider method has a single choke point in SolverCache (who-may-call over resolved "
        "trait-method call sites); each choke point is dominated by the miss edge of its memo-map lookup and followed by the "
        "insert under the same key; get_candidates is also behind the in-flight lookup; futures are queued only behind the "
        "per-solve dedup sets; queue_solvable is reached only from the explicit solvable list or behind a true "
        "are_dependencies_available_for, whose `true` answers come only from the dependencies map or the hint bits; package/"
        "requirement/constraint futures are queued only from the dependencies consumer; run_sat filters the trail on "
        "value==true and not-yet-encoded. Does NOT decide which solvables the search visits.")
    ctx.assumptions += ["elsa::FrozenMap / FrozenCopyMap are insert-only (C18)", "FuturesUnordered polls only what was pushed"]
    for cfg in (["cfgA"] if ctx.tier == "quick" else ["cfgA", "cfgC"]):
        tag = "" if cfg == "cfgA" else "@" + cfg
        crate = lib(ctx, cfg)
        crs = crates(ctx, cfg)
        ctx.count("functions_analysed", len(crate.bodies))
        mech.choke_points(ctx, "choke-points", crate, tag)
        mech.memo_check(ctx, "memoisation", crate, crs, tag)
        in_flight(ctx, crate, crs, tag)
        mech.dedup_guard(ctx, "dedup", crate, crs, ENC + "queue_solvable", "clauses_added_for_solvable", tag)
        mech.dedup_guard(ctx, "dedup", crate, crs, ENC + "queue_package", "clauses_added_for_package", tag)
        import c13
        ctx.guard("cache-persists" + tag, c13.cache_is_created_once, ctx, crate, crs, tag)     # "at most once per solver"
        laziness(ctx, crate, crs, tag)
        mech.availability_query(ctx, "laziness", crate, crs, tag)
        mech.hint_writers(ctx, "laziness", crate, tag)
        mech.hint_arms(ctx, crate, crs, tag, rule="laziness")
        causality(ctx, crate, tag)
        new_solvables(ctx, crate, crs, tag)
    if ctx.tier == "thorough":
        # widen the who-may-call census to every target of the workspace (tests, tools, C++ binding)
        F = ctx.facts("cfgE")
        for name, c in F.crates.items():
            if c.name in ("resolvo",) and not c.is_test:
                continue
            for b in c.bodies:
                for i, t in b.calls():
                    f = t.get("f")
                    if f is None:
                        continue
                    for m in ("get_candidates", "get_dependencies"):
                        if provider_call(f, m) and c.name == "resolvo_cpp":
                            ctx.ob("choke-points@cfgE", b.key, "D::%s" % m, False, where_call(b, i),
                                   "the C++ binding calls a provider fetch directly, bypassing SolverCache")
        ctx.count("crates_in_cfgE", len(F.crates))


def in_flight(ctx, crate, crs, tag):
    b = body_by_key(crate, CACHE + "get_or_cache_candidates", coroutine=True)
    if b is None:
        ctx.ob("in-flight" + tag, CACHE + "get_or_cache_candidates", "anchor", False, "", "async body not found")
        return
    cs = q.conds(b, crs)
    lookups = q.calls_on_field(b, "std::collections::HashMap::get", CACHE_ADT, "package_name_to_candidates_in_flight")
    for i, t in b.calls_to(lambda f: provider_call(f, "get_candidates")):
        ok, why = False, "no in-flight lookup whose miss edge dominates the provider call"
        for c in cs:
            if c.kind != "discr" or not c.src:
                continue
            d, chain = q.origin_thru(b, {"k": "copy", "p": c.src_place})
            if d["k"] == "call" and any(d["bb"] == li for li, _ in lookups):
                miss = c.target("None")
                if miss is not None and q.edge_dominates(b, c.bb, miss, i):
                    # and the key is the function's package name
                    lk = mech.key_desc(b, [lt for li, lt in lookups if li == d["bb"]][0]["args"][1])
                    if q.same_origin(lk, mech.key_desc(b, t["args"][1])):
                        ok = True
                    else:
                        why = "in-flight lookup uses a different key than the provider call"
        ctx.ob("in-flight" + tag, b.key, "D::get_candidates", ok, where_call(b, i),
               "a second request for a package in flight listens instead of calling the provider" if ok else why)
    ctx.floor("in-flight" + tag, "in-flight lookups", len(lookups), 1)


def laziness(ctx, crate, crs, tag):
    allowed = {ENC + "encode", ENC + "on_requirement_candidates_available"}
    sites = mech.callers_exact(ctx, "laziness", crate, ENC + "queue_solvable", allowed, tag, 2)
    for b, i, t in sites:
        fn = q.enclosing_fn(crate, b)
        if fn != ENC + "on_requirement_candidates_available":
            continue
        cs = q.conds(b, crs)
        ok = False
        for c in cs:
            if c.kind == "bool" and c.src and c.src.get("k") == "call" and \
                    CACHE + "are_dependencies_available_for" in callee_keys(c.src["t"]["f"]):
                if q.edge_dominates(b, c.bb, c.target(True), i):
                    # the queued solvable is the one that was asked about
                    a = mech.key_desc(b, c.src["t"]["args"][1])
                    d, chain = q.origin_thru(b, t["args"][1])
                    if q.same_origin(a, d):
                        ok = True
        ctx.ob("laziness" + tag, b.key, "eager-queue-only-if-available", ok, where_call(b, i),
               "a candidate's dependencies are only requested eagerly when are_dependencies_available_for(candidate) is true")


def causality(ctx, crate, tag):
    only = {ENC + "on_dependencies_available"}
    for callee in ("queue_package", "queue_requirement", "queue_constraint"):
        mech.callers_exact(ctx, "causality", crate, ENC + callee, only, tag, 1)
    mech.callers_exact(ctx, "causality", crate, ENC + "encode", {SOLVER + "run_sat"}, tag, 2)
    # the four consumers are only reached from on_task_result, which is only called by encode
    for callee in ("on_dependencies_available", "on_candidates_available", "on_requirement_candidates_available",
                   "on_constraint_candidates_available"):
        mech.callers_exact(ctx, "causality", crate, ENC + callee, {ENC + "on_task_result"}, tag, 1)
    mech.callers_exact(ctx, "causality", crate, ENC + "on_task_result", {ENC + "encode"}, tag, 1)
    # the cache's fetching entry points are only entered from the encoder's queued futures, from each other (a derived list needs
    # the package's candidates) and from the snapshot capture; a fetch issued from the decision loop / solve() is not caused by
    # any dependency the solver obtained (seed C09-13)
    SNAP = "resolvo::snapshot::DependencySnapshot::from_provider_async"
    GRAPH = "resolvo::conflict::Conflict::graph"
    entry = {
        "get_or_cache_candidates": {ENC + "queue_package", CACHE + "get_or_cache_matching_candidates", CACHE + "get_or_cache_non_matching_candidates",
                                    CACHE + "get_or_cache_sorted_candidates_for_version_set", SNAP},
        "get_or_cache_dependencies": {ENC + "queue_solvable", SNAP},
        "get_or_cache_matching_candidates": {CACHE + "get_or_cache_sorted_candidates_for_version_set", SNAP},
        "get_or_cache_non_matching_candidates": {ENC + "queue_constraint"},
        "get_or_cache_sorted_candidates_for_version_set": {ENC + "queue_requirement", CACHE + "get_or_cache_sorted_candidates"},
        "get_or_cache_sorted_candidates": {GRAPH},
    }
    for callee, allowed in entry.items():
        mech.callers_exact(ctx, "causality", crate, CACHE + callee, allowed, tag, 1)
    # version sets for which packages are queued come from the Dependencies value handed to the consumer
    b = body_by_key(crate, ENC + "on_dependencies_available")
    if b is not None:
        n = 0
        for i, t in b.calls_to(ENC + "queue_requirement") + b.calls_to(ENC + "queue_constraint"):
            n += 1
            d, chain = q.origin_thru(b, t["args"][2], transparent=q.TRANSPARENT | {"std::iter::Iterator::next"})
            # the argument must come out of the `dependencies` parameter (arg 2, via KnownDependencies fields)
            ok = _derives_from_arg(b, t["args"][2], 2)
            ctx.ob("causality" + tag, b.key, "arg-of:%s" % t["f"]["name"], ok, where_call(b, i),
                   "queued requirement/constraint is read from the Dependencies value of this task result")
        ctx.floor("causality" + tag, "requirement/constraint queue sites", n, 2)


def _derives_from_arg(b, op, argl, depth=0, seen=None):
    """Loose def-use: does the operand (transitively, through calls and copies) derive from argument `argl`?"""
    seen = seen if seen is not None else set()
    p = operand_place(op)
    if p is None:
        return False
    l = p["l"]
    if l in seen or depth > 60:
        return False
    seen.add(l)
    if l == argl:
        return True
    for bb, idx, r in b.defs_of(l):
        if idx == "term":
            for a in r["args"]:
                if _derives_from_arg(b, a, argl, depth + 1, seen):
                    return True
        else:
            k = r["k"]
            ops = []
            if k in ("use", "cast"):
                ops = [r["o"]]
            elif k in ("ref", "copyderef", "rawptr", "discr"):
                ops = [{"k": "copy", "p": r["p"]}]
            elif k == "agg":
                ops = r["ops"]
            elif k == "bin":
                ops = [r["a"], r["b"]]
            for o in ops:
                if _derives_from_arg(b, o, argl, depth + 1, seen):
                    return True
    # assignments into projections of the local (e.g. tuple fields) are ignored
    return False


def new_solvables(ctx, crate, crs, tag):
    """run_sat: closures filtering the decision stack read Decision.value and test clauses_added_for_solvable."""
    root = SOLVER + "run_sat"
    has_value_filter, has_contains = stack_filters(crate, crs)
    ctx.ob("new-solvables" + tag, root, "filter:decision.value", has_value_filter, "",
           "only decisions with value == true are candidates for encoding")
    ctx.ob("new-solvables" + tag, root, "filter:not-yet-encoded", has_contains, "",
           "solvables already in clauses_added_for_solvable are not encoded again")
    encode_inputs(ctx, crate, crs, tag)


def stack_filters(crate, crs=()):
    """How run_sat selects the decisions whose solvables it encodes next: (only decisions with value == true, only solvables not yet
    in clauses_added_for_solvable).  Two forms are understood: filter closures over the decision stack, and a loop over the stack whose
    push of the selected element is reachable only through the true edge of `decision.value` and the false edge of `contains`."""
    root = SOLVER + "run_sat"
    cl = [b for b in crate.bodies if b.root and strip_generics(b.root) == root and b.kind == "Closure"]
    has_value_filter = False
    has_contains = False
    for b in cl:
        # closure returning the `value` field of a Decision
        for i, j, s in b.assigns():
            if s["p"]["l"] == 0 and s["r"]["k"] == "use":
                p = operand_place(s["r"]["o"])
                if p and any(isinstance(e, dict) and e.get("n") == "value" and
                             e.get("of") == "resolvo::solver::decision::Decision" for e in p.get("p", [])):
                    has_value_filter = True
        for i, t in q.calls_on_field(b, "std::collections::HashSet::contains", STATE_ADT, "clauses_added_for_solvable"):
            # result must be negated before it is returned
            has_contains = _negated_return(b, i)
    if has_value_filter and has_contains:
        return True, True
    # a closure that answers with an Option (`filter_map`, possibly through a helper the inliner spliced in): `Some(..)` is produced
    # only behind the true edge of `decision.value` and the false edge of `contains`
    for b in cl:
        somes = [i for i, j, s in b.assigns() if s["r"]["k"] == "agg" and s["r"].get("adt") == "std::option::Option" and
                 s["r"].get("variant") == "Some" and "VariableId" in b.local_ty(s["p"]["l"]) and "ClauseId" in b.local_ty(s["p"]["l"])]
        if not somes:
            continue
        cs = q.conds(b, crs)
        contains_bbs = {i for i, t in q.calls_on_field(b, "std::collections::HashSet::contains", STATE_ADT, "clauses_added_for_solvable")}
        v_edges = [(c.bb, c.edges[True]) for c in cs if c.kind == "bool" and c.edges.get(True) is not None and any(
            isinstance(e, dict) and e.get("n") == "value" and e.get("of") == "resolvo::solver::decision::Decision" for e in (c.src or {}).get("proj", []))]
        c_edges = [(c.bb, c.edges[False]) for c in cs if c.kind == "bool" and c.edges.get(False) is not None and
                   (c.src or {}).get("k") == "call" and (c.src or {}).get("bb") in contains_bbs and not (c.src or {}).get("proj")]
        if not has_value_filter:
            has_value_filter = bool(v_edges) and all(q.only_via_edges(b, v_edges, i) for i in somes)
        if not has_contains:
            has_contains = bool(c_edges) and all(q.only_via_edges(b, c_edges, i) for i in somes)
    if has_value_filter and has_contains:
        return True, True
    b = body_by_key(crate, root)
    if b is None:
        return has_value_filter, has_contains
    pushes = [(i, t) for i, t in b.calls_to("std::vec::Vec::push") if len(t["args"]) > 1 and
              "field:state.decision_tracker" in q.leaves(b, t["args"][1])]
    if not pushes:
        return has_value_filter, has_contains
    cs = q.conds(b, crs)
    def is_value(c):
        d = c.src or {}
        return c.kind == "bool" and any(
            isinstance(e, dict) and e.get("n") == "value" and e.get("of") == "resolvo::solver::decision::Decision" for e in d.get("proj", []))
    contains_bbs = {i for i, t in q.calls_on_field(b, "std::collections::HashSet::contains", STATE_ADT, "clauses_added_for_solvable")}
    def is_contains(c):
        d = c.src or {}
        return c.kind == "bool" and d.get("k") == "call" and d.get("bb") in contains_bbs and not d.get("proj")
    v_edges = [(c.bb, c.edges[True]) for c in cs if is_value(c) and c.edges.get(True) is not None]
    c_edges = [(c.bb, c.edges[False]) for c in cs if is_contains(c) and c.edges.get(False) is not None]
    if not has_value_filter:
        has_value_filter = bool(v_edges) and all(q.only_via_edges(b, v_edges, i) for i, t in pushes)
    if not has_contains:
        has_contains = bool(c_edges) and all(q.only_via_edges(b, c_edges, i) for i, t in pushes)
    return has_value_filter, has_contains


def encode_inputs(ctx, crate, crs, tag):
    """What run_sat hands to the encoder: the run's own solvable at the (re)start, afterwards only solvables taken from the
    decision stack.  Anything else (prefetching soft requirements, candidates of the root, ...) fetches metadata acausally."""
    R = "new-solvables" + tag
    b = body_by_key(crate, SOLVER + "run_sat")
    if b is None:
        return
    enc_calls = b.calls_to(ENC + "encode")
    for n, (i, t) in enumerate(sorted(enc_calls, key=lambda x: x[1].get("line") or 0)):
        lv = q.leaves(b, t["args"][1])
        flds = {x for x in lv if x.startswith("field:")}
        args = {x for x in lv if x.startswith("arg:")}
        unk = {x for x in lv if x.startswith("unknown:")}
        if not flds and args:
            ok = args == {"arg:2"} and not unk
            ctx.ob(R, b.key, "start-encodes-only-the-run's-solvable", ok, where_call(b, i),
                   "the first encode of a run receives exactly the run's solvable (reads: %s)" % ", ".join(sorted(lv)))
        else:
            # the whole trail is scanned: no adaptor that skips or truncates it (a prefix "already processed by an earlier run" is
            # not a safe assumption once a backjump went below the run's starting level)
            bad_ad = sorted({x[5:] for x in lv if x.startswith("call:")} & {"skip_while", "skip", "take", "take_while", "step_by", "rev", "nth",
                                                                              "last", "next_back", "rposition", "split_off", "truncate"})
            ctx.ob(R, b.key, "scans-the-whole-trail", not bad_ad, where_call(b, i),
                   "newly selected solvables are looked for on the complete decision stack%s" % ((" (uses %s)" % ", ".join(bad_ad)) if bad_ad else ""))
            # (`field:state`: a closure over the stack that was handed `&self.state` as a whole - what it does with it is judged by
            # the two filter obligations above)
            allowed = {"field:state.decision_tracker", "field:state.clauses_added_for_solvable", "field:state.variable_map", "field:state"}
            ok = "field:state.decision_tracker" in flds and flds <= allowed and not args and not unk
            ctx.ob(R, b.key, "later-encodes-only-decided-solvables", ok, where_call(b, i),
                   "after a partial solution only solvables from the decision stack are encoded (reads: %s)" % ", ".join(sorted(flds | args | unk)))


def _negated_return(b, call_bb):
    t = b.blocks[call_bb]["term"]
    dl = t["dest"]["l"]
    for i, j, s in b.assigns():
        r = s["r"]
        if r["k"] == "un" and r["op"] == "Not":
            p = operand_place(r["a"])
            if p and p["l"] == dl and s["p"]["l"] == 0:
                return True
    return False
